"""dev helper: apply one textual patch to /repo, run the suite, commit as a fix: commit."""
import subprocess
import sys


def patch(path, old, new, n=1):
    s = open(path).read()
    assert s.count(old) == n, (path, old[:60], s.count(old))
    s = s.replace(old, new)
    open(path, "w").write(s)


def commit(msg):
    r = subprocess.run("/verif/run_suite.sh | tail -1", shell=True, capture_output=True, text=True).stdout
    print(r.strip())
    if "396 passed" not in r:
        print("SUITE NOT GREEN -- not committed")
        sys.exit(1)
    subprocess.run(["git", "-C", "/repo", "commit", "-qam", msg], check=True)
    print(subprocess.run(["git", "-C", "/repo", "log", "--oneline", "-1"], capture_output=True, text=True).stdout.strip())
