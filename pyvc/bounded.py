"""Bounded stand-in: run-time contract checks on the REAL code over enumerated inputs.

Results of this tier are labelled `bounded` in the evidence and are never counted
as proved.  A spec module's `bounded(ctx)` drives it.
"""
import hashlib
import json
import os
import random
import time
import traceback


class Violation(Exception):
    pass


class Check:
    def __init__(self, cid, bound):
        self.id = cid
        self.bound = bound
        self.evaluations = 0
        self.keys = set()
        self.nontrivial = set()
        self.samples = []
        self.failures = []  # dict(signature, what, witness)
        self.exhaustive = False
        self.wall_s = 0.0
        self.note = ""

    def as_dict(self):
        return {
            "id": self.id,
            "kind": "bounded",
            "bound": self.bound,
            "evaluations": self.evaluations,
            "distinct": len(self.keys),
            "distinct_nontrivial": len(self.nontrivial),
            "exhaustive": self.exhaustive,
            "failures": len(self.failures),
            "samples": self.samples[:3],
            "wall_s": round(self.wall_s, 2),
            "note": self.note,
        }


class Ctx:
    def __init__(self, prop, tier, seed, deadline_s=None):
        self.prop = prop
        self.tier = tier
        self.seed = seed
        self.rng = random.Random(seed)
        self.checks = {}
        self.cur = None
        self.t0 = time.time()
        self.deadline = (self.t0 + deadline_s) if deadline_s else None
        self.max_failures_per_check = 25

    @property
    def quick(self):
        return self.tier == "quick"

    def check(self, cid, bound):
        c = Check("%s.B.%s" % (self.prop, cid), bound)
        self.checks[c.id] = c
        self.cur = c
        c._t0 = time.time()
        return c

    def done(self, exhaustive=False, note=""):
        c = self.cur
        c.exhaustive = exhaustive
        c.note = note
        c.wall_s = time.time() - c._t0

    def out_of_time(self):
        return self.deadline is not None and time.time() > self.deadline

    def case(self, key, nontrivial=True, sample=None):
        """count one evaluated case; key = canonical (json-able) form"""
        c = self.cur
        c.evaluations += 1
        h = hashlib.blake2b(json.dumps(key, sort_keys=True, default=repr).encode(), digest_size=8).hexdigest()
        c.keys.add(h)
        if nontrivial:
            c.nontrivial.add(h)
        if sample is not None and len(c.samples) < 3:
            c.samples.append(sample)
        elif len(c.samples) < 3 and nontrivial:
            c.samples.append(key)

    def fail(self, signature, what, witness=None):
        """record a violation of the property; signature identifies the failing input class
        (matched against known_findings.json)"""
        c = self.cur
        if len(c.failures) < self.max_failures_per_check:
            c.failures.append({"signature": signature, "what": what, "witness": witness})

    def guard(self, signature_prefix, fn, *a, **k):
        """run fn; an unexpected exception of the harness itself is a checker error, not a violation"""
        return fn(*a, **k)
