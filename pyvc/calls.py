"""Call handling: contracts at call sites, inlining, constructors, dispatch."""
import ast

import z3

from . import frontend
from .kinds import Kind, parse_kind, alts, sort_of, is_refkind, INT, BOOL, REAL, STR, NONE, FN
from .state import State, V, Out, VNONE, vint, vbool, vstr, fresh_name, fresh_term, Unsupported, SpecError
from .symex import Engine, Frame, MAX_DEPTH, _const_int, _const_str


def eval_call(E, node, st):
    f = node.func
    # super(...).m(...)
    if isinstance(f, ast.Attribute) and isinstance(f.value, ast.Call) and isinstance(f.value.func, ast.Name) and f.value.func.id == "super":
        return _super_call(E, node, st)
    # spec-only forms
    if isinstance(f, ast.Name):
        if f.id == "old" and E.spec_mode:
            return _old(E, node, st)
        if f.id == "fullmatch" and E.spec_mode:
            # fullmatch("regex", s): the whole string matches (no `$` leniency) -- specification only
            from .pymodel import _rx_seq
            pat = node.args[0].value
            rx = _rx_seq(pat)
            if rx is None:
                raise SpecError("regex %r" % pat)
            return E.bind(E.eval(node.args[1], st), lambda s, v: [Out("ok", s, vbool(z3.InRe(v.t, rx)))])
        if f.id in ("iter_seq", "iter_pos", "seq") and E.spec_mode:
            from . import pymodel

            def ki(s, v):
                if f.id == "iter_seq":
                    return [Out("ok", s, V(Kind("seq", v.kind[1]), pymodel.iter_seq(E, s, v)))]
                if f.id == "iter_pos":
                    return [Out("ok", s, V(INT, pymodel.iter_pos(E, s, v)))]
                if v.kind.tag == "seq":
                    return [Out("ok", s, v)]
                if v.kind.tag == "fn" and isinstance(v.t, tuple) and v.t[0] == "dictview":
                    # seq(d.values()) / seq(d.keys()): the view as a sequence (its defining axiom is a global fact)
                    s2, sv = pymodel.dictview_seq(E, s, v)
                    for c in s2.pc[len(s.pc):]:
                        E.add_axiom(c)
                    return [Out("ok", s, sv)]
                return [Out("ok", s, V(Kind("seq", v.kind[1]), E.list_seq(s, v)))]
            return E.bind(E.eval(node.args[0], st), ki)
        if f.id == "values" and E.spec_mode and len(node.args) == 1:
            return E.bind(E.eval(node.args[0], st), lambda s, v: [Out("ok", s, V(FN, ("values_of", v)))])
        if f.id == "subset" and E.spec_mode:
            # subset(xs, ys): every element of the list / sequence xs occurs in ys (by value, not by position)
            def ksub(s, vs):
                a, b = vs
                sa = E.list_seq(s, a) if a.kind.tag == "list" else a.t
                sb = E.list_seq(s, b) if b.kind.tag == "list" else b.t
                E.uses_quantifiers = True
                x = z3.Const(fresh_name("subx"), sa.sort().basis())
                return [Out("ok", s, vbool(z3.ForAll([x], z3.Implies(z3.Contains(sa, z3.Unit(x)), z3.Contains(sb, z3.Unit(x))))))]
            return E.eval_seq(list(node.args), st, ksub)
        if f.id == "first" and E.spec_mode:
            # first(xs, n): the first n elements of a list / sequence (0 <= n <= len(xs) is the caller's business)
            def kf(s, vs):
                xs, n = vs
                seq = E.list_seq(s, xs) if xs.kind.tag == "list" else xs.t
                v = V(Kind("seq", xs.kind[1]), z3.SubSeq(seq, z3.IntVal(0), E.to_int(n).t))
                v.aux = {"first": (seq, E.to_int(n).t)}
                return [Out("ok", s, v)]
            return E.eval_seq(list(node.args), st, kf)
        if f.id == "same_except" and E.spec_mode:
            # same_except(d, k1, k2, ...): the dict d has the keys and values it had at entry, except possibly at
            # the listed keys (which may be None: no key)
            def kse(s, vs):
                dv = vs[0]
                if dv.kind.tag not in ("dict", "odict"):
                    raise SpecError("same_except on %s" % (dv.kind,))
                olds = s.copy()
                olds.heap = dict(E.frame.old.heap)
                K = sort_of(dv.kind[1])
                keys = [E.coerce(k, dv.kind[1]).t for k in vs[1:] if k.kind.tag not in ("none", "seq", "list")]
                keysets = []
                for k in vs[1:]:
                    if k.kind.tag == "seq" and k.aux and "first" in k.aux:
                        keysets.append(k.aux["first"])
                    elif k.kind.tag == "seq":
                        keysets.append((k.t, z3.Length(k.t)))
                    elif k.kind.tag == "list":
                        sq = E.list_seq(s, k)
                        keysets.append((sq, z3.Length(sq)))
                if keysets:
                    E.uses_quantifiers = True
                    # some of the exceptions are given as sequences of keys: for every key outside the listed keys and
                    # outside those sequences the dict is as it was at entry (a quantified formula)
                    q = z3.Const(fresh_name("sek"), K)
                    excl = [q == kt for kt in keys]
                    for sq, cnt in keysets:
                        # membership by position (an index witness instantiates well; `Contains` on slices does not)
                        j = z3.Int(fresh_name("sej"))
                        excl.append(z3.Exists([j], z3.And(j >= 0, j < cnt, sq[j] == q)))
                    names = [("DK|%s|%s" % (dv.kind[1], dv.kind[2]), z3.ArraySort(K, z3.BoolSort()))]
                    ks = alts(dv.kind[2])
                    if len(ks) > 1:
                        names.append(("DT|%s|%s" % (dv.kind[1], dv.kind[2]), z3.ArraySort(K, z3.IntSort())))
                    for k in ks:
                        if k.tag != "none":
                            names.append((E.dvals_key(dv, k), z3.ArraySort(K, sort_of(k))))
                    same = []
                    for name, srt in names:
                        cur = z3.Select(E.arr(s, name, z3.IntSort(), srt), dv.t)
                        old = z3.Select(E.arr(olds, name, z3.IntSort(), srt), dv.t)
                        same.append(z3.Select(cur, q) == z3.Select(old, q))
                    return [Out("ok", s, vbool(z3.ForAll([q], z3.Or(excl + [z3.And(same)]))))]
                names = [("DK|%s|%s" % (dv.kind[1], dv.kind[2]), z3.ArraySort(K, z3.BoolSort()))]
                ks = alts(dv.kind[2])
                if len(ks) > 1:
                    names.append(("DT|%s|%s" % (dv.kind[1], dv.kind[2]), z3.ArraySort(K, z3.IntSort())))
                for k in ks:
                    if k.tag != "none":
                        names.append((E.dvals_key(dv, k), z3.ArraySort(K, sort_of(k))))
                conj = []
                for name, srt in names:
                    cur = z3.Select(E.arr(s, name, z3.IntSort(), srt), dv.t)
                    old = z3.Select(E.arr(olds, name, z3.IntSort(), srt), dv.t)
                    upd = old
                    for kt in keys:
                        upd = z3.Store(upd, kt, z3.Select(cur, kt))
                    conj.append(cur == upd)
                return [Out("ok", s, vbool(z3.And(conj)))]
            return E.eval_seq(list(node.args), st, kse)
        if f.id == "now" and E.spec_mode:
            from .pymodel import clock_value
            return [Out("ok", st, V(REAL, clock_value(E, st)))]
        if f.id == "is_prefix" and E.spec_mode:
            def kp(s, vs):
                a, b = vs
                sa = E.list_seq(s, a) if a.kind.tag == "list" else a.t
                sb = E.list_seq(s, b) if b.kind.tag == "list" else b.t
                return [Out("ok", s, vbool(z3.PrefixOf(sa, sb)))]
            return E.eval_seq(list(node.args), st, kp)
        if f.id == "fresh" and E.spec_mode:
            # fresh(x): x was allocated after the entry state (of the call / of the function)
            return E.bind(E.eval(node.args[0], st), lambda s, v: [Out("ok", s, vbool(v.t > E.frame.old.alloc) if v.kind.tag != "none" else vbool(False))])
        if f.id in ("all", "any") and len(node.args) == 1 and isinstance(node.args[0], ast.GeneratorExp):
            return _quant(E, node, st)
        if f.id == "implies" and E.spec_mode:
            a, b = node.args
            return E.e_BoolOp(ast.BoolOp(op=ast.Or(), values=[ast.UnaryOp(op=ast.Not(), operand=a), b]), st)
    kwnames = [k.arg for k in node.keywords]
    if any(k is None for k in kwnames):
        raise Unsupported("**kwargs call")
    for a in node.args:
        if isinstance(a, ast.Starred):
            raise Unsupported("*args call")
    nodes = [f] + list(node.args) + [k.value for k in node.keywords]

    def k(s, vs):
        fn = vs[0]
        args = vs[1:1 + len(node.args)]
        kwargs = dict(zip(kwnames, vs[1 + len(node.args):]))
        return call_value(E, s, fn, args, kwargs, node)
    return E.eval_seq(nodes, st, k)


def _super_call(E, node, st):
    f = node.func
    fr = E.frame
    sv = st.env.get("self")
    if sv is None or fr.ci is None:
        raise Unsupported("super() outside a method")
    after = fr.ci.name
    kwnames = [k.arg for k in node.keywords]
    nodes = list(node.args) + [k.value for k in node.keywords]

    def k(s, vs):
        args = vs[:len(node.args)]
        kwargs = dict(zip(kwnames, vs[len(node.args):]))
        return E.call_method(s, sv, f.attr, args, kwargs, after=after)
    return E.eval_seq(nodes, st, k)


def _old(E, node, st):
    fr = E.frame
    if fr.old is None:
        raise SpecError("old() without an entry state")
    s = st.copy()
    s.heap = dict(fr.old.heap)
    s.alloc = fr.old.alloc
    ep = getattr(fr, "entry_params", None)
    if ep:
        # inside old(...) a parameter name denotes the value it had at entry, also when the body has re-assigned it
        # (loop invariants are evaluated over the current locals)
        s.env = dict(s.env)
        s.env.update(ep)
    outs = E.eval(node.args[0], s)
    res = []
    for o in outs:
        if o.tag != "ok":
            res.append(o)
            continue
        s2 = o.st.copy()
        s2.heap = dict(st.heap)
        s2.alloc = st.alloc
        s2.env = dict(st.env)
        res.append(Out("ok", s2, o.val))
    return res


def _quant(E, node, st):
    """all(P for x in S) / any(...) -> quantified formula (spec mode) """
    E.uses_quantifiers = True
    gen = node.args[0]
    if len(gen.generators) != 1 or gen.generators[0].ifs and False:
        raise Unsupported("quantifier with several generators")
    g = gen.generators[0]
    is_all = node.func.id == "all"

    def k(s, it):
        i = z3.Int(fresh_name("q"))
        env = dict(s.env)
        if it.kind.tag == "fn" and it.t[0] == "range":
            lo, hi = it.t[1], it.t[2]
            rng = z3.And(i >= lo, i < hi)
            elemv = V(INT, i)
        elif it.kind.tag in ("list", "seq", "str"):
            if it.kind.tag == "str":
                n = z3.Length(it.t)
                elemv = V(STR, z3.SubString(it.t, i, 1))
            else:
                seq = E.list_seq(s, it) if it.kind.tag == "list" else it.t
                n = z3.Length(seq)
                elemv = E.elem(it.kind[1], seq[i])
            rng = z3.And(i >= 0, i < n)
        elif it.kind.tag == "fn" and it.t[0] == "enumerate":
            seqv = it.t[1]
            seq = E.list_seq(s, seqv) if seqv.kind.tag == "list" else seqv.t
            rng = z3.And(i >= 0, i < z3.Length(seq))
            elemv = V(Kind("tuple"), (V(INT, i), E.elem(seqv.kind[1], seq[i])))
        elif it.kind.tag == "fn" and it.t[0] == "values_of":
            # all(P(x) for x in values(xs)): the bound variable ranges over the VALUES that occur in the sequence
            # (no positions: facts of this form survive appends without reasoning about indices)
            seqv = it.t[1]
            seq = E.list_seq(s, seqv) if seqv.kind.tag == "list" else seqv.t
            ek = seqv.kind[1]
            kv = z3.Const(fresh_name("qv"), sort_of(ek))
            rng = z3.Contains(seq, z3.Unit(kv))
            base = s.assume(rng)
            a = E.assign(base, g.target, E.elem(ek, kv))
            if len(a) != 1 or a[0].tag != "ok":
                raise Unsupported("quantifier target")
            body = gen.elt
            for cond in g.ifs:
                body = ast.BoolOp(op=ast.Or(), values=[ast.UnaryOp(op=ast.Not(), operand=cond), body]) if is_all else ast.BoolOp(op=ast.And(), values=[cond, body])
            E.__dict__.setdefault("quant_axioms", []).append({"n0": len(a[0].st.pc), "items": []})
            try:
                b = E.merged_bool(body, a[0].st)
            finally:
                E.quant_axioms.pop()
            if is_all:
                return [Out("ok", s, vbool(z3.ForAll([kv], z3.Implies(rng, b))))]
            return [Out("ok", s, vbool(z3.Exists([kv], z3.And(rng, b))))]
        elif it.kind.tag in ("dict", "odict"):
            # all(P(k) for k in d): the bound variable ranges over the keys
            kk = it.kind[1]
            kv = z3.Const(fresh_name("qk"), sort_of(kk))
            rng = E.dict_has(s, it, V(kk, kv))
            base = s.assume(rng)
            a = E.assign(base, g.target, V(kk, kv))
            if len(a) != 1 or a[0].tag != "ok":
                raise Unsupported("quantifier target")
            body = gen.elt
            for cond in g.ifs:
                body = ast.BoolOp(op=ast.Or(), values=[ast.UnaryOp(op=ast.Not(), operand=cond), body]) if is_all else ast.BoolOp(op=ast.And(), values=[cond, body])
            E.__dict__.setdefault("quant_axioms", []).append({"n0": len(a[0].st.pc), "items": []})
            try:
                b = E.merged_bool(body, a[0].st)
            finally:
                hyp = E.quant_axioms.pop()["items"]
            if hyp:
                # well-typed heap: what is read (under its guards) for a key of the dict is a valid reference
                E.add_axiom(z3.ForAll([kv], z3.Implies(rng, z3.And(hyp))))
            if is_all:
                return [Out("ok", s, vbool(z3.ForAll([kv], z3.Implies(rng, b))))]
            return [Out("ok", s, vbool(z3.Exists([kv], z3.And(rng, b))))]
        else:
            raise Unsupported("quantifier over %s" % (it.kind,))
        base = s.assume(rng)
        a = E.assign(base, g.target, elemv)
        if len(a) != 1 or a[0].tag != "ok":
            raise Unsupported("quantifier target")
        base = a[0].st
        body = gen.elt
        for cond in g.ifs:
            body = ast.BoolOp(op=ast.Or(), values=[ast.UnaryOp(op=ast.Not(), operand=cond), body]) if is_all else ast.BoolOp(op=ast.And(), values=[cond, body])
        E.__dict__.setdefault("quant_axioms", []).append({"n0": len(base.pc), "items": []})
        try:
            if is_refkind(elemv.kind) and elemv.kind.tag != "tuple":
                base = E.assume_valid_ref(base, elemv)
            b = E.merged_bool(body, base)
        finally:
            hyp = E.quant_axioms.pop()["items"]
        if hyp:
            # well-typed heap: the elements in range, and what the body reads under its guards, are valid references
            E.add_axiom(z3.ForAll([i], z3.Implies(rng, z3.And(hyp))))
        s_out = s
        if is_all:
            return [Out("ok", s_out, vbool(z3.ForAll([i], z3.Implies(rng, b))))]
        return [Out("ok", s_out, vbool(z3.Exists([i], z3.And(rng, b))))]
    return E.bind(E.eval(g.iter, st), k)


def merged_bool(E, node, base):
    """evaluate a boolean expression with forking and merge the forks into one z3 Bool"""
    E.spec_mode += 1
    try:
        outs = E.eval(node, base)
    finally:
        E.spec_mode -= 1
    n0 = len(base.pc)
    conj = []
    for o in outs:
        extra = list(o.st.pc[n0:])
        if o.tag != "ok":
            if E.feasible(o.st):
                raise SpecError("specification expression may raise: %s (%s)" % (ast.unparse(node), o.val.aux.get("why") if o.val is not None and o.val.aux else o.val))
            continue
        for s1, c in E.truthy_outs(o.st, o.val):
            extra1 = list(s1.pc[n0:])
            conj.append(z3.Implies(z3.And(extra1) if extra1 else z3.BoolVal(True), c))
    return z3.And(conj) if conj else z3.BoolVal(True)


Engine.merged_bool = merged_bool


def merged_value(E, node, base):
    """evaluate an expression (spec mode) and merge forks into one value of a single kind"""
    E.spec_mode += 1
    try:
        outs = E.eval(node, base)
    finally:
        E.spec_mode -= 1
    n0 = len(base.pc)
    oks = []
    for o in outs:
        if o.tag != "ok":
            if E.feasible(o.st):
                raise SpecError("specification expression may raise: %s" % ast.unparse(node))
            continue
        oks.append(o)
    if not oks:
        raise SpecError("specification expression has no value: %s" % ast.unparse(node))
    k = oks[0].val.kind
    for o in oks:
        if o.val.kind != k:
            raise SpecError("specification expression of varying kind: %s" % ast.unparse(node))
    if k.tag in ("none", "tuple", "type", "fn"):
        if len(oks) != 1:
            raise SpecError("cannot merge %s values" % (k,))
        return oks[0].val
    t = oks[-1].val.t
    for o in reversed(oks[:-1]):
        extra = list(o.st.pc[n0:])
        t = z3.If(z3.And(extra) if extra else z3.BoolVal(True), o.val.t, t)
    return V(k, t)


Engine.merged_value = merged_value


# --------------------------------------------------------------------------- dispatch
def call_value(E, st, fn, args, kwargs, node=None):
    if fn.kind.tag == "type":
        return construct(E, st, fn.t, args, kwargs, node)
    if fn.kind.tag != "fn":
        if fn.kind.tag == "none":
            return [E.raise_(st, "TypeError", "'NoneType' object is not callable")]
        if fn.kind.tag == "ref":
            return E.call_method(st, fn, "__call__", args, kwargs)
        raise Unsupported("call of %s" % (fn.kind,))
    d = fn.t
    if not isinstance(d, tuple):
        return opaque_call(E, st, fn, args, kwargs)
    tag = d[0]
    if tag == "builtin":
        from .pymodel import call_builtin
        return call_builtin(E, st, d[1], args, kwargs, node)
    if tag == "bound":
        return E.call_method(st, d[1], d[2], args, kwargs)
    if tag == "prim":
        from .pymodel import call_prim
        return call_prim(E, st, d[1], d[2], args, kwargs, node)
    if tag == "ext":
        from .pymodel import call_ext
        return call_ext(E, st, d[1], d[2], args, kwargs, node)
    if tag == "modfn":
        return call_modfn(E, st, d[1], d[2], args, kwargs)
    if tag == "clsattr":
        return call_clsattr(E, st, d[1], d[2], args, kwargs)
    if tag == "spec":
        return call_spec(E, st, d[1], args, kwargs)
    if tag in ("closure", "lambda"):
        return call_closure(E, st, d, args, kwargs)
    if tag == "opaque":
        return opaque_call(E, st, fn, args, kwargs)
    raise Unsupported("call of %r" % (tag,))


def opaque_call(E, st, fn, args, kwargs):
    """A callable the library knows nothing about (handler, listener, validator).
    Modelled by the `opaque` hook of the spec if there is one, else unsupported."""
    hook = getattr(E.R, "opaque_hook", None)
    if hook is None:
        raise Unsupported("opaque call")
    return hook(E, st, fn, args, kwargs)


def call_spec(E, st, name, args, kwargs):
    if name in E.R.ufs:
        u = E.R.ufs[name]
        f = E.uf_decl(name if u.raw else "uf_" + name, *([sort_of(k) for k in u.argkinds] + [sort_of(u.reskind)]))
        ts = []
        for a, k in zip(args, u.argkinds):
            try:
                ts.append(_arg_term(E, st, a, k))
            except Unsupported:
                # ill-kinded application: only legal on an infeasible branch of a specification
                return [E.raise_(st, "TypeError", "%s applied to %s" % (name, a.kind))]
        return [Out("ok", st, V(u.reskind, f(*ts)))]
    sf = E.R.specfns[name]
    if sf.recursive:
        f = rec_function(E, sf)
        ts = [_arg_term(E, st, a, k) for a, (_, k) in zip(args, sf.params)]
        return [Out("ok", st, V(sf.returns, f(*ts)))]
    env = {}
    for (pn, pk), a in zip(sf.params, args):
        env[pn] = a
    s = st.copy()
    saved_env = s.env
    s.env = env
    v = E.merged_value(sf.node, s) if sf.returns.tag != "bool" else vbool(E.merged_bool(sf.node, s))
    return [Out("ok", st, v)]


def _arg_term(E, st, a, k):
    if k.tag == "seq" and a.kind.tag == "list":
        return E.list_seq(st, a)
    return E.coerce(a, k).t


_REC_SERIAL = [0]


def rec_function(E, sf):
    f = E.recfns.get(sf.name)
    if f is not None:
        return f
    sorts = [sort_of(k) for _, k in sf.params] + [sort_of(sf.returns)]
    # (z3 keeps recursive definitions per context, the cache above is per engine: a worker process that verifies a second
    #  target would define the same name twice -- every engine gets its own name)
    _REC_SERIAL[0] += 1
    f = z3.RecFunction("spec_%s!%d" % (sf.name, _REC_SERIAL[0]) if _REC_SERIAL[0] > 1 else "spec_" + sf.name, *sorts)
    E.recfns[sf.name] = f
    params = [z3.Const("p_%s_%s" % (sf.name, n), sort_of(k)) for n, k in sf.params]
    s = State()
    s.alloc = z3.IntVal(0)
    s.env = {n: V(k, p) for (n, k), p in zip(sf.params, params)}
    saved = E.frames
    E.frames = saved + [Frame(None, None, None, "spec:" + sf.name)]
    # the body is evaluated over the FORMAL parameters: facts about what it reads ("a valid reference") would be facts
    # about those constants, not about any actual argument -- they are not recorded (as under a quantifier)
    E.__dict__.setdefault("quant_axioms", []).append({"n0": 0, "items": []})
    try:
        if sf.returns.tag == "bool":
            body = E.merged_bool(sf.node, s)
        else:
            body = E.merged_value(sf.node, s).t
    finally:
        E.frames = saved
        E.quant_axioms.pop()
    z3.RecAddDefinition(f, params, body)
    return f


def call_closure(E, st, d, args, kwargs):
    node, env, frame = d[1], d[2], d[3]
    if isinstance(node, ast.Lambda):
        fargs = node.args
        body = [ast.Return(value=node.body)]
    else:
        fargs = node.args
        body = frontend.body_without_docstring(node)
    local = dict(env) if env is not None else dict(st.env)
    bind_params(E, st, fargs, args, kwargs, local, None)
    s = st.copy()
    s.env = local
    s.depth += 1
    if s.depth > MAX_DEPTH:
        raise Unsupported("call depth")
    saved = E.frames
    E.frames = saved + [_sub_frame(frame)]
    try:
        outs = E.exec_block(body, s)
    finally:
        E.frames = saved
    return _finish_call(st, outs, E)


def _sub_frame(fr):
    f = Frame(fr.mi, fr.ci, fr.node, fr.qual, fr.contract)
    f.old = fr.old
    f.params = fr.params
    f.loop_ordinal = 10_000  # loops inside closures have no sidecar
    return f


def _finish_call(caller_st, outs, E=None):
    res = _finish_call0(caller_st, outs)
    if E is not None and not E.spec_mode:
        # outcomes that return None are merged (validators, setters): one state instead of one per path
        res = E.merge_outs([Out("ok", o.st) if (o.tag == "ok" and o.val is not None and o.val.kind.tag == "none") else o for o in res],
                           len(caller_st.pc))
        res = [Out("ok", o.st, VNONE) if (o.tag == "ok" and o.val is None) else o for o in res]
    return res


def _finish_call0(caller_st, outs):
    res = []
    for o in outs:
        s = o.st.copy()
        s.env = caller_st.env
        s.depth = caller_st.depth
        if o.tag == "return":
            res.append(Out("ok", s, o.val))
        elif o.tag == "ok":
            res.append(Out("ok", s, VNONE))
        elif o.tag == "raise":
            res.append(Out("raise", s, o.val))
        else:
            raise Unsupported("break/continue escaping a function")
    return res


def bind_params(E, st, fargs, args, kwargs, local, selfv):
    names = [a.arg for a in fargs.args]
    if fargs.vararg or fargs.kwarg or fargs.kwonlyargs:
        if fargs.vararg and not fargs.kwarg and not fargs.kwonlyargs:
            pass
        else:
            raise Unsupported("**kwargs / keyword-only parameters")
    vals = {}
    pos = list(args)
    if selfv is not None:
        pos = [selfv] + pos
    if len(pos) > len(names):
        if fargs.vararg:
            extra = pos[len(names):]
            pos = pos[:len(names)]
            local[fargs.vararg.arg] = V(Kind("tuple"), tuple(extra))
        else:
            raise Unsupported("too many positional arguments")
    elif fargs.vararg:
        local[fargs.vararg.arg] = V(Kind("tuple"), ())
    for n, v in zip(names, pos):
        vals[n] = v
    for k, v in kwargs.items():
        if k not in names:
            raise Unsupported("unknown keyword %s" % k)
        vals[k] = v
    defaults = fargs.defaults
    dstart = len(names) - len(defaults)
    for i, n in enumerate(names):
        if n not in vals:
            if i >= dstart:
                d = defaults[i - dstart]
                outs = E.eval(d, st)
                if len(outs) != 1 or outs[0].tag != "ok":
                    raise Unsupported("non-trivial default value")
                vals[n] = outs[0].val
            else:
                raise Unsupported("missing argument %s" % n)
    local.update(vals)


def call_modfn(E, st, modname, fname, args, kwargs):
    qual = "%s:%s" % (modname, fname)
    c = E.R.contracts.get(qual)
    if c is not None:
        return apply_contract(E, st, c, None, args, kwargs)
    mi = E.P.module(modname)
    node = mi.functions[fname]
    return inline(E, st, mi, None, node, None, args, kwargs)


def call_clsattr(E, st, cname, attr, args, kwargs):
    """Class.method(...) : classmethod / staticmethod / exception factory"""
    if E.is_exc_class(cname):
        s2, e = E.mk_exc(st, cname, args)
        e.aux["factory"] = attr
        return [Out("ok", s2, e)]
    c = E.R.method_contract(cname, attr, E.P)
    ci, fn = E.P.find_method(cname, attr)
    if c is not None:
        if c.params and c.params[0][0] == "cls" and fn is not None and "classmethod" in ci.decorators.get(attr, ()):
            args = [VNONE] + list(args)  # the contract names the implicit class argument (of kind none)
        return apply_contract(E, st, c, None, args, kwargs)
    if fn is None:
        raise Unsupported("unknown class attribute %s.%s" % (cname, attr))
    decs = ci.decorators.get(attr, ())
    mi = E.P.module(ci.module)
    if "classmethod" in decs:
        return inline(E, st, mi, ci, fn, V(Kind("type"), cname), args, kwargs)
    if "staticmethod" in decs:
        return inline(E, st, mi, ci, fn, None, args, kwargs)
    # unbound method call: first arg is self
    if args and args[0].kind.tag == "ref":
        return inline(E, st, mi, ci, fn, args[0], args[1:], kwargs)
    raise Unsupported("unbound method call %s.%s" % (cname, attr))


def construct(E, st, cname, args, kwargs, node=None):
    if cname in ("OrderedDict", "dict"):
        if args or kwargs:
            raise Unsupported("dict(...) with arguments")
        hint = getattr(node, "_pyvc_kind", None)
        if hint is None:
            raise Unsupported("dict() without a declared kind")
        s2, dv = E.new_dict(st, hint)
        return [Out("ok", s2, dv)]
    if cname in ("int", "str", "bool", "float", "list", "tuple", "set", "type"):
        from .pymodel import call_builtin
        return call_builtin(E, st, cname, args, kwargs, node)
    if E.is_exc_class(cname):
        s2, e = E.mk_exc(st, cname, args)
        return [Out("ok", s2, e)]
    # constructor contract?
    c = E.R.method_contract(cname, "__init__", E.P)
    sh = E.R.shapes.get(cname)
    if c is not None and (c.clsname == cname or True):
        s2, obj = E.new_object(st, cname)
        outs = apply_contract(E, s2, c, obj, args, kwargs)
        return [Out("ok", o.st, obj) if o.tag == "ok" else o for o in outs]
    if sh is not None and sh.external:
        raise Unsupported("constructor of external class %s without contract" % cname)
    try:
        ci, fn = E.P.find_method(cname, "__init__")
    except frontend.MissingTarget:
        raise Unsupported("unknown class %s" % cname)
    s2, obj = E.new_object(st, cname)
    if fn is None:
        return [Out("ok", s2, obj)]
    mi = E.P.module(ci.module)
    outs = inline(E, s2, mi, ci, fn, obj, args, kwargs)
    return [Out("ok", o.st, obj) if o.tag == "ok" else o for o in outs]


def call_method(E, st, obj, meth, args, kwargs, after=None):
    if obj.kind.tag != "ref":
        if obj.kind.tag == "none":
            return [E.raise_(st, "AttributeError", "None.%s()" % meth)]
        from .pymodel import call_prim
        return call_prim(E, st, obj, meth, args, kwargs, None)
    cls = obj.kind[1]
    c = E.R.method_contract(cls, meth, E.P, after=after)
    ci, fn = (None, None)
    try:
        ci, fn = E.P.find_method(cls, meth, after=after)
    except frontend.MissingTarget:
        pass
    # the most specific of contract / implementation wins: a contract declared on a base class does not
    # describe an override in a subclass
    sh = E.R.shapes.get(cls)
    if c is not None and ci is not None and c.clsname != ci.name and not (sh is not None and sh.external):
        chain = [x.name for x in E.P.mro(E.P.find_class(cls))]
        if c.clsname in chain and chain.index(ci.name) < chain.index(c.clsname):
            c = None
    verifying_same = E.frames and E.frames[0].contract is c and False
    if c is not None:
        return apply_contract(E, st, c, obj, args, kwargs)
    if fn is None:
        raise Unsupported("method %s.%s has neither source nor contract" % (cls, meth))
    mi = E.P.module(ci.module)
    return inline(E, st, mi, ci, fn, obj, args, kwargs)


Engine.call_method = call_method


def inline(E, st, mi, ci, fn, selfv, args, kwargs):
    qual = E.qual_of(mi, ci, fn)
    for fr in E.frames:
        if fr.qual == qual and fr.node is fn:
            raise Unsupported("recursive call of %s without a contract" % qual)
    if st.depth + 1 > MAX_DEPTH:
        raise Unsupported("inline depth")
    decs = ci.decorators.get(fn.name, ()) if ci else ()
    if "contextmanager" in decs:
        raise Unsupported("@contextmanager %s" % qual)
    local = {}
    if "staticmethod" in decs:
        selfv = None
    bind_params(E, st, fn.args, args, kwargs, local, selfv)
    s = st.copy()
    s.env = local
    s.depth += 1
    fr = Frame(mi, ci, fn, qual, None)
    fr.old = E.frame.old if E.frames else None
    fr.params = dict(local)
    E.inlined.add(qual)
    saved = E.frames
    E.frames = saved + [fr]
    try:
        outs = E.exec_block(frontend.body_without_docstring(fn), s)
    finally:
        E.frames = saved
    return _finish_call(st, outs, E)


# --------------------------------------------------------------------------- contracts at call sites
def spec_env(E, c, selfv, args, kwargs, st):
    from . import pymodel
    env = {}
    names = [n for n, _ in c.params]
    kinds = dict(c.params)
    pos = list(args)
    if len(pos) > len(names):
        raise Unsupported("too many arguments for contract %s" % c.qual)
    for n, v in zip(names, pos):
        env[n] = v
    for k, v in kwargs.items():
        if k not in kinds:
            raise Unsupported("keyword %s not in contract %s" % (k, c.qual))
        env[k] = v
    defaults = getattr(c, "defaults", {})
    for n in names:
        if n not in env:
            if n in defaults:
                env[n] = _lit(defaults[n])
            else:
                raise Unsupported("missing argument %s for contract %s" % (n, c.qual))
    for n in names:
        v = env[n]
        if (v.kind.tag == "fn" and isinstance(v.t, tuple) and v.t[0] == "dictview" and v.t[2] in ("values", "keys")
                and all(a.tag == "seq" for a in alts(kinds[n]))):
            # a keys() / values() view handed to a parameter that the contract declares as an immutable sequence: the
            # callee sees the enumeration of the dictionary in its state at the call (exact as long as the callee does
            # not write the dictionary, which its frame clause decides)
            st, sv = pymodel.dictview_seq(E, st, v)
            if any(a[1] == sv.kind[1] for a in alts(kinds[n])):
                env[n] = v = sv
        ok = any(E._compatible(v.kind, a) or (a.tag == "real" and v.kind.tag in ("int", "bool")) or
                 (a.tag == "int" and v.kind.tag == "bool") or (a.tag == "seq" and v.kind.tag == "list" and a[1] == v.kind[1])
                 for a in alts(kinds[n]))
        if not ok:
            raise Unsupported("argument %s of kind %s does not fit contract %s (%s)" % (n, v.kind, c.qual, kinds[n]))
    if selfv is not None:
        env["self"] = selfv
    if "result" in env:
        env["arg_result"] = env["result"]  # a parameter called `result` is visible in clauses as arg_result
    return env, st


def _lit(x):
    if x is None:
        return VNONE
    if isinstance(x, bool):
        return vbool(x)
    if isinstance(x, int):
        return vint(x)
    if isinstance(x, str):
        return vstr(x)
    raise SpecError("default literal %r" % (x,))


def clause_props(src):
    """'[C11,C15] expr' -> ({'C11','C15'}, 'expr');  untagged -> (None, expr)"""
    src = src.strip()
    if src.startswith("["):
        j = src.index("]")
        return set(x.strip() for x in src[1:j].split(",")), src[j + 1:].strip()
    return None, src


def in_force(src, prop):
    """a clause tagged [Cxx,...] belongs to the contracts of those properties only: it is neither assumed nor
    checked when another property is decided ([def] clauses, ghost definitions, are assumed at call sites only)"""
    props, _ = clause_props(src)
    return props is None or prop in props


def parse_clause(src):
    return ast.parse(clause_props(src)[1], mode="eval").body


def spec_bool(E, src, st, env, old_st, contract_frame=None):
    """z3 Bool of a clause evaluated in state st with names bound by env"""
    node = parse_clause(src) if isinstance(src, str) else src
    s = st.copy()
    s.env = dict(env)
    fr = Frame(contract_frame.mi if contract_frame else None, contract_frame.ci if contract_frame else None, None,
               (contract_frame.qual if contract_frame else "spec"))
    fr.old = old_st
    fr.params = dict(env)
    fr.entry_params = dict(contract_frame.params) if (contract_frame is not None and getattr(contract_frame, "params", None)) else None
    saved = E.frames
    E.frames = saved + [fr]
    try:
        return E.merged_bool(node, s)
    finally:
        E.frames = saved


Engine.spec_bool = spec_bool


def spec_value(E, src, st, env, old_st):
    node = parse_clause(src) if isinstance(src, str) else src
    s = st.copy()
    s.env = dict(env)
    fr = Frame(None, None, None, "spec")
    fr.old = old_st
    fr.params = dict(env)
    saved = E.frames
    E.frames = saved + [fr]
    try:
        return E.merged_value(node, s)
    finally:
        E.frames = saved


Engine.spec_value = spec_value


def havoc(E, st, locs, env, old_st):
    """havoc the heap locations named by the `modifies` clauses (evaluated in the pre-state)"""
    s = st.copy()
    for loc in locs:
        node = parse_clause(loc)
        if isinstance(node, ast.Name) and node.id == "CLOCK":
            from .pymodel import clock_value, set_clock
            t = z3.Real(fresh_name("clock"))
            s.pc = s.pc + (t >= clock_value(E, s),)
            s.heap = set_clock(E, s, t).heap
            continue
        if isinstance(node, ast.Attribute):
            if isinstance(node.value, ast.Name) and node.value.id == "ANY":
                # ANY._field : the whole field array
                _havoc_field_all(E, s, node.attr)
                continue
            base = spec_value(E, node.value, st, env, old_st)
            if base.kind.tag == "type":
                base = E.class_object(base.t)  # Class.var : a class variable
            if base.kind.tag != "ref":
                raise SpecError("modifies %s: base is %s" % (loc, base.kind))
            fk = E.R.field_kind(base.kind[1], node.attr, E.P)
            if fk is None:
                raise SpecError("modifies %s: undeclared field" % loc)
            ks = alts(fk)
            r = base.t
            if len(ks) > 1:
                tk = "T|%s|%s" % (node.attr, fk)
                tv = z3.Int(fresh_name("hv_tag"))
                s.pc = s.pc + (z3.And(tv >= 0, tv < len(ks)),)
                s.heap[tk] = z3.Store(E.arr(s, tk, z3.IntSort(), z3.IntSort()), r, tv)
            for k in ks:
                for key, srt in E.field_keys(node.attr, k):
                    s.heap[key] = z3.Store(E.arr(s, key, z3.IntSort(), srt), r, z3.Const(fresh_name("hv_" + node.attr), srt))
        elif isinstance(node, ast.Call) and isinstance(node.func, ast.Name) and node.func.id == "LISTS":
            # the contents of every list of this element kind (coarse frame)
            k = parse_kind(ast.unparse(node.args[0]))
            key = E.lkey(k)
            s.heap[key] = z3.Array(fresh_name(key.replace("|", "/")), z3.IntSort(), z3.SeqSort(sort_of(k)))
        elif isinstance(node, ast.Call) and isinstance(node.func, ast.Name) and node.func.id == "ITER":
            # the position of an iterator (never moves backwards, never beyond the end)
            from . import pymodel
            it = spec_value(E, node.args[0], st, env, old_st)
            newpos = z3.Int(fresh_name("hv_iterpos"))
            s.pc = s.pc + (z3.And(newpos >= pymodel.iter_pos(E, s, it), newpos <= z3.Length(pymodel.iter_seq(E, s, it))),)
            s.heap["II"] = z3.Store(E.arr(s, "II", z3.IntSort(), z3.IntSort()), it.t, newpos)
        elif isinstance(node, ast.Call) and isinstance(node.func, ast.Name) and node.func.id == "items":
            base = spec_value(E, node.args[0], st, env, old_st)
            _havoc_items(E, s, base)
        else:
            raise SpecError("modifies clause %r" % loc)
    return s


def _havoc_items(E, s, base):
    if base.kind.tag == "list":
        k = base.kind[1]
        key = E.lkey(k)
        S = z3.SeqSort(sort_of(k))
        s.heap[key] = z3.Store(E.arr(s, key, z3.IntSort(), S), base.t, z3.Const(fresh_name("hv_list"), S))
    elif base.kind.tag in ("dict", "odict"):
        K = sort_of(base.kind[1])
        kk = "DK|%s|%s" % (base.kind[1], base.kind[2])
        s.heap[kk] = z3.Store(E.arr(s, kk, z3.IntSort(), z3.ArraySort(K, z3.BoolSort())), base.t,
                              z3.Const(fresh_name("hv_dk"), z3.ArraySort(K, z3.BoolSort())))
        vkind = base.kind[2]
        ks = alts(vkind)
        if len(ks) > 1:
            tk = "DT|%s|%s" % (base.kind[1], vkind)
            s.heap[tk] = z3.Store(E.arr(s, tk, z3.IntSort(), z3.ArraySort(K, z3.IntSort())), base.t,
                                  z3.Const(fresh_name("hv_dt"), z3.ArraySort(K, z3.IntSort())))
        for k in ks:
            if k.tag == "none":
                continue
            vk = E.dvals_key(base, k)
            s.heap[vk] = z3.Store(E.arr(s, vk, z3.IntSort(), z3.ArraySort(K, sort_of(k))), base.t,
                                  z3.Const(fresh_name("hv_dv"), z3.ArraySort(K, sort_of(k))))
        if base.kind.tag == "odict":
            ok = "DO|%s|%s" % (base.kind[1], base.kind[2])
            s.heap[ok] = z3.Store(E.arr(s, ok, z3.IntSort(), z3.SeqSort(K)), base.t,
                                  z3.Const(fresh_name("hv_do"), z3.SeqSort(K)))
    else:
        raise SpecError("items() of %s" % (base.kind,))


def _havoc_field_all(E, s, fname):
    found = False
    for sh in E.R.shapes.values():
        if fname in sh.fields:
            fk = sh.fields[fname]
            ks = alts(fk)
            if len(ks) > 1:
                tk = "T|%s|%s" % (fname, fk)
                s.heap[tk] = z3.Array(fresh_name(tk.replace("|", "/")), z3.IntSort(), z3.IntSort())
            for k in ks:
                for key, srt in E.field_keys(fname, k):
                    s.heap[key] = z3.Array(fresh_name(key.replace("|", "/")), z3.IntSort(), srt)
            found = True
    if not found:
        raise SpecError("modifies ANY.%s: no such field" % fname)


Engine.havoc = havoc


def apply_contract(E, st, c, selfv, args, kwargs):
    """Use a callee through its contract only."""
    env, st = spec_env(E, c, selfv, args, kwargs, st)
    if c.assumed:
        E.trusted.add("assumed contract: %s%s" % (c.qual, (" -- " + c.note) if c.note else ""))
    top = E.frames[0]
    site = "%s@%s" % (c.name, top.qual.partition(":")[2]) if top else c.name
    # preconditions are obligations of the caller
    if not E.spec_mode:
        for i, r in enumerate(c.requires):
            if not in_force(r, E.prop):
                continue
            g = E.spec_bool(r, st, env, st)
            ob = E.obl("%s.%s.pre@%s.%d" % (E.prop, getattr(top, "display", None) or top.qual.partition(":")[2], c.name, i), "pre", text=r)
            ob.add(st.pc, g, note="call of %s" % c.qual)
        # termination inside a recursion group
        tc = top.contract
        if tc is not None and c.group and tc.group == c.group and c.decreases:
            m = E.spec_value(c.decreases, st, env, st)
            ob = E.obl("%s.%s.term@%s" % (E.prop, top.qual.partition(":")[2], c.name), "term", text=c.decreases)
            ob.add(st.pc, z3.And(m.t >= 0, m.t < top.entry_measure), note="recursive call must decrease the measure")
    res = []
    # normal outcome(s)
    if not getattr(c, "never_returns", False):
        s1 = E.havoc(st, c.modifies, env, st)
        s1.alloc = _grow_alloc(E, s1)
        for rk in alts(c.returns):
            s2 = s1
            if c.fresh_result and is_refkind(rk):
                s2, r = E.new_ref(s2)
                rv = V(rk, r)
                tc = E.type_constraint(rv)
                if tc is not None:
                    s2 = s2.assume(tc)
            else:
                rv = E.fresh(rk, "res_" + c.funcname)
                s2 = E.assume_valid_ref(s2, rv) if rk.tag != "tuple" else s2
            env2 = dict(env)
            env2["result"] = rv
            ok = True
            for e in c.ensures:
                props, _txt = clause_props(e)
                if props is not None and props != {"def"} and E.prop not in props:
                    continue  # clause of another property's contract: not in force here
                s2 = s2.assume(E.spec_bool(e, s2, env2, st))
            if len(alts(c.returns)) > 1 and not E.feasible(s2):
                continue
            res.append(Out("ok", s2, rv))
    for exc, cond in c.raises.items():
        mods = c.raises_modifies if c.raises_modifies is not None else c.modifies
        s1 = E.havoc(st, mods, env, st)
        s1.alloc = _grow_alloc(E, s1)
        s1 = s1.assume(E.spec_bool(cond, st, env, st))
        for e in c.ensures_on_raise.get(exc, []):
            s1 = s1.assume(E.spec_bool(e, s1, env, st))
        if not E.feasible(s1):
            continue
        s2, ev = E.mk_exc(s1, exc)
        ev.aux["why"] = "raised by %s" % c.qual
        ev.aux["abstract"] = True  # this class or any subclass of it
        res.append(Out("raise", s2, ev))
    return res


def _grow_alloc(E, s):
    a = z3.Int(fresh_name("alloc"))
    s.pc = s.pc + (a >= s.alloc,)
    return a


Engine.apply_contract = apply_contract
