"""./check <Cxx> [--tier quick|thorough] [--replay FILE]

exit 0: the property held on everything explored (every deductive obligation discharged or
        undecided-with-bounded-companion, bounded checks green, listed known findings aside)
exit 1: violation (a line `VIOLATION property=<id> replay=<path>[ no-failing-input-found]`)
exit 3: checker error (never a verdict)
"""
import argparse
import importlib
import json
import multiprocessing as mp
import os
import sys
import time
import traceback

ROOT = os.path.dirname(os.path.dirname(os.path.abspath(__file__)))
REPO = os.environ.get("CLIKIT_REPO", "/repo")


def _setup_path():
    src = os.path.join(REPO, "src")
    if src not in sys.path:
        sys.path.insert(0, src)
    if ROOT not in sys.path:
        sys.path.insert(0, ROOT)
    os.environ.setdefault("PYTHONDONTWRITEBYTECODE", "1")
    sys.dont_write_bytecode = True


class _ReplayTimeout(BaseException):
    pass


def _with_alarm(seconds, fn, *a):
    """the real code under replay may block (terminal input, threads): bound it"""
    import signal

    def onalarm(signum, frame):
        raise _ReplayTimeout("replay exceeded %ds" % seconds)
    old = signal.signal(signal.SIGALRM, onalarm)
    signal.alarm(seconds)
    try:
        return fn(*a)
    finally:
        signal.alarm(0)
        signal.signal(signal.SIGALRM, old)


# ------------------------------------------------------------------ deductive worker
def _run_target(job):
    """verify one function (or lemma) and discharge its obligations; returns plain data"""
    _setup_path()
    try:
        sys.stdin = open(os.devnull)  # replayed real code must never wait for terminal input
        os.dup2(sys.stdin.fileno(), 0)
    except Exception:
        pass
    prop, kind, name, self_cls, timeout_ms, exclusions, tag, only_case = job
    t0 = time.time()
    out = {"target": name, "self_cls": self_cls, "kind": kind, "status": "ok", "reason": "", "obligations": [],
           "trusted": [], "inlined": [], "hash": None, "lines": None, "dropped": [], "paths": 0, "tag": tag,
           "case": only_case}
    try:
        import z3  # noqa
        from pyvc import verify, solve, replay
        from pyvc.contracts import REG
        importlib.import_module("specs." + prop)
        if kind == "function":
            try:
                from pyvc import frontend as _fe
                _mi, _ci, _node = _fe.Program().target(name)
                out["hash"] = _fe.func_hash(_mi, _node)
            except Exception:
                pass
        if kind == "lemma":
            rep = verify.verify_lemma(name, prop)
        else:
            rep = verify.verify_function(name, prop, self_cls=self_cls, exclusions=exclusions, tag=tag, only_case=only_case)
        out["status"] = rep.status
        out["reason"] = rep.reason
        out["hash"] = rep.hash or out["hash"]
        out["lines"] = rep.lines
        out["dropped"] = rep.dropped
        out["trusted"] = sorted(rep.trusted)
        out["inlined"] = sorted(rep.inlined)
        out["paths"] = rep.paths
        extract = replay.extract_witness(rep) if getattr(rep, "engine", None) is not None and kind != "lemma" else None
        for ob in rep.obligations:
            r = solve.discharge(ob, timeout_ms=timeout_ms, extract=extract, max_models=4, cross_check=(timeout_ms > 10000))
            d = r.as_dict()
            d["smt2"] = (r.smt2 or "")[:3000] if r.status != "proved" else None
            if r.status == "failed" and kind != "lemma" and r.witness:
                runs = []
                for w in r.witness:
                    if not isinstance(w, dict) or "params" not in w:
                        runs.append({"verdict": "skipped", "why": str(w)})
                        continue
                    try:
                        runs.append(_with_alarm(15, replay.run_witness, name, w, None, None, tag))
                    except BaseException as e:  # noqa
                        runs.append({"verdict": "skipped", "why": "replay crashed or timed out: %r" % (e,)})
                    if runs[-1].get("verdict") == "reproduced":
                        break
                d["replays"] = runs
            out["obligations"].append(d)
    except BaseException as e:  # noqa
        out["status"] = "error"
        out["reason"] = "%r\n%s" % (e, traceback.format_exc()[-3000:])
    out["wall_s"] = round(time.time() - t0, 3)
    return out


# ------------------------------------------------------------------ bounded worker
def _run_bounded(prop, tier, seed, q, deadline_s):
    _setup_path()
    try:
        from pyvc.bounded import Ctx
        spec = importlib.import_module("specs." + prop)
        ctx = Ctx(prop, tier, seed, deadline_s)
        spec.bounded(ctx)
        res = {"status": "ok", "checks": []}
        for c in ctx.checks.values():
            d = c.as_dict()
            d["failure_list"] = c.failures
            res["checks"].append(d)
        q.put(res)
    except BaseException as e:  # noqa
        q.put({"status": "error", "reason": "%r\n%s" % (e, traceback.format_exc()[-4000:]), "checks": []})


def load_findings():
    p = os.path.join(ROOT, "known_findings.json")
    if not os.path.exists(p):
        return []
    with open(p) as f:
        return json.load(f).get("entries", [])


def probe_finding(entry):
    """True if the recorded witness still fails on the current tree"""
    src = entry.get("probe")
    if not src:
        return None
    ns = {}
    try:
        exec(src, ns)
        return bool(ns["probe"]())
    except BaseException as e:  # noqa
        return None


def main(argv=None):
    ap = argparse.ArgumentParser()
    ap.add_argument("prop")
    ap.add_argument("--tier", default=os.environ.get("VERIF_TIER", "quick"), choices=["quick", "thorough"])
    ap.add_argument("--replay", default=None)
    ap.add_argument("--relock", action="store_true", help="rewrite the ledger entry of this property (deliberate)")
    ap.add_argument("--no-bounded", action="store_true")
    ap.add_argument("--no-deductive", action="store_true")
    ap.add_argument("--jobs", type=int, default=int(os.environ.get("VERIF_JOBS", "16")))
    ap.add_argument("-v", "--verbose", action="store_true")
    args = ap.parse_args(argv)
    _setup_path()
    prop = args.prop
    seed = int(os.environ.get("VERIF_SEED", "0") or 0)
    t0 = time.time()
    try:
        spec = importlib.import_module("specs." + prop)
    except Exception:
        traceback.print_exc()
        print("CHECKER-ERROR property=%s cannot load the spec" % prop)
        return 3
    if args.replay:
        return do_replay(prop, args.replay)

    findings = [e for e in load_findings() if e.get("property") == prop]
    open_findings = [e for e in findings if e.get("status") == "finding"]
    exclusions = {}
    for e in open_findings:
        if e.get("region") and e.get("id"):
            exclusions.setdefault(e["id"], []).append(e["region"])

    timeout_ms = 10000 if args.tier == "quick" else 60000
    jobs = []
    for t in getattr(spec, "TARGETS", []):
        if isinstance(t, str):
            t = {"qual": t}
        if t.get("split"):
            from pyvc import verify as _v
            for i in range(_v.count_cases(t["qual"], t.get("self_cls"))):
                jobs.append((prop, "function", t["qual"], t.get("self_cls"), timeout_ms, exclusions, t.get("tag"), i))
        else:
            jobs.append((prop, "function", t["qual"], t.get("self_cls"), timeout_ms, exclusions, t.get("tag"), None))
    for l in getattr(spec, "LEMMAS", []):
        jobs.append((prop, "lemma", l, None, timeout_ms, exclusions, None, None))

    ded = []
    bq = None
    bproc = None
    ctxm = mp.get_context("fork")
    if hasattr(spec, "bounded") and not args.no_bounded:
        bq = ctxm.Queue()
        dl = getattr(spec, "BOUNDED_DEADLINE_S", {"quick": 60, "thorough": 1500})[args.tier]
        bproc = ctxm.Process(target=_run_bounded, args=(prop, args.tier, seed, bq, dl))
        bproc.start()
    if jobs and not args.no_deductive:
        with ctxm.Pool(min(args.jobs, len(jobs))) as pool:
            ded = pool.map(_run_target, jobs, chunksize=1)
    # structural (frame / read-set) obligations decided on the AST of the working tree
    if hasattr(spec, "structural") and not args.no_deductive:
        t1 = time.time()
        try:
            obls = spec.structural()
            ded.append({"target": "structural:%s" % prop, "self_cls": None, "kind": "structural", "status": "ok", "reason": "",
                        "obligations": [dict(o, expect="unsat", backend="ast frame analysis", ms=0.0, queries=1,
                                             func="structural", witness=None, smt2=None) for o in obls],
                        "trusted": [], "inlined": [], "hash": None, "lines": None, "dropped": [], "paths": 0, "tag": None,
                        "case": None, "wall_s": round(time.time() - t1, 3)})
        except Exception as e:  # noqa
            ded.append({"target": "structural:%s" % prop, "self_cls": None, "kind": "structural", "status": "error",
                        "reason": "%r\n%s" % (e, traceback.format_exc()[-2000:]), "obligations": [], "trusted": [],
                        "inlined": [], "hash": None, "lines": None, "dropped": [], "paths": 0, "tag": None, "case": None})
    bres = None
    if bproc is not None:
        limit = getattr(spec, "BOUNDED_HARD_LIMIT_S", {"quick": 240, "thorough": 3600})[args.tier]
        try:
            bres = bq.get(timeout=limit)
        except Exception:
            bres = {"status": "timeout", "checks": [], "reason": "bounded tier exceeded %ds" % limit}
        bproc.join(5)
        if bproc.is_alive():
            bproc.terminate()

    return report(prop, spec, args, seed, ded, bres, findings, t0)


def report(prop, spec, args, seed, ded, bres, findings, t0):
    from pyvc import evidence
    # runs against another tree (CLIKIT_REPO=<scratch copy>: self-tests, seeded changes) must not overwrite the evidence
    # and replay files of /repo itself
    scratch = os.path.realpath(REPO) != "/repo"
    OUT = os.path.join(ROOT, ".cache", "scratch_runs") if scratch else ROOT
    os.makedirs(os.path.join(OUT, "evidence"), exist_ok=True)
    rdir = os.path.join(OUT, "replays", prop)
    os.makedirs(rdir, exist_ok=True)
    if not (args.no_bounded or args.no_deductive):
        # a full run owns the replay directory of its property: files of earlier runs would be stale
        for f in os.listdir(rdir):
            if f.endswith(".json"):
                try:
                    os.remove(os.path.join(rdir, f))
                except OSError:
                    pass
    violations = []  # (replay path, suffix)
    known_printed = []
    errors = []
    undecided = []
    n_obl = 0
    n_dis = 0
    per_obl = []
    open_findings = {e["id"]: e for e in findings if e.get("status") == "finding" and e.get("id")}
    ledger_path = os.path.join(ROOT, "obligations.lock.json")
    ledger = {}
    if os.path.exists(ledger_path):
        with open(ledger_path) as f:
            ledger = json.load(f)
    expected = ledger.get(prop, {})
    seen_names = set()
    ded = _merge_split(ded)
    ref_hashes = expected.get("__hashes__", {}) if isinstance(expected, dict) else {}
    for t in ded:
        if t["status"] == "error":
            tkey = t["target"] + (("@" + t["self_cls"]) if t.get("self_cls") else "")
            if ref_hashes.get(tkey) and t.get("hash") and ref_hashes[tkey] != t["hash"]:
                # the function's source differs from the reference tree and its contract can no longer be evaluated
                # on it (e.g. an invariant names a local that was renamed): undecided, not a checker error
                undecided.append({"target": t["target"], "why": "contract does not fit the changed source: " +
                                  (t["reason"] or "").splitlines()[0][:300]})
                continue
            errors.append("deductive engine crashed on %s: %s" % (t["target"], t["reason"]))
            continue
        if t["status"] in ("undecided", "missing"):
            undecided.append({"target": t["target"], "why": t["reason"] or t["status"]})
            continue
        for o in t["obligations"]:
            seen_names.add(o["name"])
            if o["expect"] == "sat":
                # vacuity guards (an unreachable exit next to a failed obligation of the same function is a
                # consequence of that failure -- e.g. every path now raises -- not a contradictory contract)
                if o["status"] == "failed" and not any(x["status"] == "failed" and x["expect"] != "sat" for x in t["obligations"]):
                    errors.append("vacuity guard failed: %s (%s)" % (o["name"], o["note"]))
                per_obl.append(o)
                continue
            n_obl += 1
            per_obl.append(o)
            if o["status"] == "proved":
                n_dis += 1
            elif o["status"] == "undecided":
                undecided.append({"obligation": o["name"], "why": o["note"]})
            elif o["status"] == "failed":
                reproduced = None
                for r in o.get("replays") or []:
                    if r.get("verdict") == "reproduced":
                        reproduced = r
                        break
                rp = os.path.join(rdir, o["name"].replace("/", "_") + ".json")
                with open(rp, "w") as f:
                    json.dump({"property": prop, "obligation": o["name"], "function": t["target"], "clause": o["text"],
                               "kind": o["kind"], "solver_note": o["note"], "witnesses": o.get("witness"),
                               "replays": o.get("replays"), "reproduced": reproduced, "smt2": o.get("smt2"),
                               "replay_cmd": "./check %s --replay %s" % (prop, os.path.relpath(rp, ROOT))}, f, indent=1,
                              default=repr)
                if o["name"] in open_findings:
                    # the region of the finding was excluded and the obligation still fails: a different violation
                    pass
                violations.append((rp, "" if reproduced else " no-failing-input-found", o["name"]))
    missing = [n for n in expected if n not in seen_names and n != "__hashes__"]
    for n in missing:
        undecided.append({"obligation": n, "why": "in the ledger but not generated on this tree (target undecided or changed)"})

    # bounded
    bchecks = []
    if bres is not None:
        if bres["status"] == "error":
            errors.append("bounded tier crashed: %s" % bres.get("reason"))
        elif bres["status"] == "timeout":
            if getattr(spec, "HANG_IS_VIOLATION", False):
                rp = os.path.join(rdir, "bounded_timeout.json")
                with open(rp, "w") as f:
                    json.dump({"property": prop, "what": bres.get("reason")}, f)
                violations.append((rp, " no-failing-input-found", "bounded-timeout"))
            else:
                errors.append(bres.get("reason"))
        bsig_known = {}
        for e in findings:
            if e.get("status") == "finding" and e.get("signature"):
                bsig_known.setdefault(e["signature"], e)
        for c in bres.get("checks", []):
            fl = c.pop("failure_list", [])
            unknown = []
            for fl1 in fl:
                k = None
                for sig, e in bsig_known.items():
                    if fl1["signature"] == sig or fl1["signature"].startswith(sig + "|"):
                        k = e
                        break
                if k is not None:
                    if k["what"] not in known_printed:
                        known_printed.append(k["what"])
                else:
                    unknown.append(fl1)
            c["unlisted_failures"] = len(unknown)
            bchecks.append(c)
            if unknown:
                rp = os.path.join(rdir, c["id"] + ".json")
                with open(rp, "w") as f:
                    json.dump({"property": prop, "check": c["id"], "bound": c["bound"], "failures": unknown,
                               "replay_cmd": "./check %s --replay %s" % (prop, os.path.relpath(rp, ROOT))}, f, indent=1, default=repr)
                violations.append((rp, "", c["id"]))

    # known findings with probes (deductive ones and any the bounded tier did not hit this run)
    for e in findings:
        if e.get("status") != "finding":
            continue
        if e["what"] in known_printed:
            continue
        still = probe_finding(e)
        if still is True:
            known_printed.append(e["what"])

    if n_obl == 0 and not bchecks and not errors:
        errors.append("no obligation and no bounded check was generated for %s" % prop)
    if getattr(spec, "TARGETS", None) and n_obl == 0 and not args.no_deductive and not undecided:
        errors.append("zero deductive obligations generated")

    wall = time.time() - t0
    ev = evidence.build(prop, spec, args.tier, seed, ded, per_obl, n_obl, n_dis, undecided, bchecks, known_printed,
                        violations, errors, wall)
    with open(os.path.join(OUT, "evidence", prop + ".json"), "w") as f:
        json.dump(ev, f, indent=1, default=repr)

    if args.relock and not violations and not errors and not scratch:
        ledger[prop] = {o["name"]: o["status"] for o in per_obl if o["expect"] != "sat"}
        ledger[prop]["__hashes__"] = {t["target"] + (("@" + t["self_cls"]) if t.get("self_cls") else ""): t.get("hash")
                                      for t in ded if t.get("kind") == "function" and t.get("hash")}
        with open(ledger_path, "w") as f:
            json.dump(ledger, f, indent=1, sort_keys=True)

    for w in known_printed:
        print("KNOWN-FINDING: property=%s %s" % (prop, w))
    print("%s tier=%s obligations=%d discharged=%d undecided=%d bounded_checks=%d bounded_evaluations=%d wall=%.1fs" % (
        prop, args.tier, n_obl, n_dis, len(undecided), len(bchecks), sum(c["evaluations"] for c in bchecks), wall))
    if args.verbose or undecided:
        for u in undecided[:20]:
            print("  undecided: %s" % json.dumps(u)[:300])
    if errors:
        for e in errors:
            print("CHECKER-ERROR property=%s %s" % (prop, str(e)[:2000]))
        return 3
    if violations:
        for rp, suffix, name in violations:
            print("VIOLATION property=%s replay=%s%s" % (prop, os.path.relpath(rp, ROOT), suffix))
            if args.verbose:
                print("   obligation/check: %s" % name)
        return 1
    return 0


def _merge_split(ded):
    """the per-case jobs of one split target become one record; an obligation is proved iff it is in every case"""
    out = []
    groups = {}
    rank = {"proved": 0, "undecided": 1, "failed": 2}
    for t in ded:
        if t.get("case") is None:
            out.append(t)
            continue
        key = (t["target"], t.get("self_cls"), t.get("tag"))
        g = groups.get(key)
        if g is None:
            g = dict(t)
            g["obligations"] = []
            g["_by"] = {}
            g["case"] = None
            groups[key] = g
            out.append(g)
        else:
            g["wall_s"] = round(g.get("wall_s", 0) + t.get("wall_s", 0), 3)
            g["paths"] = (g.get("paths") or 0) + (t.get("paths") or 0)
            g["trusted"] = sorted(set(g["trusted"]) | set(t["trusted"]))
            g["inlined"] = sorted(set(g["inlined"]) | set(t["inlined"]))
            if t["status"] != "ok" and g["status"] == "ok":
                g["status"], g["reason"] = t["status"], t["reason"]
        for o in t["obligations"]:
            cur = g["_by"].get(o["name"])
            if cur is None:
                g["_by"][o["name"]] = o
                g["obligations"].append(o)
                continue
            cur["ms"] = (cur.get("ms") or 0) + (o.get("ms") or 0)
            cur["queries"] = (cur.get("queries") or 0) + (o.get("queries") or 0)
            if o["expect"] == "sat":
                # cover obligations: reachable in at least one case
                if o["status"] == "proved":
                    cur["status"] = "proved"
                continue
            if rank.get(o["status"], 1) > rank.get(cur["status"], 1):
                keep_ms, keep_q = cur["ms"], cur["queries"]
                cur.update(o)
                cur["ms"], cur["queries"] = keep_ms, keep_q
    for g in groups.values():
        g.pop("_by", None)
    return out


def do_replay(prop, path):
    from pyvc import replay
    if not os.path.isabs(path):
        path = os.path.join(ROOT, path)
    with open(path) as f:
        d = json.load(f)
    spec = importlib.import_module("specs." + prop)
    if "witnesses" in d and d.get("function"):
        bad = False
        for w in d.get("witnesses") or []:
            if isinstance(w, dict) and "params" in w:
                r = replay.run_witness(d["function"], w)
                print(json.dumps(r, indent=1, default=repr))
                bad = bad or r.get("verdict") == "reproduced"
        return 1 if bad else 0
    if "failures" in d and hasattr(spec, "replay_bounded"):
        bad = False
        for fl in d["failures"]:
            r = spec.replay_bounded(d["check"], fl)
            print(json.dumps(r, default=repr))
            bad = bad or bool(r.get("fails"))
        return 1 if bad else 0
    print(json.dumps(d, indent=1)[:3000])
    return 0


if __name__ == "__main__":
    sys.exit(main())
