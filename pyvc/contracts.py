"""Contract registry: sidecar specifications keyed by `module:Class.func`.

Clauses are Python expression strings.  The same text is (i) translated to z3
by the symbolic executor's own expression translator and (ii) evaluated
natively when a counterexample is replayed or a bounded run-time check runs.
"""
import ast

from .kinds import parse_kind


class Shape:
    def __init__(self, name, fields, base=None, external=False, ghost=(), final=False):
        self.name = name
        self.fields = {f: parse_kind(k) for f, k in fields.items()}
        self.base = base
        self.external = external  # class is not in /repo (or abstract): methods by assumed contract
        self.ghost = set(ghost)
        self.final = final  # references of this static class are modelled as instances of exactly this (abstract) class


class Contract:
    def __init__(self, qual, params=None, returns="none", requires=(), ensures=(), raises=None,
                 modifies=(), decreases=None, assumed=False, self_kind=None, raises_modifies=None,
                 fresh_result=False, pure=False, note="", group=None, ensures_on_raise=None, opaque_calls=(),
                 for_cls=None, variant=None, cut_after_loop=None):
        self.qual = qual
        self.params = [(n, parse_kind(k)) for n, k in (params or {}).items()] if isinstance(params, dict) else [
            (n, parse_kind(k)) for n, k in (params or [])]
        self.returns = parse_kind(returns)
        self.requires = list(requires)
        self.ensures = list(ensures)
        self.raises = dict(raises or {})  # exc class name -> condition over the OLD state under which it may escape
        self.modifies = list(modifies)
        self.raises_modifies = raises_modifies  # None: same as modifies
        self.ensures_on_raise = dict(ensures_on_raise or {})  # exc -> [clauses] about the state at the raise
        self.decreases = decreases
        self.assumed = assumed  # external / trusted: never verified, listed in evidence
        self.self_kind = parse_kind(self_kind) if self_kind else None
        self.fresh_result = fresh_result
        self.pure = pure
        self.note = note
        self.group = group  # recursion group name (termination measure compared inside a group)
        self.for_cls = for_cls  # contract of an inherited method as seen on receivers of this subclass
        self.cut_after_loop = cut_after_loop  # prefix contract: `ensures` hold after the statement holding this loop
        self.variant = variant  # a named case of the contract (verified as target tag; never used at call sites)

    @property
    def module(self):
        return self.qual.partition(":")[0]

    @property
    def name(self):
        return self.qual.partition(":")[2]

    @property
    def clsname(self):
        if self.for_cls:
            return self.for_cls
        n = self.name
        return n.split(".")[0] if "." in n else None

    @property
    def funcname(self):
        return self.name.split(".")[-1]


class LoopSpec:
    def __init__(self, qual, ordinal, invariants=(), decreases=None, modifies=None, index=None, fingerprint=None,
                 unroll=None, var_kinds=None, may_diverge=False):
        self.qual = qual
        self.ordinal = ordinal
        self.invariants = list(invariants)
        self.decreases = decreases
        self.modifies = modifies  # heap locations the loop may change (None: the function's modifies)
        self.index = index  # name under which the iteration index of a for-loop is visible in invariants
        self.fingerprint = fingerprint  # substring that must occur in ast.unparse(loop header)
        self.unroll = unroll
        self.var_kinds = var_kinds or {}  # locals that change kind in the loop: name -> union kind
        self.may_diverge = may_diverge


class SpecFn:
    def __init__(self, name, params, body, returns, recursive=False, decreases=None):
        self.name = name
        self.params = [(n, parse_kind(k)) for n, k in params]
        self.body = body  # expression source
        self.returns = parse_kind(returns)
        self.recursive = recursive
        self.node = ast.parse(body.strip(), mode="eval").body
        self._native = None

    def native(self, ns):
        if self._native is None:
            src = "lambda %s: (%s)" % (", ".join(n for n, _ in self.params), self.body.strip())
            self._native = eval(src, ns)
        return self._native


class UF:
    def __init__(self, name, argkinds, reskind, native=None, raw=False):
        self.raw = raw  # use the engine's own uninterpreted function of this exact name
        self.name = name
        self.argkinds = [parse_kind(k) for k in argkinds]
        self.reskind = parse_kind(reskind)
        self.native = native


class Lemma:
    def __init__(self, name, vars, assumes, goal, note=""):
        self.name = name
        self.vars = [(n, parse_kind(k)) for n, k in vars]
        self.assumes = list(assumes)
        self.goal = goal
        self.note = note


class Registry:
    def __init__(self):
        self.shapes = {}
        self.contracts = {}
        self.loops = {}
        self.specfns = {}
        self.ufs = {}
        self.lemmas = {}
        self.axioms = []  # (name, vars, formula-src)
        self.by_method = {}  # (Class, meth) -> Contract

    def shape(self, name, base=None, external=False, ghost=(), final=False, **fields):
        sh = Shape(name, fields, base=base, external=external, ghost=ghost, final=final)
        old = self.shapes.get(name)
        if old is not None:
            # a later declaration extends an earlier one (several spec modules talk about the same class)
            merged = dict(old.fields)
            merged.update(sh.fields)
            sh.fields = merged
            sh.base = sh.base or old.base
            sh.external = sh.external or old.external
            sh.final = sh.final or old.final
            sh.ghost = set(sh.ghost) | set(old.ghost)
        self.shapes[name] = sh
        return sh

    def contract(self, qual, **kw):
        c = Contract(qual, **kw)
        if c.variant:
            self.contracts[qual + "#" + c.variant] = c
            return c
        self.contracts[qual + ("@" + c.for_cls if c.for_cls else "")] = c
        if c.clsname:
            self.by_method[(c.clsname, c.funcname)] = c
        return c

    def loop(self, qual, ordinal, **kw):
        ls = LoopSpec(qual, ordinal, **kw)
        self.loops[(qual, ordinal)] = ls
        return ls

    def spec_fn(self, name, params, body, returns, **kw):
        f = SpecFn(name, params, body, returns, **kw)
        self.specfns[name] = f
        return f

    def uf(self, name, argkinds, reskind, native=None, raw=False):
        u = UF(name, argkinds, reskind, native, raw)
        self.ufs[name] = u
        return u

    def lemma(self, name, vars, assumes, goal, note=""):
        l = Lemma(name, vars, assumes, goal, note)
        self.lemmas[name] = l
        return l

    def axiom(self, name, vars, formula, note=""):
        self.axioms.append((name, [(n, parse_kind(k)) for n, k in vars], formula, note))

    # field lookup along declared shape bases
    def field_kind(self, clsname, field, program=None):
        seen = set()
        c = clsname
        while c and c not in seen:
            seen.add(c)
            sh = self.shapes.get(c)
            if sh is not None:
                if field in sh.fields:
                    return sh.fields[field]
                if sh.base:
                    c = sh.base
                    continue
            # follow the real class hierarchy
            if program is not None:
                try:
                    ci = program.find_class(c)
                except Exception:
                    return None
                nxt = None
                for b in program.mro(ci)[1:]:
                    if b.name in self.shapes:
                        nxt = b.name
                        break
                c = nxt
            else:
                c = None
        return None

    def all_fields(self, clsname, program=None):
        out = {}
        chain = [clsname]
        if program is not None:
            try:
                chain = [c.name for c in program.mro(program.find_class(clsname))]
            except Exception:
                pass
        # explicit shape bases too
        c = clsname
        seen = set(chain)
        while c:
            sh = self.shapes.get(c)
            c = sh.base if sh else None
            if c and c not in seen:
                chain.append(c)
                seen.add(c)
        for c in reversed(chain):
            sh = self.shapes.get(c)
            if sh:
                out.update(sh.fields)
        return out

    def method_contract(self, clsname, meth, program=None, after=None):
        """Contract of `meth` as seen from class clsname (most specific along the MRO)."""
        chain = [clsname]
        if program is not None:
            try:
                chain = [c.name for c in program.mro(program.find_class(clsname))]
            except Exception:
                chain = [clsname]
                c = clsname
                while c in self.shapes and self.shapes[c].base:
                    c = self.shapes[c].base
                    chain.append(c)
        if after is not None and after in chain:
            chain = chain[chain.index(after) + 1:]
        for c in chain:
            if (c, meth) in self.by_method:
                return self.by_method[(c, meth)]
        return None


REG = Registry()
