"""evidence/<id>.json writer (schema: /root/.vp/EVIDENCE.schema.json)."""
import os

GLOBAL_TRUSTED = [
    "the VC generator pyvc itself (symbolic executor, python model) and z3 5.1 / cvc5 1.0",
    "CPython >= 3.6 semantics as encoded in DESIGN.md 3.3; Python-2 branches are ignored",
    "object shapes declared in specs/ (field kinds); integers are mathematical (exact for Python ints)",
]


def build(prop, spec, tier, seed, ded, per_obl, n_obl, n_dis, undecided, bchecks, known, violations, errors, wall):
    trusted = set(GLOBAL_TRUSTED)
    funcs = []
    inlined = set()
    solver_ms = 0.0
    for t in ded:
        for x in t.get("trusted", []):
            trusted.add(x)
        for x in t.get("inlined", []):
            inlined.add(x)
        funcs.append({
            "function": t["target"] + (("@" + t["self_cls"]) if t.get("self_cls") else ""),
            "kind": t["kind"],
            "status": t["status"],
            "source_sha256_16": t.get("hash"),
            "lines": t.get("lines"),
            "dropped_by_extraction": t.get("dropped"),
            "paths": t.get("paths"),
            "wall_s": t.get("wall_s"),
            "reason": (t.get("reason") or "")[:300],
        })
    for o in per_obl:
        solver_ms += o.get("ms") or 0
    samples = []
    for o in per_obl:
        if o["expect"] != "sat" and o["status"] == "proved" and len(samples) < 4:
            samples.append({"obligation": o["name"], "kind": o["kind"], "clause": o["text"], "path_queries": o["queries"],
                            "backend": o["backend"], "ms": round(o["ms"], 1)})
    for c in bchecks:
        for s in c.get("samples", [])[:1]:
            samples.append({"bounded_check": c["id"], "case": s})
    all_proved = n_obl > 0 and n_dis == n_obl and not any(("target" in u) for u in undecided)
    claimed = getattr(spec, "LEVEL", "other")
    level = claimed if (claimed != "proof" or all_proved) else "other"
    b_eval = sum(c["evaluations"] for c in bchecks)
    b_nontriv = sum(c["distinct_nontrivial"] for c in bchecks)
    cov = {
        "obligations": n_obl,
        "discharged": n_dis,
        "checker_cmd": "./check %s --tier %s  (pyvc: python-AST -> z3 VCs from the working tree; z3 %s, cvc5 on unknown)" % (
            prop, tier, _z3v()),
        "trusted_base": sorted(trusted),
        "explanation": getattr(spec, "EXPLANATION", ""),
        "functions_under_contract": funcs,
        "verified_with_caller_inlined": sorted(inlined),
        "per_obligation": [{"name": o["name"], "kind": o["kind"], "status": o["status"], "backend": o["backend"],
                            "ms": round(o["ms"], 1), "path_queries": o["queries"],
                            "expect": o["expect"], **({"cvc5_second_opinion": o["cross"]} if o.get("cross") else {})}
                           for o in per_obl],
        "cvc5_second_opinion": {k: sum((o.get("cross") or {}).get(k, 0) for o in per_obl) for k in ("unsat", "unknown", "sat")},
        "undecided": undecided,
        "solver_time_s": round(solver_ms / 1000.0, 3),
        "bounded": bchecks,
        "evaluations": b_eval,
        "distinct_nontrivial": b_nontriv,
        "rule": getattr(spec, "BOUNDED_RULE", "bounded run-time contract checks on the real code; see each check's `bound`"),
        "samples": samples or [{"note": "no sample available"}],
        "exhaustive": bool(bchecks) and all(c.get("exhaustive") for c in bchecks),
        "known_findings_printed": known,
        "levels": "deductive obligations are unbounded proofs; entries under `bounded` are bounded stand-ins and are "
                  "never counted in `discharged`",
    }
    if not cov["explanation"]:
        cov["explanation"] = "contract-based deductive verification of the real source (pyvc) plus bounded run-time contract checks"
    return {
        "property_id": prop,
        "tier": tier,
        "seed": seed,
        "level": level,
        "coverage": cov,
        "assumptions": sorted(trusted) + list(getattr(spec, "ASSUMPTIONS", [])),
        "wall_s": round(wall, 2),
        "violations": len(violations),
        "checker_errors": errors,
    }


def _z3v():
    try:
        import z3
        return z3.get_version_string()
    except Exception:
        return "?"
