"""Source location and extraction.

Every run re-reads the *real* source text of clikit from the working tree
(`$CLIKIT_REPO/src/clikit`, default /repo/src/clikit) with `ast.parse`.  Nothing
is copied or hand-translated.  What is dropped from a function before symbolic
execution is reported by `dropped()` and recorded in the evidence:

  * the docstring,
  * `# type:` comments (comments never reach the AST),
  * decorators `@property`, `@classmethod`, `@staticmethod`, `@contextmanager`
    (their calling convention is modelled by the executor),
  * `from __future__`, `typing` imports and `if TYPE_CHECKING:` blocks.

Python-2 compatibility names are evaluated for Python 3: `basestring = str`,
`PY2 = False`, `PY36 = True`, `OrderedDict = dict` (insertion ordered),
`to_str/decode/encode` are identities on `str` for the properties at hand.
"""
import ast
import hashlib
import os

REPO = os.environ.get("CLIKIT_REPO", "/repo")
SRC = os.path.join(REPO, "src")


class MissingTarget(Exception):
    pass


class ClassInfo:
    def __init__(self, name, module, node, bases):
        self.name = name
        self.module = module
        self.node = node
        self.bases = bases  # list of names (resolved lazily)
        self.methods = {}  # name -> FunctionDef
        self.consts = {}  # name -> ast expr
        self.decorators = {}  # method name -> set of decorator names


class ModuleInfo:
    def __init__(self, name, path, tree, text):
        self.name = name
        self.path = path
        self.tree = tree
        self.text = text
        self.classes = {}
        self.functions = {}
        self.consts = {}  # module-level NAME = <expr>
        self.imports = {}  # local name -> (module, attr or None)


class Program:
    """Lazy view on the clikit package of the current working tree."""

    def __init__(self, src=None):
        self.src = src or SRC
        self.modules = {}
        self.class_index = None

    # -- modules ---------------------------------------------------------
    def module_path(self, modname):
        rel = modname.replace(".", "/")
        for cand in (rel + ".py", rel + "/__init__.py"):
            p = os.path.join(self.src, cand)
            if os.path.isfile(p):
                return p
        return None

    def module(self, modname):
        if modname in self.modules:
            return self.modules[modname]
        path = self.module_path(modname)
        if path is None:
            raise MissingTarget("module %s not found under %s" % (modname, self.src))
        with open(path, encoding="utf-8") as f:
            text = f.read()
        tree = ast.parse(text, filename=path)
        mi = ModuleInfo(modname, path, tree, text)
        is_pkg = path.endswith("__init__.py")
        self._scan(mi, tree.body, is_pkg)
        self.modules[modname] = mi
        return mi

    def _resolve_rel(self, mi, is_pkg, node):
        if node.level == 0:
            return node.module
        parts = mi.name.split(".")
        if not is_pkg:
            parts = parts[:-1]
        if node.level > 1:
            parts = parts[: len(parts) - (node.level - 1)]
        if node.module:
            parts = parts + node.module.split(".")
        return ".".join(parts)

    def _scan(self, mi, body, is_pkg):
        for node in body:
            if isinstance(node, ast.ClassDef):
                bases = []
                for b in node.bases:
                    if isinstance(b, ast.Name):
                        bases.append(b.id)
                    elif isinstance(b, ast.Attribute):
                        bases.append(b.attr)
                ci = ClassInfo(node.name, mi.name, node, bases)
                for sub in node.body:
                    if isinstance(sub, ast.FunctionDef):
                        ci.methods[sub.name] = sub
                        decs = set()
                        for d in sub.decorator_list:
                            if isinstance(d, ast.Name):
                                decs.add(d.id)
                            elif isinstance(d, ast.Attribute):
                                decs.add(d.attr)
                        ci.decorators[sub.name] = decs
                    elif isinstance(sub, ast.Assign) and len(sub.targets) == 1 and isinstance(sub.targets[0], ast.Name):
                        ci.consts[sub.targets[0].id] = sub.value
                ci.classvars = set()
                for w in ast.walk(node):
                    tgts = []
                    if isinstance(w, ast.Assign):
                        tgts = w.targets
                    elif isinstance(w, (ast.AugAssign, ast.AnnAssign)):
                        tgts = [w.target]
                    for t in tgts:
                        if isinstance(t, ast.Attribute) and isinstance(t.value, ast.Name) and t.value.id in ("cls", node.name):
                            ci.classvars.add(t.attr)
                mi.classes[node.name] = ci
            elif isinstance(node, ast.FunctionDef):
                mi.functions[node.name] = node
            elif isinstance(node, ast.Assign) and len(node.targets) == 1 and isinstance(node.targets[0], ast.Name):
                mi.consts[node.targets[0].id] = node.value
            elif isinstance(node, ast.ImportFrom):
                if node.module in ("__future__", "typing"):
                    continue
                target = self._resolve_rel(mi, is_pkg, node)
                for a in node.names:
                    mi.imports[a.asname or a.name] = (target, a.name)
            elif isinstance(node, ast.Import):
                for a in node.names:
                    mi.imports[a.asname or a.name.split(".")[0]] = (a.name, None)
            elif isinstance(node, ast.If):
                # TYPE_CHECKING blocks are dropped; other module-level ifs scanned
                t = node.test
                if isinstance(t, ast.Name) and t.id == "TYPE_CHECKING":
                    continue
                self._scan(mi, node.body, is_pkg)
                self._scan(mi, node.orelse, is_pkg)
            elif isinstance(node, ast.Try):
                self._scan(mi, node.body, is_pkg)

    # -- lookup ----------------------------------------------------------
    def find_class(self, clsname, hint_module=None):
        """Find a class by bare name; follows re-exports."""
        if hint_module:
            mi = self.module(hint_module)
            if clsname in mi.classes:
                return mi.classes[clsname]
            if clsname in mi.imports:
                tgt, attr = mi.imports[clsname]
                if tgt and tgt.startswith("clikit"):
                    try:
                        return self.find_class(attr or clsname, tgt)
                    except MissingTarget:
                        pass
        if self.class_index is None:
            self._build_class_index()
        if clsname in self.class_index:
            return self.class_index[clsname]
        raise MissingTarget("class %s not found" % clsname)

    def _build_class_index(self):
        self.class_index = {}
        root = os.path.join(self.src, "clikit")
        for dirpath, _dirs, files in os.walk(root):
            for fn in sorted(files):
                if not fn.endswith(".py"):
                    continue
                rel = os.path.relpath(os.path.join(dirpath, fn), self.src)
                mod = rel[:-3].replace(os.sep, ".")
                if mod.endswith(".__init__"):
                    mod = mod[: -len(".__init__")]
                try:
                    mi = self.module(mod)
                except SyntaxError:
                    continue
                for cname, ci in mi.classes.items():
                    self.class_index.setdefault(cname, ci)

    def mro(self, ci):
        """Linearised single-inheritance-ish MRO (C3 is not needed for clikit)."""
        out = [ci]
        seen = {ci.name}
        work = list(ci.bases)
        while work:
            b = work.pop(0)
            if b in seen or b in ("object",):
                continue
            seen.add(b)
            try:
                bi = self.find_class(b, out[-1].module)
            except MissingTarget:
                continue
            out.append(bi)
            work = list(bi.bases) + work
        return out

    def is_subclass(self, cname, base):
        if cname == base:
            return True
        try:
            ci = self.find_class(cname)
        except MissingTarget:
            return False
        return any(c.name == base for c in self.mro(ci))

    def find_method(self, clsname, meth, after=None):
        """Return (ClassInfo, FunctionDef) of `meth` along the MRO of clsname.
        `after` = class name: start the search after that class (super())."""
        ci = self.find_class(clsname)
        chain = self.mro(ci)
        if after is not None:
            names = [c.name for c in chain]
            if after in names:
                chain = chain[names.index(after) + 1 :]
        for c in chain:
            if meth in c.methods:
                return c, c.methods[meth]
        return None, None

    def class_var(self, clsname, name):
        """the class (along the MRO) that declares `name` as a class attribute which some method re-assigns
        (cls.name = ... / Class.name = ...): a mutable class variable, not a constant"""
        ci = self.find_class(clsname)
        for c in self.mro(ci):
            if name in getattr(c, "classvars", ()):
                return c
            if name in c.consts:
                return None
        return None

    def class_const(self, clsname, name):
        ci = self.find_class(clsname)
        for c in self.mro(ci):
            if name in c.consts:
                return c, c.consts[name]
        return None, None

    def target(self, qual):
        """qual = 'pkg.module:Class.func' or 'pkg.module:func'."""
        mod, _, name = qual.partition(":")
        mi = self.module(mod)
        if "." in name:
            cname, fname = name.split(".", 1)
            if cname not in mi.classes:
                raise MissingTarget("%s: class %s missing" % (qual, cname))
            ci = mi.classes[cname]
            if fname not in ci.methods:
                raise MissingTarget("%s: method %s missing" % (qual, fname))
            return mi, ci, ci.methods[fname]
        if name not in mi.functions:
            raise MissingTarget("%s: function missing" % qual)
        return mi, None, mi.functions[name]


def func_hash(mi, node):
    seg = ast.get_source_segment(mi.text, node) or ""
    return hashlib.sha256(seg.encode("utf-8")).hexdigest()[:16]


def dropped(node):
    """What the extraction drops from this function (for the evidence)."""
    out = []
    if ast.get_docstring(node) is not None:
        out.append("docstring")
    for d in node.decorator_list:
        out.append("decorator @%s" % (getattr(d, "id", None) or getattr(d, "attr", "?")))
    return out


def body_without_docstring(node):
    body = node.body
    if body and isinstance(body[0], ast.Expr) and isinstance(getattr(body[0], "value", None), ast.Constant) and isinstance(body[0].value.value, str):
        return body[1:]
    return body
