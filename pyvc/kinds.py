"""Static kinds of symbolic values and their z3 sorts.

Kind syntax (strings in specs):
  int | bool | real | str | none | any
  ref C            object of (a subclass of) class C
  list[K]          heap list (a reference; contents live in the heap)
  dict[K,V]        heap dict, unordered view (key set + value map)
  odict[K,V]       heap dict with insertion order
  seq[K]           immutable sequence value (ghost logs, tuples of one type)
  iter[K]          heap iterator over a seq[K] snapshot
  K?               None or K
  K1|K2            union (case split on read)
  fn               opaque callable
"""
import z3


class Kind(tuple):
    __slots__ = ()

    def __new__(cls, *parts):
        return tuple.__new__(cls, parts)

    @property
    def tag(self):
        return self[0]

    def __str__(self):
        t = self[0]
        if t in ("int", "bool", "real", "str", "none", "any", "fn", "type", "module", "flags"):
            return t
        if t == "ref":
            return "ref %s" % self[1]
        if t == "exc":
            return "exc %s" % self[1]
        if t in ("list", "seq", "iter"):
            return "%s[%s]" % (t, self[1])
        if t in ("dict", "odict"):
            return "%s[%s,%s]" % (t, self[1], self[2])
        if t == "union":
            return "|".join(str(k) for k in self[1:])
        if t == "tuple":
            return "tuple[%s]" % ",".join(str(k) for k in self[1:])
        return repr(tuple(self))


INT = Kind("int")
FLAGS = Kind("flags")  # an int viewed as NBITS boolean bits plus an opaque high part (flag words)
NBITS = 14
BOOL = Kind("bool")
REAL = Kind("real")
STR = Kind("str")
NONE = Kind("none")
ANY = Kind("any")
FN = Kind("fn")


def ref(c):
    return Kind("ref", c)


def union(*ks):
    flat = []
    for k in ks:
        if k.tag == "union":
            for x in k[1:]:
                if x not in flat:
                    flat.append(x)
        elif k not in flat:
            flat.append(k)
    if len(flat) == 1:
        return flat[0]
    return Kind("union", *flat)


def opt(k):
    return union(NONE, k)


class KindError(Exception):
    pass


def parse_kind(s):
    if isinstance(s, Kind):
        return s
    p = _P(s)
    k = p.union()
    p.ws()
    if p.i != len(p.s):
        raise KindError("trailing text in kind %r" % s)
    return k


class _P:
    def __init__(self, s):
        self.s = s
        self.i = 0

    def ws(self):
        while self.i < len(self.s) and self.s[self.i] == " ":
            self.i += 1

    def ident(self):
        self.ws()
        j = self.i
        while j < len(self.s) and (self.s[j].isalnum() or self.s[j] == "_"):
            j += 1
        w = self.s[self.i : j]
        self.i = j
        return w

    def peek(self):
        self.ws()
        return self.s[self.i] if self.i < len(self.s) else ""

    def expect(self, c):
        self.ws()
        if self.peek() != c:
            raise KindError("expected %r at %d in %r" % (c, self.i, self.s))
        self.i += 1

    def union(self):
        ks = [self.postfix()]
        while self.peek() == "|":
            self.i += 1
            ks.append(self.postfix())
        return union(*ks)

    def postfix(self):
        k = self.atom()
        while self.peek() == "?":
            self.i += 1
            k = opt(k)
        return k

    def atom(self):
        w = self.ident()
        if w in ("int", "bool", "real", "str", "none", "any", "fn"):
            if w == "any":
                return ANY
            return Kind(w)
        if w == "float":
            return REAL
        if w == "flags":
            return Kind("flags")
        if w == "ref":
            return ref(self.ident())
        if w == "exc":
            return Kind("exc", self.ident())
        if w in ("list", "seq", "iter"):
            self.expect("[")
            k = self.union()
            self.expect("]")
            return Kind(w, k)
        if w in ("dict", "odict", "udict"):
            self.expect("[")
            k = self.union()
            self.expect(",")
            v = self.union()
            self.expect("]")
            return Kind("dict" if w == "udict" else w, k, v)
        if w == "tuple":
            self.expect("[")
            ks = [self.union()]
            while self.peek() == ",":
                self.i += 1
                ks.append(self.union())
            self.expect("]")
            return Kind("tuple", *ks)
        raise KindError("unknown kind word %r in %r" % (w, self.s))


# what 'any' splits into (the value kinds that occur on the paths of the properties)
ANY_ALTS = (NONE, BOOL, INT, REAL, STR, Kind("list", STR), ref("object"))


def alts(k):
    """Alternatives of a kind for case splitting."""
    if k.tag == "union":
        out = []
        for x in k[1:]:
            out.extend(alts(x))
        return out
    if k.tag == "any":
        return list(ANY_ALTS)
    return [k]


def sort_of(k):
    t = k.tag
    if t in ("int", "ref", "list", "dict", "odict", "iter", "exc", "fn", "flags"):
        return z3.IntSort()
    if t == "bool":
        return z3.BoolSort()
    if t == "real":
        return z3.RealSort()
    if t == "str":
        return z3.StringSort()
    if t == "seq":
        return z3.SeqSort(sort_of(k[1]))
    if t == "none":
        return z3.BoolSort()  # dummy carrier
    raise KindError("no sort for kind %s" % (k,))


def is_refkind(k):
    return k.tag in ("ref", "list", "dict", "odict", "iter", "exc", "fn")
