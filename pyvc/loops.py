"""Loops: inductive invariants from the sidecar, complete unrolling for constant bounds."""
import ast

import z3

from .kinds import Kind, parse_kind, alts, sort_of, is_refkind, INT, BOOL, STR
from .state import V, Out, VNONE, vint, vbool, fresh_name, fresh_term, Unsupported, SpecError
from .symex import _const_int


def assigned_names(stmts):
    out = set()

    class W(ast.NodeVisitor):
        def visit_Name(self, n):
            if isinstance(n.ctx, (ast.Store, ast.Del)):
                out.add(n.id)

        def visit_FunctionDef(self, n):
            out.add(n.name)

        def visit_Lambda(self, n):
            pass

        def visit_ExceptHandler(self, n):
            if n.name:
                out.add(n.name)
            self.generic_visit(n)
    for s in stmts:
        W().visit(s)
    return out


def _havoc_locals(E, st, names, ls):
    """fresh values for the locals the loop assigns; union kinds from the sidecar fork"""
    states = [st.copy()]
    kinds = getattr(ls, "var_kinds", None) or {}
    for n in sorted(names):
        if n in kinds:
            ks = alts(parse_kind(kinds[n]))
        elif n in st.env:
            k = st.env[n].kind
            if k.tag in ("tuple", "fn", "type", "module"):
                continue
            ks = [k]
        else:
            continue
        nxt = []
        for s in states:
            for k in ks:
                s2 = s.copy()
                v = E.fresh(k, "lv_" + n)
                s2.env[n] = v
                s2 = E.assume_valid_ref(s2, v) if k.tag != "tuple" else s2
                nxt.append(s2)
        states = nxt
    return states


def _inv_env(E, st, extra=None):
    env = dict(E.frame.params)
    env.update(st.env)
    if extra:
        env.update(extra)
    return env


def _check_inv(E, ls, st, ordinal, phase, extra_env=None):
    fr = E.frames[0]
    fname = getattr(fr, "display", None) or fr.qual.partition(":")[2]
    for i, inv in enumerate(ls.invariants):
        g = E.spec_bool(inv, st, _inv_env(E, st, extra_env), E.frame.old, E.frame)
        ob = E.obl("%s.%s.inv%d.%s.%d" % (E.prop, fname, ordinal, phase, i), "inv." + phase, text=inv)
        ob.add(st.pc, g)


def _assume_inv(E, ls, st, extra_env=None):
    for inv in ls.invariants:
        st = st.assume(E.spec_bool(inv, st, _inv_env(E, st, extra_env), E.frame.old, E.frame))
    return st


def _measure(E, ls, st, extra_env=None):
    if not ls.decreases:
        return None
    return E.spec_value(ls.decreases, st, _inv_env(E, st, extra_env), E.frame.old).t


def _loop_mods(E, ls):
    if ls.modifies is not None:
        return ls.modifies
    c = E.frames[0].contract
    return c.modifies if c is not None else []


def exec_while(E, node, st):
    ordinal, ls = E._loop_spec(node)
    if ls is None:
        raise Unsupported("while loop %d of %s has no invariant in the sidecar" % (ordinal, E.frame.qual))
    if node.orelse:
        raise Unsupported("while-else")
    fr0 = E.frames[0]
    fname = getattr(fr0, "display", None) or fr0.qual.partition(":")[2]
    # 1. invariant holds on entry
    _check_inv(E, ls, st, ordinal, "init")
    # 2. arbitrary iteration
    names = assigned_names(node.body)
    heads = _havoc_locals(E, E.havoc(st, _loop_mods(E, ls), _inv_env(E, st), E.frame.old), names, ls)
    res = []
    for h in heads:
        h = h.copy()
        a = z3.Int(fresh_name("alloc"))
        h.pc = h.pc + (a >= h.alloc,)
        h.alloc = a
        h = _assume_inv(E, ls, h)
        if not E.feasible(h):
            continue
        m0 = _measure(E, ls, h)
        for to in E.eval(node.test, h):
            if to.tag != "ok":
                res.append(to)
                continue
            for s1, c in E.truthy_outs(to.st, to.val):
                enter, leave = E.fork(s1, c)
                if leave is not None:
                    res.append(Out("ok", leave))
                if enter is None:
                    continue
                for bo in E.exec_block(node.body, enter):
                    if bo.tag in ("ok", "continue"):
                        _check_inv(E, ls, bo.st, ordinal, "pres")
                        if m0 is not None:
                            m1 = _measure(E, ls, bo.st)
                            ob = E.obl("%s.%s.term.loop%d" % (E.prop, fname, ordinal), "term", text=ls.decreases)
                            ob.add(bo.st.pc, z3.And(m0 >= 0, m1 < m0))
                    elif bo.tag == "break":
                        res.append(Out("ok", bo.st))
                    else:
                        res.append(bo)
    if ls.decreases is None and not getattr(ls, "may_diverge", False):
        E.trusted.add("termination of while loop %d of %s is not proved (no decreases clause)" % (ordinal, E.frame.qual))
    return res


def _iter_source(E, st, itv):
    """-> (state, kind of element, accessor(idx)->V, length term) for a for-loop iterable"""
    t = itv.kind.tag
    if t == "list":
        seq = E.list_seq(st, itv)
        ek = itv.kind[1]
        return st, lambda i: E.elem(ek, seq[i]), z3.Length(seq)
    if t == "seq":
        ek = itv.kind[1]
        return st, lambda i: E.elem(ek, itv.t[i]), z3.Length(itv.t)
    if t == "str":
        return st, lambda i: V(STR, z3.SubString(itv.t, i, 1)), z3.Length(itv.t)
    if t == "fn":
        d = itv.t
        if d[0] == "range":
            lo, hi = d[1], d[2]
            return st, lambda i: V(INT, lo + i), z3.If(hi - lo > 0, hi - lo, z3.IntVal(0))
        if d[0] == "enumerate":
            s2, acc, n = _iter_source(E, st, d[1])
            return s2, lambda i: V(Kind("tuple"), (V(INT, i), acc(i))), n
        if d[0] == "reversed":
            s2, acc, n = _iter_source(E, st, d[1])
            return s2, lambda i: acc(n - 1 - i), n
        if d[0] == "dictview":
            from .pymodel import dictview_seq
            if d[2] == "items":
                s2, keys = dictview_seq(E, st, V(itv.kind, ("dictview", d[1], "keys")))
                dv = d[1]
                ks = alts(dv.kind[2])
                if len(ks) != 1:
                    raise Unsupported("items() of a dict with union values")
                K = sort_of(dv.kind[1])
                vals = z3.Select(E.arr(s2, E.dvals_key(dv, ks[0]), z3.IntSort(), z3.ArraySort(K, sort_of(ks[0]))), dv.t)
                return s2, lambda i: V(Kind("tuple"), (E.elem(dv.kind[1], keys.t[i]), E.elem(ks[0], z3.Select(vals, keys.t[i])))), z3.Length(keys.t)
            s2, sv = dictview_seq(E, st, itv)
            ek = sv.kind[1]
            return s2, lambda i: E.elem(ek, sv.t[i]), z3.Length(sv.t)
    if t in ("dict", "odict"):
        from .pymodel import dictview_seq
        s2, sv = dictview_seq(E, st, V(Kind("fn"), ("dictview", itv, "keys")))
        ek = sv.kind[1]
        return s2, lambda i: E.elem(ek, sv.t[i]), z3.Length(sv.t)
    if t == "tuple":
        return st, None, len(itv.t)
    if t == "ref":
        return None
    if t == "none":
        return None
    raise Unsupported("for loop over %s" % (itv.kind,))


def exec_for(E, node, st):
    ordinal, ls = E._loop_spec(node)
    if node.orelse:
        raise Unsupported("for-else")

    def k(s, itv):
        if itv.kind.tag == "none":
            return [E.raise_(s, "TypeError", "'NoneType' object is not iterable")]
        if itv.kind.tag == "ref":
            outs = E.call_method(s, itv, "__iter__", [], {})
            return E.bind(outs, lambda s2, v: k(s2, v))
        if itv.kind.tag == "iter":
            from .pymodel import iter_seq, iter_pos
            seq = iter_seq(E, s, itv)
            pos = iter_pos(E, s, itv)
            ek = itv.kind[1]
            itv2 = V(Kind("seq", ek), z3.SubSeq(seq, pos, z3.Length(seq) - pos))
            return k(s, itv2)
        src = _iter_source(E, s, itv)
        s, acc, n = src
        # complete unrolling for tuples / constant-length sources
        cn = n if isinstance(n, int) else _const_int(n)
        if cn is None and ls is None and itv.kind.tag != "tuple":
            # a length the path condition pins down (e.g. a precondition len(xs) == 2): complete unrolling
            for kk in range(0, 5):
                if not E.feasible(s, n != kk):
                    cn = kk
                    break
        if itv.kind.tag == "tuple":
            return _unroll(E, node, s, [x for x in itv.t])
        if cn is not None and cn <= 8 and ls is None:
            return _unroll(E, node, s, [acc(z3.IntVal(i)) for i in range(cn)])
        if ls is None:
            raise Unsupported("for loop %d of %s has no invariant in the sidecar" % (ordinal, E.frame.qual))
        return _for_inv(E, node, s, acc, n, ordinal, ls)
    return E.bind(E.eval(node.iter, st), k)


def _unroll(E, node, st, items):
    outs = [Out("ok", st)]
    done = []
    for x in items:
        nxt = []
        for o in outs:
            for ao in E.assign(E.assume_valid_ref(o.st, x) if x.kind.tag != "tuple" else o.st, node.target, x):
                if ao.tag != "ok":
                    done.append(ao)
                    continue
                for bo in E.exec_block(node.body, ao.st):
                    if bo.tag in ("ok", "continue"):
                        nxt.append(Out("ok", bo.st))
                    elif bo.tag == "break":
                        done.append(Out("ok", bo.st))
                    else:
                        done.append(bo)
        outs = nxt
    return done + outs


def _for_inv(E, node, st, acc, n, ordinal, ls):
    idx_name = ls.index or "_i"
    fr0 = E.frames[0]
    # entry: invariant with index 0
    _check_inv(E, ls, st, ordinal, "init", {idx_name: vint(0)})
    names = assigned_names(node.body) | assigned_names([ast.Assign(targets=[node.target], value=ast.Constant(value=0))])
    res = []
    hv = E.havoc(st, _loop_mods(E, ls), _inv_env(E, st), E.frame.old)
    heads = _havoc_locals(E, hv, names, ls)
    for h in heads:
        h = h.copy()
        a = z3.Int(fresh_name("alloc"))
        h.pc = h.pc + (a >= h.alloc,)
        h.alloc = a
        i = z3.Int(fresh_name("idx"))
        # the sequence being iterated is a snapshot taken at loop entry (mutation of it inside the
        # loop is outside the subset)
        hi = h.assume(z3.And(i >= 0, i <= n))
        hi = _assume_inv(E, ls, hi, {idx_name: V(INT, i)})
        if not E.feasible(hi):
            continue
        # exit by exhaustion
        ex = hi.assume(i == n)
        if E.feasible(ex):
            ex = ex.copy()
            ex.env[idx_name + "$final"] = V(INT, i)
            res.append(Out("ok", ex))
        # one more iteration
        it = hi.assume(i < n)
        if not E.feasible(it):
            continue
        x = acc(i)
        if x.kind.tag != "tuple":
            it = E.assume_valid_ref(it, x)
        for ao in E.assign(it, node.target, x):
            if ao.tag != "ok":
                res.append(ao)
                continue
            for bo in E.exec_block(node.body, ao.st):
                if bo.tag in ("ok", "continue"):
                    _check_inv(E, ls, bo.st, ordinal, "pres", {idx_name: V(INT, i + 1)})
                elif bo.tag == "break":
                    res.append(Out("ok", bo.st))
                else:
                    res.append(bo)
    return res
