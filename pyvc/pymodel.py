"""Semantics of builtins, str/list/dict methods and the few external functions
on the paths of the properties, each with its CPython failure condition."""
import ast
import re as _re

import z3

from .kinds import Kind, alts, sort_of, is_refkind, INT, BOOL, REAL, STR, NONE, FN
from .state import V, Out, VNONE, vint, vbool, vstr, fresh_name, fresh_term, Unsupported, SpecError
from .symex import _const_int, _const_str


def ok(st, v):
    return [Out("ok", st, v)]


ASCII_SPACE = " \t\n\r\x0b\x0c\x1c\x1d\x1e\x1f"


def char_in(c, chars):
    return z3.Or([c == z3.StringVal(ch) for ch in chars])


def is_space_char(E, c):
    """str.isspace() on a 1-character string: exact on ASCII, uninterpreted (but fixed) elsewhere"""
    f = E.uf_decl("isspace_nonascii", z3.StringSort(), z3.BoolSort())
    code = z3.StrToCode(c)
    return z3.If(code < 128, char_in(c, ASCII_SPACE), z3.And(code >= 128, f(c)))


ASCII_LETTER = z3.Union(z3.Range("a", "z"), z3.Range("A", "Z"))
ASCII_ANY = z3.Range("\x00", "\x7f")


def is_alpha_char(E, c):
    """str.isalpha() on a 1-character string: exact on ASCII, uninterpreted (but fixed) elsewhere"""
    f = E.uf_decl("isalpha_nonascii", z3.StringSort(), z3.BoolSort())
    return z3.Or(z3.InRe(c, ASCII_LETTER), z3.And(z3.Not(z3.InRe(c, ASCII_ANY)), z3.Length(c) == 1, f(c)))


def call_builtin(E, st, name, args, kwargs, node=None):
    if name == "_identity_str":
        return ok(st, args[0])
    if name == "len":
        a = args[0]
        t = a.kind.tag
        if t == "str":
            return ok(st, V(INT, z3.Length(a.t)))
        if t == "list":
            return ok(st, V(INT, z3.Length(E.list_seq(st, a))))
        if t == "seq":
            return ok(st, V(INT, z3.Length(a.t)))
        if t == "tuple":
            return ok(st, vint(len(a.t)))
        if t in ("dict", "odict"):
            f = E.uf_decl("dict_size_%s" % sort_of(a.kind[1]), z3.ArraySort(sort_of(a.kind[1]), z3.BoolSort()), z3.IntSort())
            keys = E.dkeys(st, a)
            n = f(keys)
            K = sort_of(a.kind[1])
            ax = z3.And(n >= 0, (n == 0) == (keys == z3.K(K, z3.BoolVal(False))))
            if t == "odict":
                ax = z3.And(ax, n == z3.Length(E.dord(st, a)))
            return ok(st.assume(ax), V(INT, n))
        if t == "ref":
            return E.call_method(st, a, "__len__", [], {})
        if t in ("none", "int", "bool", "real"):
            return [E.raise_(st, "TypeError", "object of type %s has no len()" % t)]
        raise Unsupported("len of %s" % (a.kind,))
    if name == "isinstance":
        return ok(st, vbool(_isinstance(E, args[0], args[1])))
    if name == "issubclass":
        # on a class object the engine knows nothing about (the exc_type handed to __exit__): either answer is possible
        if args and args[0].kind.tag in ("ref", "any", "fn"):
            E.trusted.add("issubclass(<opaque class object>, C) is an arbitrary boolean")
            return ok(st, vbool(z3.Bool(fresh_name("issubclass"))))
        raise Unsupported("issubclass of %s" % (args[0].kind if args else "nothing",))
    if name == "bool":
        if not args:
            return ok(st, vbool(False))
        return [Out("ok", s1, vbool(c)) for s1, c in E.truthy_outs(st, args[0])]
    if name == "int":
        return _int(E, st, args)
    if name == "float":
        return _float(E, st, args)
    if name == "str":
        return _str(E, st, args)
    if name in ("min", "max"):
        if len(args) == 1:
            raise Unsupported("%s of an iterable" % name)
        cur = args[0]
        for b in args[1:]:
            if cur.kind.tag == "real" or b.kind.tag == "real":
                x, y = E.to_real(cur).t, E.to_real(b).t
                k = REAL
            elif cur.kind.tag in ("int", "bool") and b.kind.tag in ("int", "bool"):
                x, y = E.to_int(cur).t, E.to_int(b).t
                k = INT
            else:
                if "none" in (cur.kind.tag, b.kind.tag):
                    return [E.raise_(st, "TypeError", "%s with None" % name)]
                raise Unsupported("%s of %s,%s" % (name, cur.kind, b.kind))
            # Python returns the first on ties; values equal anyway
            cur = V(k, z3.If(y < x, y, x) if name == "min" else z3.If(y > x, y, x))
        return ok(st, cur)
    if name == "abs":
        a = args[0]
        if a.kind.tag in ("int", "bool"):
            x = E.to_int(a).t
            return ok(st, V(INT, z3.If(x < 0, -x, x)))
        if a.kind.tag == "real":
            return ok(st, V(REAL, z3.If(a.t < 0, -a.t, a.t)))
        return [E.raise_(st, "TypeError", "abs")]
    if name == "round":
        a = args[0]
        if len(args) > 1:
            raise Unsupported("round with ndigits")
        if a.kind.tag in ("int", "bool"):
            return ok(st, E.to_int(a))
        if a.kind.tag == "real":
            return ok(st, V(INT, round_half_even(a.t)))
        return [E.raise_(st, "TypeError", "round")]
    if name == "list":
        if not args:
            k = getattr(node, "_pyvc_kind", None) or STR
            s2, lv = E.new_list(st, k, z3.Empty(z3.SeqSort(sort_of(k))))
            return ok(s2, lv)
        a = args[0]
        if a.kind.tag == "list":
            s2, lv = E.new_list(st, a.kind[1], E.list_seq(st, a))
            return ok(s2, lv)
        if a.kind.tag == "seq":
            s2, lv = E.new_list(st, a.kind[1], a.t)
            return ok(s2, lv)
        if a.kind.tag == "fn" and a.t[0] in ("dictview",):
            seqv = dictview_seq(E, st, a)
            s2, lv = E.new_list(seqv[0], seqv[1].kind[1], seqv[1].t)
            return ok(s2, lv)
        if a.kind.tag == "fn" and a.t[0] == "takewhile_ne":
            src, stop = a.t[1], a.t[2]
            seq = E.list_seq(st, src) if src.kind.tag == "list" else src.t
            s2, v = takewhile_ne(E, st, seq, stop, src.kind[1], a.t[3])
            s3, lv = E.new_list(s2, src.kind[1], v)
            return ok(s3, lv)
        if a.kind.tag == "fn" and a.t[0] == "reversed":
            raise Unsupported("list(reversed())")
        raise Unsupported("list() of %s" % (a.kind,))
    if name == "tuple" or name == "set":
        raise Unsupported(name + "()")
    if name == "range":
        if len(args) == 1:
            lo, hi = z3.IntVal(0), E.to_int(args[0]).t
        elif len(args) == 2:
            lo, hi = E.to_int(args[0]).t, E.to_int(args[1]).t
        else:
            raise Unsupported("range with step")
        return ok(st, V(FN, ("range", lo, hi)))
    if name == "enumerate":
        if len(args) != 1:
            raise Unsupported("enumerate with start")
        return ok(st, V(FN, ("enumerate", args[0])))
    if name == "reversed":
        return ok(st, V(FN, ("reversed", args[0])))
    if name == "iter":
        a = args[0]
        if a.kind.tag == "iter":
            return ok(st, a)
        if a.kind.tag == "list":
            seq = E.list_seq(st, a)
            ek = a.kind[1]
        elif a.kind.tag == "seq":
            seq = a.t
            ek = a.kind[1]
        elif a.kind.tag == "fn" and a.t[0] == "dictview":
            s2, sv = dictview_seq(E, st, a)
            st = s2
            seq = sv.t
            ek = sv.kind[1]
        else:
            raise Unsupported("iter of %s" % (a.kind,))
        return new_iter(E, st, ek, seq, live=a if a.kind.tag == "list" else None)
    if name == "next":
        return _next(E, st, args)
    if name == "hasattr":
        a, n = args
        cn = _const_str(n.t) if n.kind.tag == "str" else None
        if cn is None:
            raise Unsupported("hasattr with symbolic name")
        return ok(st, vbool(_hasattr(E, a, cn)))
    if name == "getattr":
        a, n = args[0], args[1]
        cn = _const_str(n.t) if n.kind.tag == "str" else None
        if cn is None:
            if len(args) == 2 and a.kind.tag == "ref":
                # getattr(obj, <run-time name>): some attribute of an object the library knows nothing about -- an
                # opaque callable (what calling it does is the business of the spec's opaque hook)
                E.trusted.add("getattr(obj, name) with a run-time name is taken to find the attribute (no AttributeError)")
                return ok(st, V(Kind("fn"), ("opaque", ("getattr", a, n))))
            raise Unsupported("getattr with symbolic name")
        return E.getattr_(st, a, cn)
    if name == "type":
        a = args[0]
        return ok(st, V(Kind("type"), _typename(a)))
    if name == "callable":
        return ok(st, vbool(args[0].kind.tag in ("fn", "type")))
    if name == "sum":
        raise Unsupported("sum()")
    if name == "repr":
        raise Unsupported("repr()")
    if name == "sorted":
        raise Unsupported("sorted()")
    raise Unsupported("builtin %s" % name)


def round_half_even(x):
    fl = z3.ToInt(x)
    frac = x - z3.ToReal(fl)
    half = z3.RealVal("1/2")
    return z3.If(frac < half, fl, z3.If(frac > half, fl + 1, z3.If(fl % 2 == 0, fl, fl + 1)))


def _typename(a):
    t = a.kind.tag
    if t in ("ref", "exc"):
        return a.kind[1]
    return {"int": "int", "bool": "bool", "real": "float", "str": "str", "none": "NoneType", "list": "list",
            "dict": "dict", "odict": "dict", "tuple": "tuple", "fn": "function", "seq": "tuple"}.get(t, t)


def _isinstance(E, a, cls):
    if cls.kind.tag == "tuple":
        rs = [_isinstance(E, a, c) for c in cls.t]
        if any(r is True for r in rs):
            return True
        sym = [r for r in rs if not isinstance(r, bool)]
        if sym:
            return z3.Or(sym)
        return False
    if cls.kind.tag != "type":
        raise Unsupported("isinstance with %s" % (cls.kind,))
    c = cls.t
    t = a.kind.tag
    if c == "object":
        return True
    if t == "bool":
        return c in ("bool", "int")
    if t == "int":
        return c == "int"
    if t == "real":
        return c == "float"
    if t == "str":
        return c in ("str", "basestring")
    if t == "none":
        return False
    if t == "list":
        return c == "list"
    if t in ("dict", "odict"):
        return c in ("dict", "OrderedDict")
    if t == "tuple":
        return c == "tuple"
    if t == "ref":
        if c in ("int", "str", "bool", "float", "list", "dict", "tuple"):
            return False
        if a.kind[1] == "object":
            return False  # an arbitrary foreign object
        return E.P.is_subclass(a.kind[1], c) or E._shape_sub(a.kind[1], c)
    if t == "exc":
        if E.exc_is(a.kind[1], c):
            return True
        if a.aux and a.aux.get("abstract") and E.exc_is(c, a.kind[1]):
            # an abstract exception value: membership in a strict subclass is not determined
            key = "isinst_%s" % c
            if key not in a.aux:
                a.aux[key] = z3.Bool(fresh_name(key))
            return a.aux[key]
        return False
    if t == "fn":
        return False
    raise Unsupported("isinstance of %s" % (a.kind,))


def _hasattr(E, a, name):
    if a.kind.tag == "ref":
        if E.R.field_kind(a.kind[1], name, E.P) is not None:
            return True
        try:
            ci, fn = E.P.find_method(a.kind[1], name)
        except Exception:
            fn = None
        return fn is not None
    if a.kind.tag == "exc":
        if a.aux and name in a.aux:
            return True
        # exceptions of clikit do not define 'code'; SystemExit does
        if name == "code":
            return a.kind[1] == "SystemExit"
        raise Unsupported("hasattr on exception")
    raise Unsupported("hasattr on %s" % (a.kind,))


def int_literal_pred(E):
    return E.uf_decl("is_int_literal", z3.StringSort(), z3.BoolSort())


def float_literal_pred(E):
    return E.uf_decl("is_float_literal", z3.StringSort(), z3.BoolSort())


DIGITS = z3.Plus(z3.Range("0", "9"))


def _int(E, st, args):
    if not args:
        return ok(st, vint(0))
    a = args[0]
    t = a.kind.tag
    if t in ("int", "bool"):
        return ok(st, E.to_int(a))
    if t == "real":
        # truncation toward zero
        fl = z3.ToInt(a.t)
        return ok(st, V(INT, z3.If(z3.Or(a.t >= 0, z3.ToReal(fl) == a.t), fl, fl + 1)))
    if t == "str":
        p = int_literal_pred(E)
        val = E.uf_decl("int_of_str", z3.StringSort(), z3.IntSort())
        # exact on plain digit strings (the rest of Python's literal grammar -- sign, blanks, underscores,
        # non-ASCII digits -- stays behind the uninterpreted predicate)
        plain = z3.InRe(a.t, DIGITS)
        ax = z3.And(z3.Implies(plain, z3.And(p(a.t), val(a.t) == z3.StrToInt(a.t))),
                    z3.Implies(z3.Length(a.t) == 0, z3.Not(p(a.t))))
        s = st.assume(ax)
        good, bad = E.fork(s, p(a.t))
        res = []
        if good is not None:
            res.append(Out("ok", good, V(INT, val(a.t))))
        if bad is not None:
            res.append(E.raise_(bad, "ValueError", "invalid literal for int()"))
        return res
    if t in ("none", "list", "dict", "odict", "tuple", "fn"):
        return [E.raise_(st, "TypeError", "int() argument must be a string or a number, not %s" % t)]
    if t == "ref":
        return [E.raise_(st, "TypeError", "int() argument is an arbitrary object")]
    raise Unsupported("int of %s" % (a.kind,))


def _float(E, st, args):
    if not args:
        return ok(st, V(REAL, z3.RealVal(0)))
    a = args[0]
    t = a.kind.tag
    if t in ("int", "bool", "real"):
        return ok(st, E.to_real(a))
    if t == "str":
        p = float_literal_pred(E)
        val = E.uf_decl("float_of_str", z3.StringSort(), z3.RealSort())
        plain = z3.InRe(a.t, DIGITS)
        ax = z3.And(z3.Implies(plain, z3.And(p(a.t), val(a.t) == z3.ToReal(z3.StrToInt(a.t)))),
                    z3.Implies(z3.Length(a.t) == 0, z3.Not(p(a.t))))
        s = st.assume(ax)
        good, bad = E.fork(s, p(a.t))
        res = []
        if good is not None:
            res.append(Out("ok", good, V(REAL, val(a.t))))
        if bad is not None:
            res.append(E.raise_(bad, "ValueError", "could not convert string to float"))
        return res
    if t in ("none", "list", "dict", "odict", "tuple", "fn", "ref"):
        return [E.raise_(st, "TypeError", "float() argument must be a string or a number")]
    raise Unsupported("float of %s" % (a.kind,))


def _str(E, st, args):
    if not args:
        return ok(st, vstr(""))
    a = args[0]
    t = a.kind.tag
    if t == "str":
        return ok(st, a)
    if t == "int":
        f = E.uf_decl("str_of_int", z3.IntSort(), z3.StringSort())
        r = f(a.t)
        iv = E.uf_decl("int_of_str", z3.StringSort(), z3.IntSort())
        p = int_literal_pred(E)
        ax = z3.And(z3.Implies(a.t >= 0, r == z3.IntToStr(a.t)),
                    z3.Implies(a.t < 0, r == z3.Concat(z3.StringVal("-"), z3.IntToStr(-a.t))),
                    z3.Length(r) >= 1, p(r), iv(r) == a.t)
        return ok(st.assume(ax), V(STR, r))
    if t == "bool":
        return ok(st, V(STR, z3.If(a.t, z3.StringVal("True"), z3.StringVal("False"))))
    if t == "none":
        return ok(st, vstr("None"))
    if t == "real":
        f = E.uf_decl("str_of_float", z3.RealSort(), z3.StringSort())
        r = f(a.t)
        return ok(st.assume(z3.Length(r) >= 1), V(STR, r))
    if t in ("list", "ref", "exc", "dict", "odict", "tuple", "fn", "type"):
        f = E.uf_decl("str_of_obj", z3.IntSort(), z3.StringSort())
        if t in ("tuple", "type"):
            r = z3.Const(fresh_name("str_of"), z3.StringSort())
        else:
            r = f(a.t)
        if t == "exc" and a.aux and a.aux.get("args") and len(a.aux["args"]) == 1 and a.aux["args"][0].kind.tag == "str":
            return ok(st, a.aux["args"][0])
        return ok(st, V(STR, r))
    raise Unsupported("str of %s" % (a.kind,))


# iterators ------------------------------------------------------------------
def new_iter(E, st, ek, seq, live=None):
    s2, r = E.new_ref(st)
    it = V(Kind("iter", ek), r)
    s2 = s2.copy()
    sk = "IS|%s" % (ek,)
    S = z3.SeqSort(sort_of(ek))
    s2.heap[sk] = z3.Store(E.arr(s2, sk, z3.IntSort(), S), r, seq)
    s2.heap["II"] = z3.Store(E.arr(s2, "II", z3.IntSort(), z3.IntSort()), r, z3.IntVal(0))
    return ok(s2, it)


def iter_seq(E, st, it):
    ek = it.kind[1]
    return z3.Select(E.arr(st, "IS|%s" % (ek,), z3.IntSort(), z3.SeqSort(sort_of(ek))), it.t)


def iter_pos(E, st, it):
    return z3.Select(E.arr(st, "II", z3.IntSort(), z3.IntSort()), it.t)


def _next(E, st, args):
    it = args[0]
    if it.kind.tag != "iter":
        if it.kind.tag == "none":
            return [E.raise_(st, "TypeError", "next(None)")]
        raise Unsupported("next of %s" % (it.kind,))
    seq = iter_seq(E, st, it)
    pos = iter_pos(E, st, it)
    has, done = E.fork(st, pos < z3.Length(seq))
    res = []
    if has is not None:
        s = has.copy()
        s.heap["II"] = z3.Store(E.arr(s, "II", z3.IntSort(), z3.IntSort()), it.t, pos + 1)
        v = E.elem(it.kind[1], seq[pos])
        res.append(Out("ok", E.assume_valid_ref(s, v), v))
    if done is not None:
        if len(args) > 1:
            res.append(Out("ok", done, args[1]))
        else:
            res.append(E.raise_(done, "StopIteration"))
    return res


def takewhile_ne(E, st, seq, stop, ek, eq=False):
    """list(itertools.takewhile(lambda a: a != stop, seq)) (or `== stop`) -- assumed contract of takewhile:
    the longest prefix all of whose elements satisfy the predicate."""
    E.trusted.add("assumed contract: itertools.takewhile (longest prefix satisfying the predicate)")
    S = z3.SeqSort(sort_of(ek))
    r = z3.Const(fresh_name("takewhile"), S)
    n = z3.Length(r)
    if eq:
        i = z3.Int(fresh_name("i"))
        E.uses_quantifiers = True
        ax = z3.And(z3.PrefixOf(r, seq), z3.ForAll([i], z3.Implies(z3.And(i >= 0, i < n), r[i] == stop.t)),
                    z3.Or(n == z3.Length(seq), seq[n] != stop.t))
    else:
        ax = z3.And(z3.PrefixOf(r, seq), z3.Not(z3.Contains(r, z3.Unit(stop.t))),
                    z3.Or(n == z3.Length(seq), seq[n] == stop.t))
    return st.assume(ax), r


def dictview_seq(E, st, view):
    """values()/keys()/items() of a dict as a sequence value"""
    _, dv, what = view.t
    kk, vk = dv.kind[1], dv.kind[2]
    K = sort_of(kk)
    if what == "keys":
        if dv.kind.tag == "odict":
            return st, V(Kind("seq", kk), E.dord(st, dv))
        # unordered view: an arbitrary duplicate-free enumeration of the key set
        S = z3.SeqSort(K)
        r = z3.Const(fresh_name("keys"), S)
        x = z3.Const(fresh_name("k"), K)
        keys = E.dkeys(st, dv)
        E.uses_quantifiers = True
        ax = z3.ForAll([x], z3.Contains(r, z3.Unit(x)) == z3.Select(keys, x))
        return st.assume(ax), V(Kind("seq", kk), r)
    if what == "values":
        ks = alts(vk)
        if len(ks) != 1:
            raise Unsupported("values() of a dict with union values")
        vkk = ks[0]
        order = E.dord(st, dv) if dv.kind.tag == "odict" else dictview_seq(E, st, V(FN, ("dictview", dv, "keys")))[1].t
        if dv.kind.tag != "odict":
            st = dictview_seq(E, st, V(FN, ("dictview", dv, "keys")))[0]
            raise Unsupported("values() of an unordered dict")
        S = z3.SeqSort(sort_of(vkk))
        r = z3.Const(fresh_name("values"), S)
        i = z3.Int(fresh_name("i"))
        E.uses_quantifiers = True
        vals = z3.Select(E.arr(st, E.dvals_key(dv, vkk), z3.IntSort(), z3.ArraySort(K, sort_of(vkk))), dv.t)
        ax = z3.And(z3.Length(r) == z3.Length(order),
                    # well-formed ordered dict: the insertion order lists keys of the dict (kept by every write of the
                    # engine; assumed of dicts that come from parameters or contracts, like len(order) == size)
                    z3.ForAll([i], z3.Implies(z3.And(i >= 0, i < z3.Length(order)),
                                              z3.And(r[i] == z3.Select(vals, order[i]), z3.Select(E.dkeys(st, dv), order[i])))))
        return st.assume(ax), V(Kind("seq", vkk), r)
    raise Unsupported("dict view %s as a sequence" % what)


# primitive methods ----------------------------------------------------------
_PYTYPES = {"str": str, "int": int, "bool": bool, "real": float, "list": list, "dict": dict, "odict": dict}


def call_prim(E, st, base, meth, args, kwargs, node=None):
    t = base.kind.tag
    if t in _PYTYPES and not hasattr(_PYTYPES[t], meth):
        # e.g. "text".append(...): the real type has no such method
        return [E.raise_(st, "AttributeError", "'%s' object has no attribute '%s'" % (_PYTYPES[t].__name__, meth))]
    if t == "str":
        return str_method(E, st, base, meth, args, kwargs)
    if t == "list":
        return list_method(E, st, base, meth, args, kwargs)
    if t in ("dict", "odict"):
        return dict_method(E, st, base, meth, args, kwargs)
    raise Unsupported("method %s of %s" % (meth, base.kind))


def str_method(E, st, s, meth, args, kwargs):
    x = s.t
    if meth == "isspace":
        n = z3.Length(x)
        c1 = _const_int(z3.simplify(n))
        if c1 == 1:
            return ok(st, vbool(is_space_char(E, x)))
        i = z3.Int(fresh_name("i"))
        E.uses_quantifiers = True
        return ok(st, vbool(z3.And(n > 0, z3.ForAll([i], z3.Implies(z3.And(i >= 0, i < n), is_space_char(E, z3.SubString(x, i, 1)))))))
    if meth == "isalpha":
        n = z3.Length(x)
        # only used on prefixes of length <= 1 in the targets
        return ok(st, vbool(z3.And(n > 0, z3.If(n == 1, is_alpha_char(E, x), _all_chars(E, x, is_alpha_char)))))
    if meth == "startswith":
        a = args[0]
        if a.kind.tag != "str":
            return [E.raise_(st, "TypeError", "startswith")]
        return ok(st, vbool(z3.PrefixOf(a.t, x)))
    if meth == "endswith":
        a = args[0]
        if a.kind.tag != "str":
            return [E.raise_(st, "TypeError", "endswith")]
        return ok(st, vbool(z3.SuffixOf(a.t, x)))
    if meth == "find":
        a = args[0]
        if a.kind.tag != "str":
            return [E.raise_(st, "TypeError", "find")]
        return ok(st, V(INT, z3.IndexOf(x, a.t, 0)))
    if meth == "lstrip" and len(args) == 1 and args[0].kind.tag == "str" and _const_str(args[0].t) is not None \
            and len(_const_str(args[0].t)) == 1:
        # exact: x == c* + r and r does not start with c
        c = z3.StringVal(_const_str(args[0].t))
        r = z3.String(fresh_name("lstripped"))
        pre = z3.String(fresh_name("stripped"))
        ax = z3.And(x == z3.Concat(pre, r), z3.InRe(pre, z3.Star(z3.Re(c))), z3.Not(z3.PrefixOf(c, r)))
        return ok(st.assume(ax), V(STR, r))
    if meth == "lower" or meth == "upper" or meth == "title" or meth == "strip" or meth == "lstrip":
        if meth in ("strip", "lstrip") and args:
            raise Unsupported("strip with chars")
        f = E.uf_decl("str_" + meth, z3.StringSort(), z3.StringSort())
        r = f(x)
        ax = z3.Length(r) <= z3.Length(x) if meth in ("strip", "lstrip") else z3.Length(r) == z3.Length(x)
        if meth == "lower":
            # instances needed for str(bool).lower()
            ax = z3.And(ax, z3.Implies(x == z3.StringVal("True"), r == z3.StringVal("true")),
                        z3.Implies(x == z3.StringVal("False"), r == z3.StringVal("false")))
        return ok(st.assume(ax), V(STR, r))
    if meth == "rstrip":
        f = E.uf_decl("str_rstrip" if not args else "str_rstrip2", *([z3.StringSort()] * (1 + len(args)) + [z3.StringSort()]))
        r = f(x, *[a.t for a in args])
        ax = z3.PrefixOf(r, x)
        if args:
            ca = _const_str(args[0].t)
            if ca is not None and len(ca) == 1:
                ax = z3.And(ax, z3.Not(z3.SuffixOf(z3.StringVal(ca), r)),
                            z3.Implies(z3.Not(z3.SuffixOf(z3.StringVal(ca), x)), r == x))
        return ok(st.assume(ax), V(STR, r))
    if meth == "replace":
        a, b = args[0], args[1]
        f = E.uf_decl("str_replace_all", z3.StringSort(), z3.StringSort(), z3.StringSort(), z3.StringSort())
        r = f(x, a.t, b.t)
        ax = z3.And(z3.Implies(z3.Not(z3.Contains(x, a.t)), r == x),
                    z3.Implies(z3.Length(a.t) == z3.Length(b.t), z3.Length(r) == z3.Length(x)))
        return ok(st.assume(ax), V(STR, r))
    if meth == "format":
        f = E.uf_decl("str_format_%d" % len(args), *([z3.StringSort()] * 2 + [z3.StringSort()]))
        # result is an opaque string determined by the template and the (string forms of the) arguments
        parts = []
        s2 = st
        for a in args:
            outs = _str(E, s2, [a])
            if len(outs) != 1:
                raise Unsupported("format argument")
            s2 = outs[0].st
            parts.append(outs[0].val.t)
        if kwargs:
            raise Unsupported("format with keywords")
        tmpl = _const_str(x)
        if tmpl is not None and _re.fullmatch(r"[^{}]*(\{\}[^{}]*)*", tmpl):
            pieces = tmpl.split("{}")
            if len(pieces) - 1 == len(parts):
                cat = [z3.StringVal(pieces[0])]
                for p, piece in zip(parts, pieces[1:]):
                    cat.append(p)
                    cat.append(z3.StringVal(piece))
                cat = [c for c in cat if not (z3.is_string_value(c) and c.as_string() == "")]
                if not cat:
                    return ok(s2, vstr(""))
                return ok(s2, V(STR, z3.Concat(*cat) if len(cat) > 1 else cat[0]))
        argcat = z3.Concat(*[z3.Concat(p, z3.StringVal("\x00")) for p in parts]) if len(parts) > 1 else (
            z3.Concat(parts[0], z3.StringVal("\x00")) if parts else z3.StringVal(""))
        return ok(s2, V(STR, f(x, argcat)))
    if meth == "join":
        a = args[0]
        if a.kind.tag in ("list", "seq") and a.kind[1].tag == "str":
            seq = E.list_seq(st, a) if a.kind.tag == "list" else a.t
            f = E.uf_decl("str_join", z3.StringSort(), z3.SeqSort(z3.StringSort()), z3.StringSort())
            r = f(x, seq)
            ax = z3.And(z3.Implies(z3.Length(seq) == 0, r == z3.StringVal("")),
                        z3.Implies(z3.Length(seq) == 1, r == seq[0]),
                        z3.Implies(z3.Length(seq) == 2, r == z3.Concat(seq[0], x, seq[1])))
            return ok(st.assume(ax), V(STR, r))
        if a.kind.tag == "fn" and a.t[0] == "reversed" and a.t[1].kind.tag == "list":
            f = E.uf_decl("str_join_rev", z3.StringSort(), z3.SeqSort(z3.StringSort()), z3.StringSort())
            seq = E.list_seq(st, a.t[1])
            r = f(x, seq)
            ax = z3.And(z3.Implies(z3.Length(seq) == 0, r == z3.StringVal("")),
                        z3.Implies(z3.Length(seq) == 1, r == seq[0]))
            return ok(st.assume(ax), V(STR, r))
        raise Unsupported("join of %s" % (a.kind,))
    if meth == "split":
        f = E.uf_decl("str_split", z3.StringSort(), z3.StringSort(), z3.SeqSort(z3.StringSort()))
        sep = args[0].t if args else z3.StringVal("\x00ws")
        r = f(x, sep)
        ax = z3.Length(r) >= (1 if args else 0)
        if args:
            ax = z3.And(ax, z3.Implies(z3.Not(z3.Contains(x, sep)), r == z3.Unit(x)))
        s2, lv = E.new_list(st.assume(ax), STR, r)
        return ok(s2, lv)
    if meth == "count":
        f = E.uf_decl("str_count", z3.StringSort(), z3.StringSort(), z3.IntSort())
        r = f(x, args[0].t)
        return ok(st.assume(z3.And(r >= 0, (r == 0) == z3.Not(z3.Contains(x, args[0].t)))), V(INT, r))
    if meth in ("ljust", "rjust"):
        w = E.to_int(args[0]).t
        f = E.uf_decl("str_" + meth, z3.StringSort(), z3.IntSort(), z3.StringSort())
        r = f(x, w)
        n = z3.Length(x)
        ax = z3.And(z3.Length(r) == z3.If(w > n, w, n), z3.Implies(w <= n, r == x),
                    z3.PrefixOf(x, r) if meth == "ljust" else z3.SuffixOf(x, r))
        return ok(st.assume(ax), V(STR, r))
    raise Unsupported("str.%s" % meth)


def _all_chars(E, x, pred):
    i = z3.Int(fresh_name("i"))
    E.uses_quantifiers = True
    return z3.ForAll([i], z3.Implies(z3.And(i >= 0, i < z3.Length(x)), pred(E, z3.SubString(x, i, 1))))


def list_method(E, st, lv, meth, args, kwargs):
    ek = lv.kind[1]
    seq = E.list_seq(st, lv)
    n = z3.Length(seq)
    if meth == "append":
        v = args[0]
        if not E._compatible(v.kind, ek):
            raise Unsupported("append of %s to %s" % (v.kind, lv.kind))
        return ok(E.list_set_seq(st, lv, z3.Concat(seq, z3.Unit(v.t))), VNONE)
    if meth == "insert":
        i = E.to_int(args[0]).t
        v = args[1]
        if not E._compatible(v.kind, ek):
            raise Unsupported("insert of %s into %s" % (v.kind, lv.kind))
        j = z3.If(i < 0, z3.If(i + n < 0, z3.IntVal(0), i + n), z3.If(i > n, n, i))
        new = z3.Concat(z3.SubSeq(seq, 0, j), z3.Unit(v.t), z3.SubSeq(seq, j, n - j))
        return ok(E.list_set_seq(st, lv, new), VNONE)
    if meth == "pop":
        i = E.to_int(args[0]).t if args else z3.IntVal(-1)
        j = z3.If(i < 0, i + n, i)
        good, bad = E.fork(st, z3.And(j >= 0, j < n))
        res = []
        if good is not None:
            new = z3.Concat(z3.SubSeq(seq, 0, j), z3.SubSeq(seq, j + 1, n - j - 1))
            v = E.elem(ek, seq[j])
            s2 = E.list_set_seq(good, lv, new)
            res.append(Out("ok", E.assume_valid_ref(s2, v), v))
        if bad is not None:
            res.append(E.raise_(bad, "IndexError", "pop from empty list / index out of range"))
        return res
    if meth == "index":
        v = args[0]
        if not E._eq_comparable(v.kind, ek):
            return [E.raise_(st, "ValueError", "not in list")]
        unit = z3.Unit(E.coerce(v, ek).t)
        good, bad = E.fork(st, z3.Contains(seq, unit))
        res = []
        if good is not None:
            res.append(Out("ok", good, V(INT, z3.IndexOf(seq, unit, 0))))
        if bad is not None:
            res.append(E.raise_(bad, "ValueError", "x not in list"))
        return res
    if meth == "copy":
        s2, l2 = E.new_list(st, ek, seq)
        return ok(s2, l2)
    if meth == "extend":
        a = args[0]
        if a.kind.tag != "list" or a.kind[1] != ek:
            raise Unsupported("extend with %s" % (a.kind,))
        return ok(E.list_set_seq(st, lv, z3.Concat(seq, E.list_seq(st, a))), VNONE)
    raise Unsupported("list.%s" % meth)


def dict_method(E, st, dv, meth, args, kwargs):
    if meth in ("values", "keys", "items"):
        return ok(st, V(FN, ("dictview", dv, meth)))
    if meth == "get":
        key = E.coerce(args[0], dv.kind[1])
        default = args[1] if len(args) > 1 else VNONE
        has, no = E.fork(st, E.dict_has(st, dv, key))
        res = []
        if has is not None:
            for s2, v in E.dict_get(has, dv, key):
                res.append(Out("ok", s2, v))
        if no is not None:
            res.append(Out("ok", no, default))
        return res
    if meth == "pop":
        key = E.coerce(args[0], dv.kind[1])
        has, no = E.fork(st, E.dict_has(st, dv, key))
        res = []
        if has is not None:
            for s2, v in E.dict_get(has, dv, key):
                res.append(Out("ok", E.dict_del(s2, dv, key), v))
        if no is not None:
            if len(args) > 1:
                res.append(Out("ok", no, args[1]))
            else:
                res.append(E.raise_(no, "KeyError", "pop of a missing key"))
        return res
    if meth == "copy":
        s2, d2 = E.new_dict(st, dv.kind)
        s2 = s2.copy()
        K = sort_of(dv.kind[1])
        for prefix, rng in (("DK|%s|%s" % (dv.kind[1], dv.kind[2]), z3.ArraySort(K, z3.BoolSort())),):
            s2.heap[prefix] = z3.Store(E.arr(s2, prefix, z3.IntSort(), rng), d2.t, z3.Select(E.arr(s2, prefix, z3.IntSort(), rng), dv.t))
        ks = alts(dv.kind[2])
        if len(ks) > 1:
            tk = "DT|%s|%s" % (dv.kind[1], dv.kind[2])
            rng = z3.ArraySort(K, z3.IntSort())
            s2.heap[tk] = z3.Store(E.arr(s2, tk, z3.IntSort(), rng), d2.t, z3.Select(E.arr(s2, tk, z3.IntSort(), rng), dv.t))
        for k in ks:
            if k.tag == "none":
                continue
            vk = E.dvals_key(dv, k)
            rng = z3.ArraySort(K, sort_of(k))
            s2.heap[vk] = z3.Store(E.arr(s2, vk, z3.IntSort(), rng), d2.t, z3.Select(E.arr(s2, vk, z3.IntSort(), rng), dv.t))
        if dv.kind.tag == "odict":
            ok_ = "DO|%s|%s" % (dv.kind[1], dv.kind[2])
            rng = z3.SeqSort(K)
            s2.heap[ok_] = z3.Store(E.arr(s2, ok_, z3.IntSort(), rng), d2.t, z3.Select(E.arr(s2, ok_, z3.IntSort(), rng), dv.t))
        return ok(s2, d2)
    if meth == "update" and len(args) == 1 and not kwargs and args[0].kind.tag in ("dict", "odict") \
            and args[0].kind[1] == dv.kind[1] and args[0].kind[2] == dv.kind[2] and dv.kind.tag == "dict":
        # d.update(e) for two dicts of one kind (insertion order of plain dicts is not modelled): afterwards a key is in d
        # iff it was in d or is in e, with e's value where e has the key
        other = args[0]
        K = sort_of(dv.kind[1])
        s2 = st.copy()
        q = z3.Const(fresh_name("upk"), K)
        E.uses_quantifiers = True
        facts = []
        in_e = None
        names = [("DK|%s|%s" % (dv.kind[1], dv.kind[2]), z3.ArraySort(K, z3.BoolSort()), "has")]
        ks = alts(dv.kind[2])
        if len(ks) > 1:
            names.append(("DT|%s|%s" % (dv.kind[1], dv.kind[2]), z3.ArraySort(K, z3.IntSort()), "tag"))
        for k in ks:
            if k.tag != "none":
                names.append((E.dvals_key(dv, k), z3.ArraySort(K, sort_of(k)), "val"))
        hk, hr = names[0][0], names[0][1]
        old_has = z3.Select(E.arr(s2, hk, z3.IntSort(), hr), dv.t)
        e_has = z3.Select(E.arr(s2, hk, z3.IntSort(), hr), other.t)
        for key, rng, what in names:
            old_d = z3.Select(E.arr(s2, key, z3.IntSort(), rng), dv.t)
            e_d = z3.Select(E.arr(s2, key, z3.IntSort(), rng), other.t)
            new_d = z3.Const(fresh_name("upd_" + what), rng)
            if what == "has":
                facts.append(z3.Select(new_d, q) == z3.Or(z3.Select(old_d, q), z3.Select(e_d, q)))
            else:
                facts.append(z3.Select(new_d, q) == z3.If(z3.Select(e_has, q), z3.Select(e_d, q), z3.Select(old_d, q)))
            s2.heap[key] = z3.Store(E.arr(s2, key, z3.IntSort(), rng), dv.t, new_d)
        s2 = s2.assume(z3.ForAll([q], z3.And(facts)))
        return ok(s2, VNONE)
    raise Unsupported("dict.%s" % meth)


# external modules -----------------------------------------------------------
def call_ext(E, st, mod, name, args, kwargs, node=None):
    full = "%s.%s" % (mod, name)
    if full in ("math.floor", "math.ceil"):
        a = args[0]
        if a.kind.tag in ("int", "bool"):
            return ok(st, E.to_int(a))
        if a.kind.tag != "real":
            return [E.raise_(st, "TypeError", full)]
        fl = z3.ToInt(a.t)
        if name == "floor":
            return ok(st, V(INT, fl))
        return ok(st, V(INT, z3.If(z3.ToReal(fl) == a.t, fl, fl + 1)))
    if full == "copy.copy" and len(args) == 1 and args[0].kind.tag == "ref":
        # shallow copy of an instance: a new object of the same class whose fields (declared in the shape, ghost
        # fields included) hold the same values / references
        src = args[0]
        cname = src.kind[1]
        if len(E.subclasses(cname)) != 1:
            raise Unsupported("copy.copy of %s (has subclasses)" % cname)
        s2, new = E.new_object(st, cname)
        outs = [s2]
        for f, fk in sorted(E.R.all_fields(cname, E.P).items()):
            nxt = []
            for s3 in outs:
                for s4, v in E.read_field(s3, src, f, fk):
                    nxt.append(E.write_field(s4, new, f, fk, v))
            outs = nxt
        return [Out("ok", s5, new) for s5 in outs]
    if full == "sys.exit":
        s2, e = E.mk_exc(st, "SystemExit", args)
        return [Out("raise", s2, e)]
    if full == "time.time":
        # model: the clock is a ghost real that never goes backwards; every call returns a value >= the last one
        E.trusted.add("model: time.time() returns an arbitrary real, non-decreasing along every execution")
        cur = clock_value(E, st)
        t = z3.Real(fresh_name("now"))
        s = st.assume(t >= cur)
        s = set_clock(E, s, t)
        return ok(s, V(REAL, t))
    if full == "itertools.takewhile":
        f, src = args
        if f.kind.tag == "fn" and f.t[0] == "lambda":
            lam = f.t[1]
            b = lam.body
            if (isinstance(b, ast.Compare) and len(b.ops) == 1 and isinstance(b.ops[0], (ast.NotEq, ast.Eq))
                    and isinstance(b.left, ast.Name) and b.left.id == lam.args.args[0].arg
                    and isinstance(b.comparators[0], ast.Constant) and isinstance(b.comparators[0].value, str)):
                return ok(st, V(FN, ("takewhile_ne", src, vstr(b.comparators[0].value), isinstance(b.ops[0], ast.Eq))))
        raise Unsupported("takewhile with this predicate")
    if full == "re.match":
        pat = _const_str(args[0].t) if args[0].kind.tag == "str" else None
        if pat is None:
            if args[0].kind.tag == "str" and args[1].kind.tag == "str":
                # a pattern known only at run time: whether it matches is an uninterpreted predicate of (pattern, text);
                # an invalid pattern (re.error) is outside the model
                E.trusted.add("re.match with a run-time pattern: an uninterpreted predicate re_match(pattern, text); "
                              "re.error for an invalid pattern is not modelled")
                f = E.uf_decl("uf_re_match", z3.StringSort(), z3.StringSort(), z3.BoolSort())
                return ok(st, V(BOOL, f(args[0].t, args[1].t), aux={"match": True}))
            raise Unsupported("re.match with a symbolic pattern")
        if args[1].kind.tag != "str":
            return [E.raise_(st, "TypeError", "expected string")]
        rx = regex_to_z3(pat)
        if rx is None:
            raise Unsupported("regular expression %r" % pat)
        # result is only tested for truth: model as bool-ish optional
        m = z3.InRe(args[1].t, rx)
        return ok(st, V(BOOL, m, aux={"match": True}))
    hook = getattr(E.R, "ext_hook", None)
    if hook is not None:
        r = hook(E, st, full, args, kwargs)
        if r is not None:
            return r
    raise Unsupported("external function %s" % full)


def clock_value(E, st):
    return z3.Select(E.arr(st, "G|clock", z3.IntSort(), z3.RealSort()), z3.IntVal(0))


def set_clock(E, st, t):
    s = st.copy()
    s.heap["G|clock"] = z3.Store(E.arr(s, "G|clock", z3.IntSort(), z3.RealSort()), z3.IntVal(0), t)
    return s


def regex_to_z3(pat):
    """The handful of literal patterns in the targets, with Python's meaning of `$`
    (matches at the end and before a trailing newline) and re.match anchoring at the start."""
    p = pat
    if p.startswith("^"):
        p = p[1:]
    dollar = False
    if p.endswith("\\Z"):
        p = p[:-2]
        tail = None
    elif p.endswith("$") and not p.endswith("\\$"):
        p = p[:-1]
        dollar = True
    else:
        dollar = None  # unanchored at the end: anything may follow
    body = _rx_seq(p)
    if body is None:
        return None
    anych = z3.Star(z3.AllChar(z3.ReSort(z3.StringSort()))) if hasattr(z3, "AllChar") else z3.Star(z3.Range("\x00", "\U0010ffff"))
    if dollar is True:
        return z3.Concat(body, z3.Option(z3.Re("\n")))
    if dollar is None:
        return z3.Concat(body, anych)
    return body


def _rx_seq(p):
    """tiny regex parser: char classes [..], literals, + * ?, groups (?:...) -- no alternation"""
    items = []
    i = 0
    while i < len(p):
        c = p[i]
        if c == "[":
            j = p.index("]", i + 1)
            cls = p[i + 1:j]
            atom = _rx_class(cls)
            i = j + 1
        elif c == "(":
            depth = 1
            j = i + 1
            while j < len(p) and depth:
                if p[j] == "(":
                    depth += 1
                elif p[j] == ")":
                    depth -= 1
                j += 1
            inner = p[i + 1:j - 1]
            if inner.startswith("?:"):
                inner = inner[2:]
            atom = _rx_seq(inner)
            i = j
        elif c == "\\":
            atom = z3.Re(p[i + 1])
            i += 2
        elif c in "+*?|.^$":
            return None
        else:
            atom = z3.Re(c)
            i += 1
        if atom is None:
            return None
        if i < len(p) and p[i] in "+*?":
            atom = {"+": z3.Plus, "*": z3.Star, "?": z3.Option}[p[i]](atom)
            i += 1
        items.append(atom)
    if not items:
        return z3.Re("")
    return z3.Concat(*items) if len(items) > 1 else items[0]


def _rx_class(cls):
    parts = []
    i = 0
    while i < len(cls):
        c = cls[i]
        if c == "\\":
            parts.append(z3.Re(cls[i + 1]))
            i += 2
        elif i + 2 < len(cls) and cls[i + 1] == "-":
            parts.append(z3.Range(c, cls[i + 2]))
            i += 3
        else:
            parts.append(z3.Re(c))
            i += 1
    return z3.Union(*parts) if len(parts) > 1 else parts[0]
