"""Counterexample replay: z3 model -> concrete objects -> call of the real function ->
native evaluation of the same contract clauses."""
import ast
import copy
import importlib
import json
import math
import os
import sys
import traceback
from fractions import Fraction

import z3

from .contracts import REG
from .kinds import alts, sort_of, is_refkind, Kind


# ------------------------------------------------------------------ model -> description
class Describer:
    def __init__(self, E, model, entry):
        self.E = E
        self.m = model
        self.entry = entry
        self.objs = {}
        self.lists = {}
        self.dicts = {}
        self.budget = 400

    def ev(self, t):
        return self.m.eval(t, model_completion=True)

    def prim(self, k, t):
        v = self.ev(t)
        if k.tag == "int":
            return v.as_long()
        if k.tag == "bool":
            return z3.is_true(v)
        if k.tag == "str":
            return v.as_string() if z3.is_string_value(v) else str(v)
        if k.tag == "real":
            if z3.is_rational_value(v):
                return {"__real__": "%s/%s" % (v.numerator_as_long(), v.denominator_as_long())}
            return {"__real__": str(v)}
        raise ValueError(k)

    def value(self, v):
        k = v.kind
        t = k.tag
        if t == "none":
            return None
        if t in ("int", "bool", "str", "real"):
            return self.prim(k, v.t)
        if t == "tuple":
            return {"__tuple__": [self.value(x) for x in v.t]}
        if t == "ref":
            return self.obj(k[1], self.ev(v.t).as_long())
        if t == "list":
            return self.list_(k[1], self.ev(v.t).as_long())
        if t in ("dict", "odict"):
            return self.dict_(k, self.ev(v.t).as_long())
        if t == "seq":
            return {"__seq__": self.seq(k[1], v.t)}
        if t == "fn":
            return {"__fn__": self.ev(v.t).as_long() if not isinstance(v.t, tuple) else 0}
        if t == "exc":
            return {"__exc__": k[1]}
        return {"__unknown__": str(k)}

    def seq(self, ek, seqterm):
        n = self.ev(z3.Length(seqterm)).as_long()
        out = []
        for i in range(min(n, 50)):
            el = seqterm[i]
            out.append(self.elem(ek, el))
        return out

    def elem(self, ek, term):
        from .state import V
        if ek.tag == "none":
            return None
        return self.value(V(ek, term))

    def obj(self, cls, r):
        key = "%s" % r
        if key in self.objs:
            return {"__obj__": key}
        # dynamic class from the model
        try:
            cid = self.ev(self.E.cls_of(z3.IntVal(r))).as_long()
            for name, i in self.E.__dict__.get("_class_ids", {}).items():
                if i == cid and name in self.E.subclasses(cls):
                    cls = name
        except Exception:
            pass
        self.budget -= 1
        if self.budget < 0:
            raise ValueError("object graph too large")
        d = {"class": cls, "fields": {}}
        self.objs[key] = d
        E = self.E
        st = self.entry
        rt = z3.IntVal(r)
        for f, fk in E.R.all_fields(cls, E.P).items():
            ks = alts(fk)
            if len(ks) > 1:
                tag = self.ev(z3.Select(E.arr(st, "T|%s|%s" % (f, fk), z3.IntSort(), z3.IntSort()), rt)).as_long()
                if not (0 <= tag < len(ks)):
                    tag = len(ks) - 1
                k = ks[tag]
            else:
                k = ks[0]
            if k.tag == "none":
                d["fields"][f] = None
                continue
            d["fields"][f] = self.value(E._read_alt(st, rt, f, k))
        return {"__obj__": key}

    def list_(self, ek, r):
        key = "%s:%s" % (ek, r)
        if key in self.lists:
            return {"__list__": key}
        self.lists[key] = []
        E = self.E
        seq = z3.Select(E.arr(self.entry, E.lkey(ek), z3.IntSort(), z3.SeqSort(sort_of(ek))), z3.IntVal(r))
        self.lists[key] = self.seq(ek, seq)
        return {"__list__": key}

    def dict_(self, k, r):
        key = "%s:%s" % (k, r)
        if key in self.dicts:
            return {"__dict__": key}
        self.dicts[key] = {"items": [], "kind": str(k)}
        E = self.E
        st = self.entry
        from .state import V
        dv = V(k, z3.IntVal(r))
        keys = E.dkeys(st, dv)
        cands = []
        if k.tag == "odict":
            cands = self.seq(k[1], E.dord(st, dv))
        else:
            # candidate keys: every constant of the key sort mentioned by the model
            seen = set()
            for d in self.m.decls():
                if d.arity() == 0 and d.range() == sort_of(k[1]):
                    val = self.m[d]
                    sv = val.as_string() if z3.is_string_value(val) else (val.as_long() if z3.is_int_value(val) else None)
                    if sv is not None and sv not in seen:
                        seen.add(sv)
                        cands.append(sv)
            av = self.ev(keys)
            for s in _array_points(av):
                if s not in seen:
                    seen.add(s)
                    cands.append(s)
        items = []
        for ck in cands:
            kt = z3.StringVal(ck) if k[1].tag == "str" else z3.IntVal(ck)
            if not z3.is_true(self.ev(z3.Select(keys, kt))):
                continue
            outs = list(E.dict_get(st, dv, V(k[1], kt)))
            for s2, v in outs:
                ok = True
                for c in s2.pc[len(st.pc):]:
                    if not z3.is_true(self.ev(c)):
                        ok = False
                if ok:
                    items.append([ck, self.value(v)])
                    break
            else:
                # the key is present but the model says nothing usable about its value (the path never read it): any
                # well-formed value of the declared kind will do for the replay
                for s2, v in outs[:1]:
                    try:
                        items.append([ck, self.value(v)])
                    except Exception:
                        pass
        self.dicts[key]["items"] = items
        return {"__dict__": key}


def _array_points(av):
    """explicitly stored indices of an array model value"""
    out = []
    e = av
    while z3.is_store(e):
        idx = e.arg(1)
        if z3.is_string_value(idx):
            out.append(idx.as_string())
        elif z3.is_int_value(idx):
            out.append(idx.as_long())
        e = e.arg(0)
    if z3.is_as_array(e):
        pass
    return out


def extract_witness(rep):
    """factory of `extract(model, case)` for solve.discharge"""
    E = rep.engine

    def extract(m, case):
        if case is None:
            return None
        entry, env, label = case
        d = Describer(E, m, entry)
        params = {n: d.value(v) for n, v in env.items()}
        ufs = {}
        for name, f in E.ufs.items():
            try:
                interp = m[f]
                if interp is not None:
                    ufs[name] = str(interp)[:300]
            except Exception:
                pass
        classes = {}
        for cname, cv in getattr(E, "class_objs", {}).items():
            try:
                classes[cname] = d.value(cv)
            except Exception:
                pass
        w = {"case": label, "params": params, "objects": d.objs, "lists": d.lists, "dicts": d.dicts, "ufs": ufs}
        if classes:
            w["classes"] = classes  # mutable class variables at entry
        return w
    return extract


# ------------------------------------------------------------------ description -> live objects
_MISSING = object()


class Builder:
    def __init__(self, wit, stubs):
        self.w = wit
        self.stubs = stubs
        self.objs = {}
        self.lists = {}
        self.dicts = {}

    def cls(self, name):
        if name in self.stubs:
            return self.stubs[name]
        if name.endswith("$cls"):
            return type(str(name[:-4] + "_classvars"), (object,), {})
        from . import frontend
        P = frontend.Program()
        ci = P.find_class(name)
        mod = importlib.import_module(ci.module)
        return getattr(mod, name)

    def build(self):
        for key, d in self.w.get("objects", {}).items():
            c = self.cls(d["class"])
            try:
                self.objs[key] = c.__new__(c)
            except TypeError:
                self.objs[key] = object.__new__(c)
        for key in self.w.get("lists", {}):
            self.lists[key] = []
        for key in self.w.get("dicts", {}):
            self.dicts[key] = {}
        for key, items in self.w.get("lists", {}).items():
            self.lists[key].extend(self.val(x) for x in items)
        for key, d in self.w.get("dicts", {}).items():
            for k, v in d["items"]:
                self.dicts[key][k] = self.val(v)
        for key, d in self.w.get("objects", {}).items():
            o = self.objs[key]
            for f, v in d["fields"].items():
                try:
                    setattr(o, f, self.val(v))
                except Exception:
                    pass
            init = getattr(o, "__stub_init__", None)
            if init:
                init()
        # mutable class variables: installed on the real classes, to be put back by restore()
        self.saved_classvars = []
        for cname, ref in (self.w.get("classes") or {}).items():
            real = self.cls(cname)
            holder = self.val(ref)
            for f, v in vars(holder).items():
                self.saved_classvars.append((real, f, real.__dict__.get(f, _MISSING)))
                setattr(real, f, v)
        return {n: self.val(v) for n, v in self.w["params"].items()}

    def restore(self):
        for real, f, old in reversed(getattr(self, "saved_classvars", [])):
            if old is _MISSING:
                try:
                    delattr(real, f)
                except AttributeError:
                    pass
            else:
                setattr(real, f, old)

    def val(self, x):
        if isinstance(x, dict):
            if "__obj__" in x:
                return self.objs[x["__obj__"]]
            if "__list__" in x:
                return self.lists[x["__list__"]]
            if "__dict__" in x:
                return self.dicts[x["__dict__"]]
            if "__real__" in x:
                try:
                    return float(Fraction(x["__real__"]))
                except Exception:
                    return 0.0
            if "__tuple__" in x:
                return tuple(self.val(y) for y in x["__tuple__"])
            if "__seq__" in x:
                return [self.val(y) for y in x["__seq__"]]
            if "__fn__" in x:
                return self.stubs.get("__fn__", lambda *a, **k: None)
            if "__exc__" in x:
                return Exception(x["__exc__"])
            return None
        return x


# ------------------------------------------------------------------ native contract evaluation
class _OldRewriter(ast.NodeTransformer):
    def __init__(self):
        self.olds = []
        self.by_identity = set()  # names of olds compared with `is` / `is not`: the reference itself is kept

    def visit_Compare(self, node):
        ident = any(isinstance(o, (ast.Is, ast.IsNot)) for o in node.ops)
        before = len(self.olds)
        node = self.generic_visit(node)
        if ident:
            for n, _e in self.olds[before:]:
                self.by_identity.add(n)
        return node

    def visit_Call(self, node):
        if isinstance(node.func, ast.Name) and node.func.id == "implies" and len(node.args) == 2:
            # lazy, like the symbolic reading: the consequent is only evaluated when the antecedent holds
            a = self.visit(node.args[0])
            b = self.visit(node.args[1])
            return ast.copy_location(ast.BoolOp(op=ast.Or(), values=[ast.UnaryOp(op=ast.Not(), operand=a), b]), node)
        if isinstance(node.func, ast.Name) and node.func.id == "old" and len(node.args) == 1:
            name = "__old_%d" % len(self.olds)
            self.olds.append((name, node.args[0]))
            return ast.copy_location(ast.Name(id=name, ctx=ast.Load()), node)
        return self.generic_visit(node)


def native_namespace(R=None):
    R = R or REG
    import re as _re
    ns = {"implies": lambda a, b: (not a) or b, "math": math,
          "fullmatch": lambda pat, s: isinstance(s, str) and _re.fullmatch(pat, s) is not None,
          "fresh": lambda x: True,
          "is_prefix": lambda a, b: list(b[:len(a)]) == list(a),
          "seq": lambda x: list(x),
          "subset": lambda a, b: all(x in b for x in a),
          "values": lambda xs: list(xs),
          "first": lambda xs, n: list(xs)[:n],
          "same_except": lambda d, *ks: True}
    for name, sf in R.specfns.items():
        def mk(sf=sf):
            def f(*args):
                return sf.native(ns)(*args)
            return f
        ns[name] = mk()
    for name, u in R.ufs.items():
        if u.native is not None:
            ns[name] = u.native
    return ns


class NativeContract:
    """evaluates requires / ensures / raises of a contract on live objects"""

    def __init__(self, c, R=None):
        self.c = c
        self.R = R or REG
        self.ns = native_namespace(self.R)
        self.unevaluable = []

    def _compile(self, src):
        from .calls import clause_props
        tree = ast.parse(clause_props(src)[1], mode="eval")
        rw = _OldRewriter()
        tree = rw.visit(tree)
        ast.fix_missing_locations(tree)
        olds = [(n, compile(ast.fix_missing_locations(ast.Expression(body=e)), "<old>", "eval"), n in rw.by_identity)
                for n, e in rw.olds]
        return compile(tree, "<clause>", "eval"), olds

    def check_requires(self, env):
        for r in self.c.requires:
            code, _ = self._compile(r)
            try:
                if not eval(code, self.ns, dict(env)):
                    return False, r
            except Exception as e:
                return False, "%s (raised %r)" % (r, e)
        return True, None

    def snapshot_olds(self, env):
        snap = {}
        comp = []
        for e in self.c.ensures:
            code, olds = self._compile(e)
            vals = {}
            for n, oc, by_id in olds:
                try:
                    vals[n] = eval(oc, self.ns, dict(env))
                    if not by_id:
                        vals[n] = copy.deepcopy(vals[n])
                except Exception as ex:
                    vals[n] = ex
            comp.append((e, code, vals))
        rcomp = {}
        for exc, cond in self.c.raises.items():
            code, olds = self._compile(cond)
            try:
                rcomp[exc] = (cond, bool(eval(code, self.ns, dict(env))))
            except Exception as ex:
                rcomp[exc] = (cond, "error %r" % (ex,))
        return comp, rcomp

    def check_after(self, env, comp, rcomp, result, raised):
        """-> list of failed clause descriptions"""
        failed = []
        if raised is not None:
            name = None
            for exc in self.c.raises:
                if _exc_matches(raised, exc):
                    name = exc
                    break
            if name is None:
                failed.append("undeclared exception escapes: %s: %s" % (type(raised).__name__, raised))
            else:
                cond, val = rcomp[name]
                if val is not True:
                    failed.append("raised %s although its condition does not hold: %s" % (name, cond))
            return failed
        env2 = dict(env)
        env2["result"] = result
        for e, code, vals in comp:
            loc = dict(env2)
            loc.update({k: (_Raiser(v) if isinstance(v, Exception) else v) for k, v in vals.items()})
            try:
                okv = eval(code, self.ns, loc)
            except NameError:
                # a specification function without a run-time counterpart (uninterpreted in the proof): the clause
                # cannot be judged on live objects -- neither passed nor failed
                self.unevaluable.append(e)
                continue
            except Exception as ex:
                failed.append("%s  (evaluation raised %r)" % (e, ex))
                continue
            if not okv:
                failed.append(e)
        return failed


class _Raiser(object):
    """an old(...) expression that could not be evaluated in the pre-state: using it is an error, not using it is fine"""

    def __init__(self, exc):
        self._exc = exc

    def _boom(self, *a, **k):
        raise self._exc
    __add__ = __radd__ = __eq__ = __ne__ = __getitem__ = __len__ = __iter__ = __bool__ = __contains__ = __lt__ = __le__ = __gt__ = __ge__ = _boom
    __hash__ = None


def _exc_matches(e, name):
    for k in type(e).__mro__:
        if k.__name__ == name:
            return True
    return False


def resolve_callable(qual, selfobj=None):
    modname, _, name = qual.partition(":")
    mod = importlib.import_module(modname)
    if "." in name:
        cname, fname = name.split(".", 1)
        cls = getattr(mod, cname)
        fn = cls.__dict__.get(fname)
        if isinstance(fn, (classmethod, staticmethod)):
            return getattr(cls, fname), False
        if isinstance(fn, property):
            return fn.fget, True
        return fn, True
    return getattr(mod, name), False


def run_witness(qual, wit, R=None, stubs=None, tag=None):
    """-> dict(verdict=reproduced|passed|skipped, ...) ; runs the REAL function"""
    R = R or REG
    c = R.contracts.get(qual + "#" + tag) if tag else None
    if c is None:
        c = R.contracts[qual]
    stubs = dict(getattr(R, "native_stubs", {}) if stubs is None else stubs)
    out = {"function": qual}
    b = Builder(wit, stubs)
    try:
        return _run_witness(qual, wit, R, c, b, out)
    finally:
        b.restore()


def _run_witness(qual, wit, R, c, b, out):
    try:
        env = b.build()
    except Exception as e:
        out.update(verdict="skipped", why="cannot build the inputs: %r" % (e,))
        return out
    nc = NativeContract(c, R)
    try:
        # clauses may name the classes of the function's own module (class variables: BorderStyle._none)
        mod = importlib.import_module(qual.partition(":")[0])
        for k, v in vars(mod).items():
            if isinstance(v, type) and k not in nc.ns:
                nc.ns[k] = v
    except Exception:
        pass
    okr, why = nc.check_requires(env)
    if not okr:
        out.update(verdict="skipped", why="model does not satisfy the native precondition: %s" % why)
        return out
    try:
        comp, rcomp = nc.snapshot_olds(env)
        fn, bound = resolve_callable(qual)
        args = dict(env)
        selfobj = args.pop("self", None)
        if not bound:
            args.pop("cls", None)  # classmethods are resolved through their class
        result, raised = None, None
        try:
            if selfobj is not None:
                result = fn(selfobj, **args)
            else:
                result = fn(**args)
        except BaseException as e:  # noqa
            if isinstance(e, (SystemExit, GeneratorExit)):
                raise
            raised = e
        if isinstance(raised, AttributeError) and "has no attribute" in str(raised):
            # the object graph is built from the declared shapes only: the real code read an attribute that is in no
            # shape (an artifact of the replay, not a behaviour of the code under its contract)
            out.update(verdict="skipped", why="the replayed objects lack an attribute the real code reads: %s" % raised)
            return out
        failed = nc.check_after(env, comp, rcomp, result, raised)
    except Exception as e:
        out.update(verdict="skipped", why="replay harness error: %r" % (e,), trace=traceback.format_exc()[-1500:])
        return out
    out["observed"] = {"result": repr(result)[:300], "raised": (type(raised).__name__ + ": " + str(raised)[:300]) if raised is not None else None}
    if nc.unevaluable:
        out["unevaluable_clauses"] = nc.unevaluable[:10]
    if failed:
        out.update(verdict="reproduced", failed_clauses=failed)
    else:
        out.update(verdict="passed")
    return out
