"""Discharging obligations: z3 in-process, cvc5 (CLI) on unknown."""
import os
import subprocess
import tempfile
import time

import z3

from .kinds import alts, sort_of, is_refkind


class Result:
    def __init__(self, ob):
        self.name = ob.name
        self.kind = ob.kind
        self.func = ob.func
        self.text = ob.text
        self.expect = ob.expect
        self.status = None  # proved | failed | undecided   (cover: proved == reachable)
        self.backend = "z3"
        self.ms = 0.0
        self.queries = len(ob.queries)
        self.note = ""
        self.witness = None  # python-level description of a counter-model
        self.smt2 = None
        self.models_tried = 0
        self.cross = None  # thorough tier: verdicts of cvc5 on the queries z3 proved {"unsat": n, "unknown": n, "sat": n}

    def as_dict(self):
        return {k: getattr(self, k) for k in ("name", "kind", "func", "text", "expect", "status", "backend", "ms",
                                               "queries", "note", "witness", "cross")}


def _mk_solver(assumptions, goal, timeout_ms):
    s = z3.Solver()
    s.set("timeout", timeout_ms)
    for a in assumptions:
        s.add(a)
    s.add(z3.Not(goal))
    return s


def run_cvc5(smt2, timeout_ms):
    exe = "/usr/bin/cvc5"
    if not os.path.exists(exe):
        return "unknown"
    # z3 prints its internal total variants of nth; both mean seq.nth inside the bounds
    smt2 = smt2.replace("(seq.nth_u ", "(seq.nth ").replace("(seq.nth_i ", "(seq.nth ")
    with tempfile.NamedTemporaryFile("w", suffix=".smt2", delete=False) as f:
        f.write("(set-logic ALL)\n" + smt2 + "\n(check-sat)\n")
        path = f.name
    try:
        p = subprocess.run([exe, "--strings-exp", "--tlimit=%d" % timeout_ms, path], capture_output=True, text=True,
                           timeout=timeout_ms / 1000.0 + 5)
        out = p.stdout.strip().splitlines()
        return out[0] if out else "unknown"
    except Exception:
        return "unknown"
    finally:
        os.unlink(path)


class _Cvc5Race(object):
    """cvc5 on the same query in a child process while z3 works in this one; whoever decides first wins
    (a decision of cvc5 interrupts z3)"""

    def __init__(self, solver, timeout_ms):
        self.result = "unknown"
        self.proc = None
        self.path = None
        self.solver = solver
        exe = "/usr/bin/cvc5"
        if not os.path.exists(exe):
            return
        try:
            smt2 = solver.to_smt2().replace("(check-sat)", "")
            smt2 = smt2.replace("(seq.nth_u ", "(seq.nth ").replace("(seq.nth_i ", "(seq.nth ")
            with tempfile.NamedTemporaryFile("w", suffix=".smt2", delete=False) as f:
                f.write("(set-logic ALL)\n" + smt2 + "\n(check-sat)\n")
                self.path = f.name
            self.smt2 = smt2
            self.proc = subprocess.Popen([exe, "--strings-exp", "--tlimit=%d" % timeout_ms, self.path],
                                         stdout=subprocess.PIPE, stderr=subprocess.DEVNULL, text=True)
            import threading
            self.thread = threading.Thread(target=self._watch, daemon=True)
            self.thread.start()
        except Exception:
            self.proc = None

    def _watch(self):
        try:
            out, _ = self.proc.communicate()
            lines = (out or "").strip().splitlines()
            self.result = lines[0] if lines else "unknown"
            if self.result in ("sat", "unsat"):
                try:
                    self.solver.ctx.interrupt()
                except Exception:
                    pass
        except Exception:
            self.result = "unknown"

    def finish(self, wait_s):
        if self.proc is None:
            return "unknown"
        try:
            self.thread.join(wait_s)
            if self.thread.is_alive():
                self.proc.kill()
                self.thread.join(2)
        finally:
            if self.path:
                try:
                    os.unlink(self.path)
                except OSError:
                    pass
        return self.result if self.result in ("sat", "unsat") else "unknown"


def _seq_terms(exprs, limit=400):
    """sub-terms of sequence sort that are not built by sequence operators (variables, selects, UF applications)"""
    seen = set()
    out = []
    work = list(exprs)
    while work and len(seen) < 20000:
        e = work.pop()
        i = e.get_id()
        if i in seen:
            continue
        seen.add(i)
        if z3.is_app(e):
            k = e.decl().kind()
            if e.sort().kind() == z3.Z3_SEQ_SORT and k in (z3.Z3_OP_UNINTERPRETED, z3.Z3_OP_SELECT) and len(out) < limit:
                out.append(e)
            work.extend(e.children())
        elif z3.is_quantifier(e):
            work.append(e.body())
    return out


def bounded_model_search(assumptions, goal, timeout_ms, bound=3, total_s=25.0):
    """refutation only: look for a counter-model in which every sequence/string variable is short.
    Sequences of non-character elements are made explicit (a concatenation of `n` unit sequences over fresh
    element constants, n <= bound), strings get a length bound.  Adding constraints can only lose models, so
    `sat` here is a genuine counterexample."""
    import itertools
    terms = _seq_terms(list(assumptions) + [goal])
    strs = [t for t in terms if t.sort() == z3.StringSort()]
    seqs = [t for t in terms if t.sort() != z3.StringSort()][:3]
    last = (z3.unknown, None)
    t_end = time.time() + total_s
    for lens in itertools.product(range(bound + 1), repeat=len(seqs)):
        if time.time() > t_end:
            break  # (a search, not a decision: giving up leaves the obligation undecided)
        s = z3.Solver()
        s.set("timeout", timeout_ms)
        subst = []
        for t, n in zip(seqs, lens):
            es = [z3.Const("bms!%d!%d" % (t.get_id(), i), t.sort().basis()) for i in range(n)]
            if n == 0:
                expl = z3.Empty(t.sort())
            elif n == 1:
                expl = z3.Unit(es[0])
            else:
                expl = z3.Concat(*[z3.Unit(e) for e in es])
            subst.append((t, expl))
        # the explicit sequences are substituted (so that contains / index / length simplify away) and also
        # asserted as equalities (so that the model still interprets the original terms)
        for x in list(assumptions) + [z3.Not(goal)]:
            s.add(z3.simplify(z3.substitute(x, *subst)) if subst else x)
        for t, expl in subst:
            s.add(t == expl)
        for t in strs:
            s.add(z3.Length(t) <= 2 * bound + 2)
        r = s.check()
        last = (r, s)
        if r == z3.sat:
            return last
    return last


def discharge(ob, timeout_ms=10000, use_cvc5=True, extract=None, max_models=1, cross_check=False):
    """-> Result.  `extract(model, case)` turns a z3 model into a python-level witness."""
    r = Result(ob)
    t0 = time.time()
    if ob.expect == "sat":
        # cover: at least one query satisfiable.  Passes: a short z3 attempt on every query, the short-sequence model
        # search (constraints added, never removed: a model there is a model of the query), z3 with the full budget.
        status = "failed"
        seen_unknown = False

        def attempt(kind):
            nonlocal seen_unknown
            for assumptions, goal, note, case in ob.queries:
                if kind == "search":
                    try:
                        res, _s2 = bounded_model_search(assumptions, goal, min(timeout_ms, 3000), 1, total_s=8.0)
                    except Exception:
                        res = z3.unknown
                    if res == z3.sat:
                        r.backend = "z3 (short-sequence model search)"
                        return True
                    continue
                s = _mk_solver(assumptions, goal, min(1500, timeout_ms) if kind == "quick" else timeout_ms)
                res = s.check()
                if res == z3.sat:
                    return True
                if res == z3.unknown:
                    seen_unknown = True
            return False
        if attempt("quick"):
            status = "proved"
        elif seen_unknown:
            seen_unknown = False
            if attempt("search") or attempt("full"):
                status = "proved"
            elif seen_unknown:
                status = "undecided"
        r.status = status
        if status == "failed":
            r.note = "vacuity guard: %s is unsatisfiable" % ob.text
        r.ms = (time.time() - t0) * 1000
        return r
    status = "proved"
    for assumptions, goal, note, case in ob.queries:
        if z3.is_true(goal):
            continue
        quick_ms = min(1500, timeout_ms)
        s = _mk_solver(assumptions, goal, quick_ms)
        res = s.check()
        if res == z3.unknown and timeout_ms > quick_ms:
            # undecided at once: z3 with the full budget and cvc5 side by side
            race = _Cvc5Race(s, timeout_ms) if use_cvc5 else None
            s = _mk_solver(assumptions, goal, timeout_ms)
            if race is not None:
                race.solver = s
            res = s.check()
            cres = "unknown"
            smt2 = getattr(race, "smt2", "") if race is not None else ""
            if race is not None:
                cres = race.finish(0.0 if res != z3.unknown else timeout_ms / 1000.0 + 2)
            if res != z3.unknown:
                cres = "unknown"  # z3 decided (with a model, if sat): its verdict is used
            if cres == "unsat":
                res = z3.unsat
                r.backend = "z3+cvc5"
            elif cres == "sat":
                # cvc5 says sat but gives us no z3 model: report as failed without witness
                res = z3.sat
                r.backend = "z3+cvc5"
                r.status = "failed"
                r.note = note or "counter-model found by cvc5"
                r.smt2 = smt2[:4000]
                r.ms = (time.time() - t0) * 1000
                return r
        if res == z3.unsat and getattr(ob, "uses_rec", False):
            # Queries over recursive specification functions: z3 was seen to answer `unsat` on a satisfiable query of this
            # kind (sequence theory + recursive definitions; a fresh process with another random seed answers `unknown`,
            # cvc5 cannot read z3's printing of the definitions).  A proof is accepted only if two more runs with other
            # seeds agree; otherwise the obligation is undecided.
            agree = True
            for seed in (7, 99):
                s2 = _mk_solver(assumptions, goal, timeout_ms)
                s2.set("random_seed", seed)
                r2 = s2.check()
                if r2 != z3.unsat:
                    agree = False
                    break
            if not agree:
                status = "undecided"
                r.note = "z3 proves this query over a recursive specification function only for some random seeds (%s)" % note
                continue
        if res == z3.unsat:
            if cross_check and r.backend == "z3":
                # second opinion on a z3 proof: the same query, printed as SMT-LIB, decided by cvc5.  `sat` there is a
                # disagreement between the solvers: the obligation is not counted as proved
                try:
                    cres = run_cvc5(s.to_smt2().replace("(check-sat)", ""), min(timeout_ms, 15000))
                except Exception:
                    cres = "unknown"
                r.cross = r.cross or {"unsat": 0, "unknown": 0, "sat": 0}
                r.cross[cres if cres in ("unsat", "sat") else "unknown"] += 1
                if cres == "sat":
                    status = "undecided"
                    r.note = "solver disagreement: z3 unsat, cvc5 sat (%s)" % note
            continue
        if res == z3.unknown:
            for bound in (3,):
                r2, s2 = bounded_model_search(assumptions, goal, min(timeout_ms, 3000), bound)
                if r2 == z3.sat:
                    res, s = z3.sat, s2
                    r.backend = "z3 (short-sequence model search)"
                    break
        if res == z3.unknown:
            status = "undecided"
            r.note = "solver: %s (%s)" % (s.reason_unknown(), note)
            continue
        # sat
        r.status = "failed"
        r.note = note
        try:
            r.smt2 = s.to_smt2()[:6000]
        except Exception:
            r.smt2 = None
        if extract is not None:
            wits = []
            m = s.model()
            for _ in range(max_models):
                try:
                    w = extract(m, case)
                except Exception as e:  # extraction is best effort
                    w = {"error": "witness extraction failed: %r" % (e,)}
                wits.append(w)
                r.models_tried += 1
                if len(wits) >= max_models:
                    break
                # block the parameter values and ask for another model
                blk = _block(m, case)
                if blk is None:
                    break
                s.add(blk)
                if s.check() != z3.sat:
                    break
                m = s.model()
            r.witness = wits
        r.ms = (time.time() - t0) * 1000
        return r
    r.status = status
    r.ms = (time.time() - t0) * 1000
    return r


def _block(m, case):
    if case is None:
        return None
    entry, env, _ = case
    diffs = []
    for n, v in env.items():
        if v.t is None or isinstance(v.t, tuple):
            continue
        if is_refkind(v.kind):
            continue
        try:
            diffs.append(v.t != m.eval(v.t, model_completion=True))
        except Exception:
            pass
    if not diffs:
        return None
    return z3.Or(diffs)
