"""Discharging obligations: z3 in-process, cvc5 (CLI) on unknown."""
import os
import subprocess
import tempfile
import time

import z3

from .kinds import alts, sort_of, is_refkind


class Result:
    def __init__(self, ob):
        self.name = ob.name
        self.kind = ob.kind
        self.func = ob.func
        self.text = ob.text
        self.expect = ob.expect
        self.status = None  # proved | failed | undecided   (cover: proved == reachable)
        self.backend = "z3"
        self.ms = 0.0
        self.queries = len(ob.queries)
        self.note = ""
        self.witness = None  # python-level description of a counter-model
        self.smt2 = None
        self.models_tried = 0

    def as_dict(self):
        return {k: getattr(self, k) for k in ("name", "kind", "func", "text", "expect", "status", "backend", "ms",
                                               "queries", "note", "witness")}


def _mk_solver(assumptions, goal, timeout_ms):
    s = z3.Solver()
    s.set("timeout", timeout_ms)
    for a in assumptions:
        s.add(a)
    s.add(z3.Not(goal))
    return s


def run_cvc5(smt2, timeout_ms):
    exe = "/usr/bin/cvc5"
    if not os.path.exists(exe):
        return "unknown"
    with tempfile.NamedTemporaryFile("w", suffix=".smt2", delete=False) as f:
        f.write("(set-logic ALL)\n" + smt2 + "\n(check-sat)\n")
        path = f.name
    try:
        p = subprocess.run([exe, "--strings-exp", "--tlimit=%d" % timeout_ms, path], capture_output=True, text=True,
                           timeout=timeout_ms / 1000.0 + 5)
        out = p.stdout.strip().splitlines()
        return out[0] if out else "unknown"
    except Exception:
        return "unknown"
    finally:
        os.unlink(path)


def discharge(ob, timeout_ms=10000, use_cvc5=True, extract=None, max_models=1):
    """-> Result.  `extract(model, case)` turns a z3 model into a python-level witness."""
    r = Result(ob)
    t0 = time.time()
    if ob.expect == "sat":
        # cover: at least one query satisfiable
        status = "failed"
        for assumptions, goal, note, case in ob.queries:
            s = _mk_solver(assumptions, goal, timeout_ms)
            res = s.check()
            if res == z3.sat:
                status = "proved"
                break
            if res == z3.unknown:
                status = "undecided"
        r.status = status
        if status == "failed":
            r.note = "vacuity guard: %s is unsatisfiable" % ob.text
        r.ms = (time.time() - t0) * 1000
        return r
    status = "proved"
    for assumptions, goal, note, case in ob.queries:
        if z3.is_true(goal):
            continue
        s = _mk_solver(assumptions, goal, timeout_ms)
        res = s.check()
        if res == z3.unknown and use_cvc5:
            try:
                smt2 = s.to_smt2()
                smt2 = smt2.replace("(check-sat)", "")
                cres = run_cvc5(smt2, timeout_ms)
            except Exception:
                cres = "unknown"
            if cres == "unsat":
                res = z3.unsat
                r.backend = "z3+cvc5"
            elif cres == "sat":
                # cvc5 says sat but gives us no z3 model: report as failed without witness
                res = z3.sat
                r.backend = "z3+cvc5"
                r.status = "failed"
                r.note = note or "counter-model found by cvc5"
                r.smt2 = smt2[:4000]
                r.ms = (time.time() - t0) * 1000
                return r
        if res == z3.unsat:
            continue
        if res == z3.unknown:
            status = "undecided"
            r.note = "solver: %s (%s)" % (s.reason_unknown(), note)
            continue
        # sat
        r.status = "failed"
        r.note = note
        try:
            r.smt2 = s.to_smt2()[:6000]
        except Exception:
            r.smt2 = None
        if extract is not None:
            wits = []
            m = s.model()
            for _ in range(max_models):
                try:
                    w = extract(m, case)
                except Exception as e:  # extraction is best effort
                    w = {"error": "witness extraction failed: %r" % (e,)}
                wits.append(w)
                r.models_tried += 1
                if len(wits) >= max_models:
                    break
                # block the parameter values and ask for another model
                blk = _block(m, case)
                if blk is None:
                    break
                s.add(blk)
                if s.check() != z3.sat:
                    break
                m = s.model()
            r.witness = wits
        r.ms = (time.time() - t0) * 1000
        return r
    r.status = status
    r.ms = (time.time() - t0) * 1000
    return r


def _block(m, case):
    if case is None:
        return None
    entry, env, _ = case
    diffs = []
    for n, v in env.items():
        if v.t is None or isinstance(v.t, tuple):
            continue
        if is_refkind(v.kind):
            continue
        try:
            diffs.append(v.t != m.eval(v.t, model_completion=True))
        except Exception:
            pass
    if not diffs:
        return None
    return z3.Or(diffs)
