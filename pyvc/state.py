"""Symbolic values, path state and the Boogie-style heap."""
import itertools

import z3

from .kinds import Kind, alts, sort_of, NONE, INT, BOOL, STR, REAL


class Unsupported(Exception):
    """Construct outside the verified subset: the function becomes *undecided*."""


class SpecError(Exception):
    """A contract is ill-formed (engine/spec bug, exit 3)."""


class V:
    __slots__ = ("kind", "t", "aux")

    def __init__(self, kind, t=None, aux=None):
        self.kind = kind
        self.t = t
        self.aux = aux

    def __repr__(self):
        return "V(%s, %s)" % (self.kind, self.t)


VNONE = V(NONE, None)


def vint(x):
    return V(INT, z3.IntVal(x) if isinstance(x, int) else x)


def vbool(x):
    return V(BOOL, z3.BoolVal(x) if isinstance(x, bool) else x)


def vstr(x):
    return V(STR, z3.StringVal(x) if isinstance(x, str) else x)


def vreal(x):
    return V(REAL, z3.RealVal(x) if isinstance(x, (int, float, str)) else x)


_counter = itertools.count()


def fresh_name(prefix):
    return "%s!%d" % (prefix, next(_counter))


def fresh_term(kind, prefix="v"):
    return z3.Const(fresh_name(prefix), sort_of(kind))


class State:
    __slots__ = ("pc", "env", "heap", "alloc", "ghost", "depth", "notes")

    def __init__(self):
        self.pc = ()
        self.env = {}
        self.heap = {}
        self.alloc = None
        self.ghost = {}
        self.depth = 0
        self.notes = ()

    def copy(self):
        s = State()
        s.pc = self.pc
        s.env = dict(self.env)
        s.heap = dict(self.heap)
        s.alloc = self.alloc
        s.ghost = dict(self.ghost)
        s.depth = self.depth
        s.notes = self.notes
        return s

    def assume(self, c):
        """Returns a new state with c added to the path condition."""
        s = self.copy()
        if z3.is_true(c):
            return s
        s.pc = self.pc + (c,)
        return s

    def with_env(self, env):
        s = self.copy()
        s.env = env
        return s


class Out:
    """One outcome of executing a statement / evaluating an expression."""
    __slots__ = ("tag", "st", "val")

    def __init__(self, tag, st, val=None):
        self.tag = tag  # ok | raise | return | break | continue
        self.st = st
        self.val = val

    def __repr__(self):
        return "Out(%s, %r)" % (self.tag, self.val)
