"""AST helpers for frame obligations at module / class granularity (back end "ast frame analysis")."""
import ast

MUTATORS = {"append", "extend", "insert", "pop", "remove", "clear", "sort", "reverse", "update", "setdefault", "popitem",
            "add", "discard", "appendleft", "popleft"}
_BUILDERS = (ast.Call, ast.List, ast.Dict, ast.Set, ast.ListComp, ast.DictComp, ast.SetComp)


def _builds_object(expr):
    return any(isinstance(x, _BUILDERS) for x in ast.walk(expr))


def shared_mutable_state(mi, classes=None):
    """-> list of findings: module-level or class-level objects of module `mi` that some code of the module MUTATES or
    re-binds (a lookup table that is only read is not state), plus `global` / `nonlocal`-free check for module globals.

    mi: frontend.ModuleInfo; classes: restrict the class-level scan to these class names (None = all)"""
    out = []
    tree = mi.tree
    # candidates
    mod_objs = {}
    for node in tree.body:
        tg, val = None, None
        if isinstance(node, ast.Assign):
            tg, val = node.targets, node.value
        elif isinstance(node, ast.AnnAssign) and node.value is not None:
            tg, val = [node.target], node.value
        if tg is None or not _builds_object(val):
            continue
        for t in tg:
            if isinstance(t, ast.Name) and not (t.id.isupper() and isinstance(val, ast.Call) and isinstance(val.func, ast.Attribute)
                                                and val.func.attr == "compile"):
                mod_objs[t.id] = node.lineno
    cls_objs = {}
    for cname, ci in mi.classes.items():
        if classes is not None and cname not in classes:
            continue
        for name, expr in ci.consts.items():
            if _builds_object(expr):
                cls_objs[name] = cname
        for v in sorted(getattr(ci, "classvars", ())):
            out.append("%s.%s is re-assigned through the class" % (cname, v))

    def root(x):
        """('mod', name) / ('cls', name) if the expression is rooted at a candidate object, else None"""
        while isinstance(x, (ast.Subscript, ast.Attribute, ast.Call)):
            if isinstance(x, ast.Attribute) and isinstance(x.value, ast.Name) and x.value.id in ("self", "cls") and x.attr in cls_objs:
                return ("cls", x.attr)
            if isinstance(x, ast.Attribute) and isinstance(x.value, ast.Name) and x.value.id in mi.classes and x.attr in cls_objs:
                return ("cls", x.attr)
            x = x.func if isinstance(x, ast.Call) else x.value
        if isinstance(x, ast.Name) and x.id in mod_objs:
            return ("mod", x.id)
        return None

    for node in ast.walk(tree):
        tgts = []
        if isinstance(node, ast.Assign):
            tgts = node.targets
        elif isinstance(node, (ast.AugAssign, ast.AnnAssign)):
            tgts = [node.target]
        elif isinstance(node, ast.Delete):
            tgts = node.targets
        for t in tgts:
            for e in (t.elts if isinstance(t, (ast.Tuple, ast.List)) else [t]):
                if isinstance(e, (ast.Subscript, ast.Attribute)):
                    r = root(e.value)
                    if r is not None:
                        out.append("line %d stores into the %s-level object %s" % (node.lineno, "module" if r[0] == "mod" else "class", r[1]))
        if isinstance(node, ast.Call) and isinstance(node.func, ast.Attribute) and node.func.attr in MUTATORS:
            r = root(node.func.value)
            if r is not None:
                out.append("line %d calls %s on the %s-level object %s" % (node.lineno, node.func.attr,
                                                                           "module" if r[0] == "mod" else "class", r[1]))
        if isinstance(node, ast.Global):
            out.append("line %d: global %s" % (node.lineno, ", ".join(node.names)))
    return sorted(set(out))
