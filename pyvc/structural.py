"""AST helpers for frame obligations at module / class granularity (back end "ast frame analysis")."""
import ast

MUTATORS = {"append", "extend", "insert", "pop", "remove", "clear", "sort", "reverse", "update", "setdefault", "popitem",
            "add", "discard", "appendleft", "popleft"}
_BUILDERS = (ast.Call, ast.List, ast.Dict, ast.Set, ast.ListComp, ast.DictComp, ast.SetComp)


def _builds_object(expr):
    return any(isinstance(x, _BUILDERS) for x in ast.walk(expr))


def shared_mutable_state(mi, classes=None):
    """-> list of findings: module-level or class-level objects of module `mi` that some code of the module MUTATES or
    re-binds (a lookup table that is only read is not state), plus `global` / `nonlocal`-free check for module globals.

    mi: frontend.ModuleInfo; classes: restrict the class-level scan to these class names (None = all)"""
    out = []
    tree = mi.tree
    # candidates
    mod_objs = {}
    for node in tree.body:
        tg, val = None, None
        if isinstance(node, ast.Assign):
            tg, val = node.targets, node.value
        elif isinstance(node, ast.AnnAssign) and node.value is not None:
            tg, val = [node.target], node.value
        if tg is None or not _builds_object(val):
            continue
        for t in tg:
            if isinstance(t, ast.Name) and not (t.id.isupper() and isinstance(val, ast.Call) and isinstance(val.func, ast.Attribute)
                                                and val.func.attr == "compile"):
                mod_objs[t.id] = node.lineno
    cls_objs = {}
    for cname, ci in mi.classes.items():
        if classes is not None and cname not in classes:
            continue
        for name, expr in ci.consts.items():
            if _builds_object(expr):
                cls_objs[name] = cname
        for v in sorted(getattr(ci, "classvars", ())):
            out.append("%s.%s is re-assigned through the class" % (cname, v))

    def root(x):
        """('mod', name) / ('cls', name) if the expression is rooted at a candidate object, else None"""
        while isinstance(x, (ast.Subscript, ast.Attribute, ast.Call)):
            if isinstance(x, ast.Attribute) and isinstance(x.value, ast.Name) and x.value.id in ("self", "cls") and x.attr in cls_objs:
                return ("cls", x.attr)
            if isinstance(x, ast.Attribute) and isinstance(x.value, ast.Name) and x.value.id in mi.classes and x.attr in cls_objs:
                return ("cls", x.attr)
            x = x.func if isinstance(x, ast.Call) else x.value
        if isinstance(x, ast.Name) and x.id in mod_objs:
            return ("mod", x.id)
        return None

    for node in ast.walk(tree):
        tgts = []
        if isinstance(node, ast.Assign):
            tgts = node.targets
        elif isinstance(node, (ast.AugAssign, ast.AnnAssign)):
            tgts = [node.target]
        elif isinstance(node, ast.Delete):
            tgts = node.targets
        for t in tgts:
            for e in (t.elts if isinstance(t, (ast.Tuple, ast.List)) else [t]):
                if isinstance(e, (ast.Subscript, ast.Attribute)):
                    r = root(e.value)
                    if r is not None:
                        out.append("line %d stores into the %s-level object %s" % (node.lineno, "module" if r[0] == "mod" else "class", r[1]))
        if isinstance(node, ast.Call) and isinstance(node.func, ast.Attribute) and node.func.attr in MUTATORS:
            r = root(node.func.value)
            if r is not None:
                out.append("line %d calls %s on the %s-level object %s" % (node.lineno, node.func.attr,
                                                                           "module" if r[0] == "mod" else "class", r[1]))
        if isinstance(node, ast.Global):
            out.append("line %d: global %s" % (node.lineno, ", ".join(node.names)))
    return sorted(set(out))


# ------------------------------------------------------------------------------------------------ writes to `self`
SELF_MUTATORS = MUTATORS | {"add", "discard", "setdefault", "popitem", "sort", "reverse", "__setitem__", "__delitem__", "appendleft"} \
    if isinstance(MUTATORS, (set, frozenset)) else set(MUTATORS) | {"add", "discard", "setdefault", "popitem", "sort", "reverse"}


def self_writes(fn):
    """-> list of findings: statements of method `fn` that store into the receiver - an attribute of `self`, an item or
    attribute of something reached from `self`, a mutating call on such an object, setattr(self, ...), self.__dict__.
    (Objects reached through a call result are not followed: `self.config.dispatcher.dispatch(...)` is a call, not a store.)"""
    out = []
    args = fn.args.args
    if not args:
        return out
    me = args[0].arg

    def rooted(x):
        """the expression is `self` or an attribute / item chain starting at it (no call in between)"""
        while isinstance(x, (ast.Attribute, ast.Subscript)):
            x = x.value
        return isinstance(x, ast.Name) and x.id == me

    aliases = set()
    for n in ast.walk(fn):
        if isinstance(n, ast.Assign) and len(n.targets) == 1 and isinstance(n.targets[0], ast.Name) \
                and isinstance(n.value, (ast.Attribute, ast.Subscript)) and rooted(n.value):
            aliases.add(n.targets[0].id)
    for n in ast.walk(fn):
        tg = []
        if isinstance(n, (ast.Assign, ast.Delete)):
            tg = n.targets
        elif isinstance(n, (ast.AugAssign, ast.AnnAssign)):
            tg = [n.target]
        for t in tg:
            for e in (t.elts if isinstance(t, (ast.Tuple, ast.List)) else [t]):
                if isinstance(e, (ast.Attribute, ast.Subscript)) and rooted(e.value):
                    out.append("line %d stores into %s" % (n.lineno, ast.unparse(e)))
                elif isinstance(e, ast.Subscript) and isinstance(e.value, ast.Name) and e.value.id in aliases:
                    out.append("line %d stores into %s (an object of the receiver)" % (n.lineno, ast.unparse(e)))
        if isinstance(n, ast.Call):
            f = n.func
            if isinstance(f, ast.Attribute) and f.attr in SELF_MUTATORS and (
                    (isinstance(f.value, (ast.Attribute, ast.Subscript)) and rooted(f.value))
                    or (isinstance(f.value, ast.Name) and f.value.id in aliases)):
                out.append("line %d calls %s on %s" % (n.lineno, f.attr, ast.unparse(f.value)))
            if isinstance(f, ast.Name) and f.id in ("setattr", "delattr") and n.args and isinstance(n.args[0], ast.Name) and n.args[0].id == me:
                out.append("line %d calls %s on the receiver" % (n.lineno, f.id))
        if isinstance(n, ast.Attribute) and n.attr == "__dict__" and isinstance(n.value, ast.Name) and n.value.id == me:
            out.append("line %d uses the attribute dictionary of the receiver" % n.lineno)
    return out
