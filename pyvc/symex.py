"""Path-wise symbolic executor for a subset of Python over z3 terms.

See DESIGN.md section 3.  One instance verifies one function (`verify`) and
returns named obligations; callees are used through their contracts or, for
small helpers without a contract, inlined ("verified with caller").
"""
import ast
import os
import re as _re

import z3

from . import frontend
from .contracts import REG
from .kinds import (Kind, parse_kind, alts, sort_of, is_refkind, union, opt, ref,
                    INT, BOOL, REAL, STR, NONE, ANY, FN, FLAGS, NBITS)
from .state import (State, V, Out, VNONE, vint, vbool, vstr, vreal, fresh_name, fresh_term,
                    Unsupported, SpecError)

BUILTIN_EXC = {
    "BaseException": None,
    "Exception": "BaseException",
    "KeyboardInterrupt": "BaseException",
    "SystemExit": "BaseException",
    "GeneratorExit": "BaseException",
    "StopIteration": "Exception",
    "ArithmeticError": "Exception",
    "ZeroDivisionError": "ArithmeticError",
    "OverflowError": "ArithmeticError",
    "AssertionError": "Exception",
    "AttributeError": "Exception",
    "EOFError": "Exception",
    "LookupError": "Exception",
    "IndexError": "LookupError",
    "KeyError": "LookupError",
    "NameError": "Exception",
    "OSError": "Exception",
    "RuntimeError": "Exception",
    "NotImplementedError": "RuntimeError",
    "RecursionError": "RuntimeError",
    "TypeError": "Exception",
    "ValueError": "Exception",
    "UnicodeError": "ValueError",
    "SyntaxError": "Exception",
    "IndentationError": "SyntaxError",
    "TabError": "IndentationError",
    "TokenError": "Exception",  # tokenize.TokenError
}

MAX_DEPTH = 14
MAX_PATHS = 60000


class Obligation:
    def __init__(self, name, kind, func, text="", lineno=None):
        self.name = name
        self.kind = kind
        self.func = func
        self.text = text
        self.lineno = lineno
        self.queries = []  # (assumptions tuple, goal, note, case)
        self.expect = "unsat"  # 'sat' for cover obligations
        self.engine = None

    def add(self, assumptions, goal, note=""):
        case = getattr(self.engine, "current_case", None) if self.engine is not None else None
        ax = tuple(self.engine.global_axioms) if self.engine is not None else ()
        self.queries.append((tuple(assumptions) + ax, goal, note, case))


class Frame:
    def __init__(self, mi, ci, node, qual, contract=None):
        self.mi = mi
        self.ci = ci
        self.node = node
        self.qual = qual
        self.contract = contract
        self.old = None  # entry State (for old())
        self.params = {}  # entry values of parameters
        self.loop_ordinal = 0
        self.entry_measure = None
        self.in_old = False


class Engine:
    def __init__(self, program=None, reg=None, prune_ms=400):
        self.P = program or frontend.Program()
        self.R = reg or REG
        self.prune_ms = prune_ms
        self.frames = []
        self.obls = {}
        self.base_arrays = {}
        self.ufs = {}
        self.recfns = {}
        self.spec_mode = 0
        self.paths = 0
        self.trusted = set()  # assumed contracts / abstractions / models actually used
        self.inlined = set()
        self.prop = "?"
        self.global_axioms = []
        self.current_case = None
        self._solver = z3.Solver()
        self._solver.set("timeout", prune_ms)

    # ------------------------------------------------------------------ utils
    def obl(self, name, kind, text="", lineno=None):
        if name not in self.obls:
            f = self.frames[0].qual if self.frames else "?"
            self.obls[name] = Obligation(name, kind, f, text, lineno)
            self.obls[name].engine = self
        return self.obls[name]

    def feasible(self, st, extra=None):
        s = self._solver
        s.push()
        try:
            for c in st.pc:
                s.add(c)
            if extra is not None:
                s.add(extra)
            r = s.check()
        finally:
            s.pop()
        if r == z3.unsat and self._quantified(st.pc, extra):
            # z3's incremental mode (push/pop) answered `unsat` on satisfiable sets of quantified facts over sequences
            # (seen on add_command_option: four length facts in the core, a fresh solver says sat).  Pruning a feasible
            # path would silently drop its obligations, so an `unsat` over quantified facts is confirmed by a fresh,
            # non-incremental solver; only then is the path pruned.
            f = z3.Solver()
            f.set("timeout", 20000)
            for a in self.global_axioms:
                f.add(a)
            for c in st.pc:
                f.add(c)
            if extra is not None:
                f.add(extra)
            r2 = f.check()
            self.__dict__["n_confirm"] = self.__dict__.get("n_confirm", 0) + 1
            if r2 != z3.unsat:
                self.__dict__["n_overruled"] = self.__dict__.get("n_overruled", 0) + 1
                self.trusted.add("z3 incremental mode answered unsat on a satisfiable path condition with quantifiers "
                                 "(overruled by a fresh solver; the path was kept)")
            return r2 != z3.unsat
        return r != z3.unsat

    def _quantified(self, pc, extra=None):
        """quantified facts may be around (set by the quantifier / same_except builders of the specification layer)"""
        return bool(self.__dict__.get("uses_quantifiers"))

    def fork(self, st, cond):
        """(state where cond, state where not cond); None if infeasible."""
        cond = z3.simplify(cond)
        if z3.is_true(cond):
            return st, None
        if z3.is_false(cond):
            return None, st
        a = st.assume(cond)
        b = st.assume(z3.Not(cond))
        if not self.spec_mode:
            # (specifications are evaluated without pruning; only a branch that could raise is checked)
            if not self.feasible(a):
                a = None
            if not self.feasible(b):
                b = None
        self.paths += 1
        if self.paths > MAX_PATHS:
            raise Unsupported("path budget exceeded (%d)" % MAX_PATHS)
        return a, b

    @property
    def frame(self):
        return self.frames[-1]

    def qual_of(self, mi, ci, node):
        return "%s:%s%s" % (mi.name, (ci.name + ".") if ci else "", node.name)

    # ------------------------------------------------------------------ heap
    def arr(self, st, key, dom, rng):
        a = st.heap.get(key)
        if a is None:
            a = self.base_arrays.get(key)
            if a is None:
                a = z3.Array(key.replace("|", "/") + "@0", dom, rng)  # no '|' in SMT-LIB symbols (cvc5)
                self.base_arrays[key] = a
        return a

    def field_keys(self, fname, kind):
        ks = alts(kind)
        return ks

    def _fkey(self, fname, k):
        return "F|%s|%s" % (fname, k)

    def read_field(self, st, obj, fname, kind):
        """-> list of (state, V); forks over the alternatives of a union kind."""
        ks = alts(kind)
        r = obj.t
        if len(ks) == 1:
            return [(st, self._read_alt(st, r, fname, ks[0]))]
        tag = z3.Select(self.arr(st, "T|%s|%s" % (fname, kind), z3.IntSort(), z3.IntSort()), r)
        out = []
        rest = st
        for i, k in enumerate(ks):
            if rest is None:
                break
            if i == len(ks) - 1:
                # the last alternative is the "else" of the tag (any other tag value): the forks partition
                a = rest
                rest = None
            else:
                a, rest = self.fork(rest, tag == i)
            if a is not None:
                out.append((a, self._read_alt(a, r, fname, k)))
        return out

    def field_keys(self, fname, k):
        """heap arrays (key, range sort) that hold a field of (non-union) kind k"""
        if k.tag == "none":
            return []
        if k.tag == "flags":
            return [("F|%s|flags|b%d" % (fname, i), z3.BoolSort()) for i in range(NBITS)] + [("F|%s|flags|hi" % fname, z3.IntSort())]
        return [(self._fkey(fname, k), sort_of(k))]

    def flags_value(self, bits, hi):
        term = hi * (1 << NBITS) + z3.Sum([z3.If(b, z3.IntVal(1 << i), z3.IntVal(0)) for i, b in enumerate(bits)])
        return V(INT, term, aux={"bits": list(bits), "hi": hi})

    def fresh_flags(self, prefix="fl"):
        bits = [z3.Bool(fresh_name("%s_b%d" % (prefix, i))) for i in range(NBITS)]
        hi = z3.Int(fresh_name(prefix + "_hi"))
        return self.flags_value(bits, hi)

    def _read_alt(self, st, r, fname, k):
        if k.tag == "none":
            return VNONE
        if k.tag == "flags":
            keys = self.field_keys(fname, k)
            bits = [z3.Select(self.arr(st, key, z3.IntSort(), srt), r) for key, srt in keys[:NBITS]]
            hi = z3.Select(self.arr(st, keys[NBITS][0], z3.IntSort(), z3.IntSort()), r)
            return self.flags_value(bits, hi)
        a = self.arr(st, self._fkey(fname, k), z3.IntSort(), sort_of(k))
        return V(k, z3.Select(a, r))

    def _compatible(self, have, want):
        if have == want:
            return True
        if want.tag == "flags" and have.tag in ("int",):
            return True
        if have.tag == "ref" and want.tag == "ref":
            return want[1] == "object" or self.P.is_subclass(have[1], want[1]) or self._shape_sub(have[1], want[1])
        if have.tag == "exc" and want.tag in ("exc",):
            return True
        return False

    def _shape_sub(self, c, base):
        seen = set()
        while c and c not in seen:
            if c == base:
                return True
            seen.add(c)
            sh = self.R.shapes.get(c)
            c = sh.base if sh else None
        return False

    def write_field(self, st, obj, fname, kind, val):
        ks = alts(kind)
        idx = None
        for i, k in enumerate(ks):
            if self._compatible(val.kind, k):
                idx = i
                break
        if idx is None:
            # int stored into a real field, bool into int
            for i, k in enumerate(ks):
                if k.tag == "real" and val.kind.tag in ("int", "bool"):
                    val = self.to_real(val)
                    idx = i
                    break
                if k.tag == "int" and val.kind.tag == "bool":
                    val = V(INT, z3.If(val.t, 1, 0))
                    idx = i
                    break
        if idx is None:
            raise Unsupported("value of kind %s stored in field %s declared %s" % (val.kind, fname, kind))
        st = st.copy()
        r = obj.t
        if len(ks) > 1:
            tk = "T|%s|%s" % (fname, kind)
            st.heap[tk] = z3.Store(self.arr(st, tk, z3.IntSort(), z3.IntSort()), r, z3.IntVal(idx))
        k = ks[idx]
        if k.tag == "flags":
            val = self.to_int(val) if val.kind.tag == "bool" else val
            if not (val.aux and "bits" in val.aux):
                # every integer has exactly one decomposition into NBITS bits and a high part
                fv = self.fresh_flags("dec")
                st.pc = st.pc + (fv.t == val.t,)
                val = fv
            keys = self.field_keys(fname, k)
            for (key, srt), b in zip(keys[:NBITS], val.aux["bits"]):
                st.heap[key] = z3.Store(self.arr(st, key, z3.IntSort(), srt), r, b)
            hk = keys[NBITS][0]
            st.heap[hk] = z3.Store(self.arr(st, hk, z3.IntSort(), z3.IntSort()), r, val.aux["hi"])
        elif k.tag != "none":
            fk = self._fkey(fname, k)
            st.heap[fk] = z3.Store(self.arr(st, fk, z3.IntSort(), sort_of(k)), r, val.t)
        return st

    def new_ref(self, st):
        st = st.copy()
        r = z3.simplify(st.alloc + 1)
        st.alloc = r
        return st, r

    def assume_valid_ref(self, st, v):
        if is_refkind(v.kind) and v.t is not None and not z3.is_int_value(v.t):
            c = z3.And(v.t >= 1, v.t <= st.alloc)
            tc = self.type_constraint(v)
            if tc is not None:
                c = z3.And(c, tc)
            if self.spec_mode:
                # inside specifications the fact "this reference is valid and well-typed" is not a branch
                # condition: it is recorded as a global fact about the (closed) term, so that the forks of a
                # union read still partition the state space when they are merged
                qa = self.__dict__.get("quant_axioms")
                if qa:
                    # ... unless the term may mention the bound variable of an enclosing quantifier: then the fact
                    # is recorded for that quantifier -- under the guards in force where the value was read -- and
                    # becomes a quantified well-typedness axiom (see _quant), never a fact about a free constant
                    n0 = qa[-1]["n0"]
                    g = list(st.pc[n0:])
                    if os.environ.get("PYVC_QUANT_WT", "drop") == "axiom":
                        qa[-1]["items"].append(z3.Implies(z3.And(g), c) if g else c)
                    return st
                self.add_axiom(c)
                return st
            return st.assume(c)
        return st

    def add_axiom(self, c):
        ids = self.__dict__.setdefault("_axiom_ids", set())
        i = c.get_id()
        if i not in ids:
            ids.add(i)
            self.global_axioms.append(c)
            self._solver.add(c)  # permanently (outside push/pop): true of every state

    # dynamic class of an object: cls_of(ref) ranges over the declared subclasses of the static class
    def class_id(self, name):
        ids = self.__dict__.setdefault("_class_ids", {})
        if name not in ids:
            ids[name] = len(ids) + 1
        return ids[name]

    def subclasses(self, cname):
        cache = self.__dict__.setdefault("_subcls", {})
        if cname not in cache:
            out = [cname]
            sh0 = self.R.shapes.get(cname)
            for d in sorted(self.R.shapes) if not (sh0 is not None and sh0.final) else []:
                if d != cname and (self._shape_sub(d, cname) or self.P.is_subclass(d, cname)):
                    out.append(d)
            cache[cname] = out
        return cache[cname]

    def cls_of(self, t):
        return self.uf_decl("cls_of", z3.IntSort(), z3.IntSort())(t)

    def type_constraint(self, v):
        if v.kind.tag != "ref" or v.kind[1] == "object" or v.t is None:
            return None
        subs = self.subclasses(v.kind[1])
        return z3.Or([self.cls_of(v.t) == self.class_id(d) for d in subs])

    def new_object(self, st, cname):
        st, r = self.new_ref(st)
        st = st.assume(self.cls_of(r) == self.class_id(cname))
        return st, V(Kind("ref", cname), r)

    # lists ---------------------------------------------------------------
    def lkey(self, k):
        return "L|%s" % (k,)

    def list_seq(self, st, lv):
        k = lv.kind[1]
        return z3.Select(self.arr(st, self.lkey(k), z3.IntSort(), z3.SeqSort(sort_of(k))), lv.t)

    def list_set_seq(self, st, lv, seq):
        k = lv.kind[1]
        st = st.copy()
        key = self.lkey(k)
        st.heap[key] = z3.Store(self.arr(st, key, z3.IntSort(), z3.SeqSort(sort_of(k))), lv.t, seq)
        return st

    def new_list(self, st, k, seq):
        st, r = self.new_ref(st)
        lv = V(Kind("list", k), r)
        st = self.list_set_seq(st, lv, seq)
        return st, lv

    def elem(self, k, term):
        return V(k, term) if k.tag != "none" else VNONE

    def seq_at(self, seq, i, k):
        if k.tag == "str" and False:
            return z3.SubString(seq, i, 1)
        return seq[i]

    # dicts ---------------------------------------------------------------
    def dkeys(self, st, dv):
        k = dv.kind[1]
        return z3.Select(self.arr(st, "DK|%s|%s" % (k, dv.kind[2]), z3.IntSort(), z3.ArraySort(sort_of(k), z3.BoolSort())), dv.t)

    def dvals_key(self, dv, vk):
        return "DV|%s|%s" % (dv.kind[1], vk)

    def dord(self, st, dv):
        k = dv.kind[1]
        return z3.Select(self.arr(st, "DO|%s|%s" % (k, dv.kind[2]), z3.IntSort(), z3.SeqSort(sort_of(k))), dv.t)

    def dict_has(self, st, dv, key):
        return z3.Select(self.dkeys(st, dv), key.t)

    def dict_get(self, st, dv, key):
        """value(s) at key, forking over value-kind alternatives; assumes key present."""
        vkind = dv.kind[2]
        ks = alts(vkind)
        K = sort_of(dv.kind[1])
        if len(ks) == 1:
            a = z3.Select(self.arr(st, self.dvals_key(dv, ks[0]), z3.IntSort(), z3.ArraySort(K, sort_of(ks[0]))), dv.t)
            v = self.elem(ks[0], z3.Select(a, key.t))
            st2 = self.assume_valid_ref(st, v)
            return [(st2, v)]
        tagarr = z3.Select(self.arr(st, "DT|%s|%s" % (dv.kind[1], vkind), z3.IntSort(), z3.ArraySort(K, z3.IntSort())), dv.t)
        tag = z3.Select(tagarr, key.t)
        out = []
        rest = st
        for i, k in enumerate(ks):
            if rest is None:
                break
            if i == len(ks) - 1:
                a = rest
                rest = None
            else:
                a, rest = self.fork(rest, tag == i)
            if a is not None:
                if k.tag == "none":
                    out.append((a, VNONE))
                else:
                    arr = z3.Select(self.arr(a, self.dvals_key(dv, k), z3.IntSort(), z3.ArraySort(K, sort_of(k))), dv.t)
                    v = V(k, z3.Select(arr, key.t))
                    out.append((self.assume_valid_ref(a, v), v))
        return out

    def dict_set(self, st, dv, key, val):
        vkind = dv.kind[2]
        ks = alts(vkind)
        K = sort_of(dv.kind[1])
        idx = None
        for i, k in enumerate(ks):
            if self._compatible(val.kind, k):
                idx = i
                break
        if idx is None:
            raise Unsupported("dict value of kind %s stored in %s" % (val.kind, dv.kind))
        st = st.copy()
        kk = "DK|%s|%s" % (dv.kind[1], dv.kind[2])
        keys_all = self.arr(st, kk, z3.IntSort(), z3.ArraySort(K, z3.BoolSort()))
        oldkeys = z3.Select(keys_all, dv.t)
        st.heap[kk] = z3.Store(keys_all, dv.t, z3.Store(oldkeys, key.t, z3.BoolVal(True)))
        if len(ks) > 1:
            tk = "DT|%s|%s" % (dv.kind[1], vkind)
            tall = self.arr(st, tk, z3.IntSort(), z3.ArraySort(K, z3.IntSort()))
            st.heap[tk] = z3.Store(tall, dv.t, z3.Store(z3.Select(tall, dv.t), key.t, z3.IntVal(idx)))
        k = ks[idx]
        if k.tag != "none":
            vk = self.dvals_key(dv, k)
            vall = self.arr(st, vk, z3.IntSort(), z3.ArraySort(K, sort_of(k)))
            st.heap[vk] = z3.Store(vall, dv.t, z3.Store(z3.Select(vall, dv.t), key.t, val.t))
        if dv.kind.tag == "odict":
            ok = "DO|%s|%s" % (dv.kind[1], dv.kind[2])
            oall = self.arr(st, ok, z3.IntSort(), z3.SeqSort(K))
            oseq = z3.Select(oall, dv.t)
            st.heap[ok] = z3.Store(oall, dv.t, z3.If(z3.Select(oldkeys, key.t), oseq, z3.Concat(oseq, z3.Unit(key.t))))
        return st

    def dict_del(self, st, dv, key):
        K = sort_of(dv.kind[1])
        st = st.copy()
        kk = "DK|%s|%s" % (dv.kind[1], dv.kind[2])
        keys_all = self.arr(st, kk, z3.IntSort(), z3.ArraySort(K, z3.BoolSort()))
        st.heap[kk] = z3.Store(keys_all, dv.t, z3.Store(z3.Select(keys_all, dv.t), key.t, z3.BoolVal(False)))
        if dv.kind.tag == "odict":
            raise Unsupported("del on ordered dict")
        return st

    def new_dict(self, st, kind):
        st, r = self.new_ref(st)
        dv = V(kind, r)
        K = sort_of(kind[1])
        st = st.copy()
        kk = "DK|%s|%s" % (kind[1], kind[2])
        keys_all = self.arr(st, kk, z3.IntSort(), z3.ArraySort(K, z3.BoolSort()))
        st.heap[kk] = z3.Store(keys_all, r, z3.K(K, z3.BoolVal(False)))
        if kind.tag == "odict":
            ok = "DO|%s|%s" % (kind[1], kind[2])
            oall = self.arr(st, ok, z3.IntSort(), z3.SeqSort(K))
            st.heap[ok] = z3.Store(oall, r, z3.Empty(z3.SeqSort(K)))
        return st, dv

    def dict_empty_cond(self, st, dv):
        K = sort_of(dv.kind[1])
        return self.dkeys(st, dv) == z3.K(K, z3.BoolVal(False))

    # ------------------------------------------------------------------ values
    def to_real(self, v):
        if v.kind.tag == "real":
            return v
        if v.kind.tag == "int":
            return V(REAL, z3.ToReal(v.t))
        if v.kind.tag == "bool":
            return V(REAL, z3.If(v.t, z3.RealVal(1), z3.RealVal(0)))
        raise Unsupported("to_real of %s" % (v.kind,))

    def to_int(self, v):
        if v.kind.tag == "int":
            return v
        if v.kind.tag == "bool":
            return V(INT, z3.If(v.t, z3.IntVal(1), z3.IntVal(0)))
        raise Unsupported("to_int of %s" % (v.kind,))

    def truthy(self, st, v):
        """z3 Bool for the truth value of v (no user __bool__ here; see truthy_outs)."""
        t = v.kind.tag
        if t == "bool":
            return v.t
        if t == "int":
            return v.t != 0
        if t == "real":
            return v.t != 0
        if t == "str":
            return z3.Length(v.t) > 0
        if t == "none":
            return z3.BoolVal(False)
        if t == "list":
            return z3.Length(self.list_seq(st, v)) > 0
        if t == "seq":
            return z3.Length(v.t) > 0
        if t in ("dict", "odict"):
            return z3.Not(self.dict_empty_cond(st, v))
        if t == "tuple":
            return z3.BoolVal(len(v.t) > 0)
        if t in ("ref", "fn", "exc", "iter", "type", "module"):
            return z3.BoolVal(True)
        raise Unsupported("truthiness of %s" % (v.kind,))

    def truthy_outs(self, st, v):
        """list of (state, z3 Bool) -- refs with __len__/__bool__ are dispatched."""
        if v.kind.tag == "ref":
            for m in ("__bool__", "__len__"):
                ci, fn = (None, None)
                try:
                    ci, fn = self.P.find_method(v.kind[1], m)
                except frontend.MissingTarget:
                    pass
                c = self.R.method_contract(v.kind[1], m, self.P)
                if fn is not None or c is not None:
                    outs = self.call_method(st, v, m, [], {})
                    res = []
                    for o in outs:
                        if o.tag != "ok":
                            raise Unsupported("exception in %s" % m)
                        res.append((o.st, self.truthy(o.st, o.val)))
                    return res
        return [(st, self.truthy(st, v))]

    def py_eq(self, st, a, b):
        """z3 Bool for a == b (Python semantics for the supported kinds)."""
        ta, tb = a.kind.tag, b.kind.tag
        if ta == "none" or tb == "none":
            return z3.BoolVal(ta == tb)
        num = ("int", "bool", "real")
        if ta in num and tb in num:
            if ta == "real" or tb == "real":
                return self.to_real(a).t == self.to_real(b).t
            if a.aux and b.aux and "bits" in a.aux and "bits" in b.aux:
                # two flag words are equal iff their bit views agree (unique decomposition)
                return z3.And([x == y for x, y in zip(a.aux["bits"], b.aux["bits"])] + [a.aux["hi"] == b.aux["hi"]])
            if ta == "bool" and tb == "bool":
                return a.t == b.t
            return self.to_int(a).t == self.to_int(b).t
        if ta != tb:
            if {ta, tb} <= {"list", "seq"}:
                sa = self.list_seq(st, a) if ta == "list" else a.t
                sb = self.list_seq(st, b) if tb == "list" else b.t
                if a.kind[1] != b.kind[1]:
                    return z3.BoolVal(False) if False else self._unsup("compare sequences of different element kinds")
                return sa == sb
            return z3.BoolVal(False)
        if ta == "str":
            return a.t == b.t
        if ta == "list":
            if a.kind[1] != b.kind[1]:
                # lists of different element kinds are equal only when both empty
                return z3.And(z3.Length(self.list_seq(st, a)) == 0, z3.Length(self.list_seq(st, b)) == 0)
            if is_refkind(a.kind[1]):
                # element-wise == on objects would dispatch __eq__; identity is the default
                return self.list_seq(st, a) == self.list_seq(st, b)
            return self.list_seq(st, a) == self.list_seq(st, b)
        if ta == "seq":
            return a.t == b.t
        if ta in ("ref", "fn", "exc", "iter"):
            return a.t == b.t
        if ta == "tuple":
            if len(a.t) != len(b.t):
                return z3.BoolVal(False)
            return z3.And([self.py_eq(st, x, y) for x, y in zip(a.t, b.t)] + [z3.BoolVal(True)])
        if ta in ("dict", "odict"):
            raise Unsupported("dict equality")
        if ta == "type":
            return z3.BoolVal(a.t == b.t)
        raise Unsupported("equality of %s" % (a.kind,))

    def _unsup(self, msg):
        raise Unsupported(msg)

    def py_is(self, st, a, b):
        ta, tb = a.kind.tag, b.kind.tag
        if ta == "none" or tb == "none":
            return z3.BoolVal(ta == tb)
        if ta == "bool" and tb == "bool":
            return a.t == b.t
        if ta != tb:
            return z3.BoolVal(False)
        if is_refkind(a.kind):
            return a.t == b.t
        raise Unsupported("'is' on %s" % (a.kind,))

    def fresh(self, kind, prefix="v", st=None):
        """fresh value of a non-union kind"""
        if kind.tag == "none":
            return VNONE
        if kind.tag == "tuple":
            return V(kind, tuple(self.fresh(k, prefix) for k in kind[1:]))
        if kind.tag == "flags":
            return self.fresh_flags(prefix)
        return V(kind, fresh_term(kind, prefix))

    # ------------------------------------------------------------------ names
    def exc_parent(self, name):
        if name in BUILTIN_EXC:
            return BUILTIN_EXC[name]
        if name == "object":
            return None
        try:
            ci = self.P.find_class(name)
        except frontend.MissingTarget:
            return None
        for b in ci.bases:
            return b
        return None

    def exc_is(self, name, base):
        seen = 0
        while name is not None and seen < 30:
            if name == base:
                return True
            name = self.exc_parent(name)
            seen += 1
        return False

    def is_exc_class(self, name):
        if name in BUILTIN_EXC:
            return True
        try:
            ci = self.P.find_class(name)
        except frontend.MissingTarget:
            return False
        return self.exc_is(name, "BaseException")

    def mk_exc(self, st, clsname, args=()):
        st, r = self.new_ref(st)
        return st, V(Kind("exc", clsname), r, aux={"args": list(args)})

    def raise_(self, st, clsname, why=""):
        st, e = self.mk_exc(st, clsname)
        e.aux["why"] = why
        return Out("raise", st, e)

    # ------------------------------------------------------------------ expressions
    def eval(self, node, st):
        m = getattr(self, "e_" + node.__class__.__name__, None)
        if m is None:
            raise Unsupported("expression %s at line %s" % (node.__class__.__name__, getattr(node, "lineno", "?")))
        ab = self._abstraction(node)
        if ab is not None:
            return ab(st)
        if self.spec_mode:
            # an operation that is ill-kinded on one alternative of a union is legal in a specification as long as
            # that alternative is excluded by a guard: it becomes a raise outcome, whose feasibility is checked
            # when the forks are merged
            try:
                return m(node, st)
            except Unsupported as e:
                return [self.raise_(st, "TypeError", "ill-kinded in a specification: %s" % e)]
        return m(node, st)

    def _abstraction(self, node):
        if not self.frames or self.spec_mode:
            return None
        abss = getattr(self.R, "abstractions", {}).get(self.frame.qual)
        if not abss:
            return None
        try:
            src = ast.unparse(node)
        except Exception:
            return None
        for ab in abss:
            pat, kind, note = ab[0], ab[1], ab[2]
            if pat.endswith("(*") and src.startswith(pat[:-1]):
                pat = src  # a call pattern `f(*`: every call of f in this function, whatever its arguments
            if src == pat and len(ab) > 3:
                # the expression is SOME function of the listed arguments (an uninterpreted function the contracts can name)
                ufname, argsrc = ab[3]
                self.trusted.add("abstraction in %s: `%s` is %s(%s), an uninterpreted function (%s)" % (
                    self.frame.qual, pat, ufname, ", ".join(argsrc), note))

                def g(st, ufname=ufname, argsrc=argsrc):
                    from . import calls
                    def go(i, s, acc):
                        if i == len(argsrc):
                            return calls.call_spec(self, s, ufname, acc, {})
                        return self.bind(self.eval(ast.parse(argsrc[i], mode="eval").body, s), lambda s2, v: go(i + 1, s2, acc + [v]))
                    return go(0, st, [])
                return g
            if src == pat:
                self.trusted.add("abstraction in %s: `%s` is an arbitrary %s (%s)" % (self.frame.qual, pat, kind, note))
                k = parse_kind(kind)

                def f(st, k=k):
                    outs = []
                    for a in alts(k):
                        v = self.fresh(a, "abs")
                        outs.append(Out("ok", self.assume_valid_fresh(st, v), v))
                    if len(outs) > 1:
                        raise Unsupported("abstraction with union kind")
                    return outs
                return f
        return None

    def assume_valid_fresh(self, st, v):
        return self.assume_valid_ref(st, v)

    def bind(self, outs, f):
        res = []
        for o in outs:
            if o.tag != "ok":
                res.append(o)
            elif self.spec_mode:
                try:
                    res.extend(f(o.st, o.val))
                except Unsupported as e:
                    # (see eval) -- here the state is the one of this fork
                    res.append(self.raise_(o.st, "TypeError", "ill-kinded in a specification: %s" % e))
            else:
                res.extend(f(o.st, o.val))
        return res

    def eval_seq(self, nodes, st, k):
        """evaluate nodes left to right, then k(st, [vals]) -> outs"""
        def go(i, st, acc):
            if i == len(nodes):
                return k(st, acc)
            return self.bind(self.eval(nodes[i], st), lambda s, v: go(i + 1, s, acc + [v]))
        return go(0, st, [])

    def e_Constant(self, node, st):
        c = node.value
        if c is None:
            return [Out("ok", st, VNONE)]
        if isinstance(c, bool):
            return [Out("ok", st, vbool(c))]
        if isinstance(c, int):
            return [Out("ok", st, vint(c))]
        if isinstance(c, float):
            return [Out("ok", st, V(REAL, z3.RealVal(repr(c))))]
        if isinstance(c, str):
            return [Out("ok", st, vstr(c))]
        raise Unsupported("constant %r" % (c,))

    def e_Name(self, node, st):
        n = node.id
        if n in st.env:
            return [Out("ok", st, st.env[n])]
        v = self.lookup_global(n, st)
        if v is None:
            raise Unsupported("name %s" % n)
        return [Out("ok", st, v)]

    def lookup_global(self, n, st):
        if n in ("True", "False", "None"):
            return {"True": vbool(True), "False": vbool(False), "None": VNONE}[n]
        fr = self.frame
        if fr.mi is not None:
            mi = fr.mi
            if n in mi.consts:
                return self.const_value(mi, mi.consts[n], st)
            if n in mi.classes:
                return V(Kind("type"), n)
            if n in mi.functions:
                return V(FN, ("modfn", mi.name, n))
            if n in mi.imports:
                tgt, attr = mi.imports[n]
                if tgt and tgt.startswith("clikit"):
                    return self.import_value(tgt, attr or n, st)
                if attr is None:
                    return V(Kind("module"), tgt)
                return V(FN, ("ext", tgt, attr))
        if n in BUILTIN_EXC or n in ("int", "str", "bool", "float", "list", "dict", "set", "tuple", "object", "type", "bytes"):
            return V(Kind("type"), n)
        if n in ("basestring", "unicode"):
            return V(Kind("type"), "str")
        if n == "OrderedDict":
            return V(Kind("type"), "OrderedDict")
        if n in _BUILTIN_FUNCS:
            return V(FN, ("builtin", n))
        if n in self.R.specfns or n in self.R.ufs:
            return V(FN, ("spec", n))
        if n == "math":
            return V(Kind("module"), "math")
        try:
            self.P.find_class(n)
            return V(Kind("type"), n)
        except frontend.MissingTarget:
            return None

    def import_value(self, modname, attr, st, depth=0):
        if depth > 6:
            return None
        try:
            mi = self.P.module(modname)
        except frontend.MissingTarget:
            return None
        if attr in mi.consts:
            if modname.endswith("_compat"):
                cv = _COMPAT.get(attr)
                if cv is not None:
                    return cv
            return self.const_value(mi, mi.consts[attr], st)
        if attr in mi.classes:
            return V(Kind("type"), attr)
        if attr in mi.functions:
            if modname.endswith("_compat") and attr in ("to_str", "decode", "encode"):
                return V(FN, ("builtin", "_identity_str"))
            return V(FN, ("modfn", modname, attr))
        if attr in mi.imports:
            tgt, a2 = mi.imports[attr]
            if tgt and tgt.startswith("clikit"):
                return self.import_value(tgt, a2 or attr, st, depth + 1)
            return V(FN, ("ext", tgt, a2))
        if modname.endswith("_compat"):
            return _COMPAT.get(attr)
        # a sub-module?
        if self.P.module_path(modname + "." + attr):
            return V(Kind("module"), modname + "." + attr)
        return None

    def const_value(self, mi, expr, st):
        """module/class-level constant: literals, simple arithmetic, names of other constants"""
        if isinstance(expr, ast.Call) and isinstance(expr.func, ast.Name) and self._is_repo_class(expr.func.id):
            # an object built ONCE when the module is imported and shared by every reader (e.g. a class attribute
            # `_parser = TokenParser()`): it exists before the verified call -- never fresh, and its fields are
            # whatever earlier users left there
            cname = expr.func.id
            t = z3.Int("modconst!%s!%d" % (cname, expr.lineno))
            entry = self.frames[0].old.alloc if self.frames and getattr(self.frames[0], "old", None) is not None else st.alloc
            self.add_axiom(z3.And(t >= 1, t <= entry))
            v = V(Kind("ref", cname), t)
            tc = self.type_constraint(v)
            if tc is not None:
                self.add_axiom(tc)
            return v
        saved = self.frames
        fr = Frame(mi, None, None, mi.name + ":<const>")
        self.frames = saved + [fr]
        try:
            outs = self.eval(expr, st)
        finally:
            self.frames = saved
        if len(outs) != 1 or outs[0].tag != "ok":
            raise Unsupported("non-trivial module constant")
        return outs[0].val

    def class_object(self, cname):
        """the class itself as a heap object (holder of its mutable class variables, declared in the sidecar as the
        shape '<Class>$cls'): one object per class, allocated before the verified call"""
        sh = cname + "$cls"
        if sh not in self.R.shapes:
            raise Unsupported("class %s has mutable class variables but no shape %s in the sidecar" % (cname, sh))
        t = z3.Int("clsobj!%s" % cname)
        entry = self.frames[0].old.alloc if self.frames and getattr(self.frames[0], "old", None) is not None else None
        v = V(Kind("ref", sh), t)
        c = t >= 1
        if entry is not None:
            c = z3.And(c, t <= entry)
        tc = self.type_constraint(v)
        if tc is not None:
            c = z3.And(c, tc)
        self.add_axiom(c)
        self.__dict__.setdefault("class_objs", {})[cname] = v
        return v

    def class_var_read(self, st, cname, attr):
        """None if attr is not a mutable class variable of cname, else the outs of reading it"""
        try:
            owner = self.P.class_var(cname, attr)
        except frontend.MissingTarget:
            owner = None
        if owner is None:
            return None
        co = self.class_object(owner.name)
        fk = self.R.field_kind(co.kind[1], attr, self.P)
        if fk is None:
            raise Unsupported("class variable %s.%s is not declared in the shape %s" % (owner.name, attr, co.kind[1]))
        return [Out("ok", self.assume_valid_ref(s2, v), v) for s2, v in self.read_field(st, co, attr, fk)]

    def _is_repo_class(self, name):
        try:
            self.P.find_class(name)
            return True
        except frontend.MissingTarget:
            return False

    def e_Attribute(self, node, st):
        return self.bind(self.eval(node.value, st), lambda s, b: self.getattr_(s, b, node.attr, node))

    def getattr_(self, st, b, attr, node=None):
        t = b.kind.tag
        if t == "ref":
            cls = b.kind[1]
            fk = self.R.field_kind(cls, attr, self.P)
            if fk is not None:
                outs = []
                for s2, v in self.read_field(st, b, attr, fk):
                    outs.append(Out("ok", self.assume_valid_ref(s2, v), v))
                return outs
            # property / method / class constant
            ci, fn = (None, None)
            try:
                ci, fn = self.P.find_method(cls, attr)
            except frontend.MissingTarget:
                pass
            if fn is not None:
                if "property" in ci.decorators.get(attr, ()):
                    return self.call_method(st, b, attr, [], {})
                return [Out("ok", st, V(FN, ("bound", b, attr)))]
            c = self.R.method_contract(cls, attr, self.P)
            if c is not None:
                if getattr(c, "is_property", False):
                    return self.call_method(st, b, attr, [], {})
                return [Out("ok", st, V(FN, ("bound", b, attr)))]
            cv = self.class_var_read(st, cls, attr)
            if cv is not None:
                return cv
            try:
                cc, cexpr = self.P.class_const(cls, attr)
            except frontend.MissingTarget:
                cc = None
            if cc is not None:
                return [Out("ok", st, self.const_value(self.P.module(cc.module), cexpr, st))]
            if attr == "__class__":
                return [Out("ok", st, V(Kind("type"), cls))]
            sh = self.R.shapes.get(cls)
            raise Unsupported("attribute %s.%s is not declared in the shape" % (cls, attr))
        if t == "none":
            return [self.raise_(st, "AttributeError", "None.%s" % attr)]
        if t == "type":
            cname = b.t
            cv = self.class_var_read(st, cname, attr) if self._is_repo_class(cname) else None
            if cv is not None:
                return cv
            try:
                cc, cexpr = self.P.class_const(cname, attr)
            except frontend.MissingTarget:
                cc = None
            if cc is not None:
                return [Out("ok", st, self.const_value(self.P.module(cc.module), cexpr, st))]
            return [Out("ok", st, V(FN, ("clsattr", cname, attr)))]
        if t == "module":
            return [Out("ok", st, V(FN, ("ext", b.t, attr)))]
        if t in ("str", "list", "dict", "odict", "seq", "real", "int", "bool"):
            return [Out("ok", st, V(FN, ("prim", b, attr)))]
        if t == "exc":
            if attr == "code" and b.aux and "code" in b.aux:
                return [Out("ok", st, b.aux["code"])]
            raise Unsupported("attribute %s of exception" % attr)
        if t == "fn" and b.t[0] == "ext":
            return [Out("ok", st, V(FN, ("ext", b.t[1] + "." + str(b.t[2]), attr)))]
        if t == "tuple" and b.aux and attr in b.aux:
            return [Out("ok", st, b.aux[attr])]
        raise Unsupported("attribute %s of %s" % (attr, b.kind))

    def e_BoolOp(self, node, st):
        is_and = isinstance(node.op, ast.And)
        if self.spec_mode:
            # specifications: and/or are boolean connectives; the right operand is evaluated under the
            # assumption that makes it relevant (so guards such as `x is not None and x.f` stay well-defined)
            acc = None
            cur = st
            terms = []
            for i, vnode in enumerate(node.values):
                b = z3.simplify(self.merged_bool(vnode, cur))
                terms.append(b)
                if (is_and and z3.is_false(b)) or ((not is_and) and z3.is_true(b)):
                    break  # statically decided: the remaining operands are never evaluated
                cur = cur.assume(b if is_and else z3.Not(b))
            if not terms:
                return [Out("ok", st, vbool(is_and))]
            return [Out("ok", st, vbool(z3.And(terms) if is_and else z3.Or(terms)))]

        def go(i, st):
            outs = self.eval(node.values[i], st)
            if i == len(node.values) - 1:
                return outs

            def k(s, v):
                res = []
                for s1, c in self.truthy_outs(s, v):
                    a, b = self.fork(s1, c)
                    # and: falsy -> value v ; truthy -> continue.   or: truthy -> v ; falsy -> continue
                    stop, cont = (b, a) if is_and else (a, b)
                    if stop is not None:
                        res.append(Out("ok", stop, v))
                    if cont is not None:
                        res.extend(go(i + 1, cont))
                return res
            return self.bind(outs, k)
        return go(0, st)

    def e_UnaryOp(self, node, st):
        def k(s, v):
            if isinstance(node.op, ast.Not):
                return [Out("ok", s1, vbool(z3.Not(c))) for s1, c in self.truthy_outs(s, v)]
            if isinstance(node.op, ast.USub):
                if v.kind.tag in ("int", "bool"):
                    return [Out("ok", s, V(INT, -self.to_int(v).t))]
                if v.kind.tag == "real":
                    return [Out("ok", s, V(REAL, -v.t))]
                return [self.raise_(s, "TypeError", "unary -")]
            if isinstance(node.op, ast.UAdd) and v.kind.tag in ("int", "real"):
                return [Out("ok", s, v)]
            raise Unsupported("unary op")
        return self.bind(self.eval(node.operand, st), k)

    def e_IfExp(self, node, st):
        if self.spec_mode:
            c = self.merged_bool(node.test, st)
            sa = st.assume(c)
            sb = st.assume(z3.Not(c))
            if not z3.is_true(z3.simplify(c)) and not z3.is_false(z3.simplify(c)):
                try:
                    va = self.merged_value(node.body, sa)
                    vb = self.merged_value(node.orelse, sb)
                except SpecError:
                    va = vb = None
                # (values only: a list built inside a branch lives in that branch's heap and cannot be merged)
                if va is not None and va.kind == vb.kind and va.kind.tag in ("int", "bool", "real", "str", "ref", "seq"):
                    if va.aux and vb.aux and "bits" in va.aux and "bits" in vb.aux:
                        bits = [z3.If(c, x, y) for x, y in zip(va.aux["bits"], vb.aux["bits"])]
                        return [Out("ok", st, self.flags_value(bits, z3.If(c, va.aux["hi"], vb.aux["hi"])))]
                    return [Out("ok", st, V(va.kind, z3.If(c, va.t, vb.t)))]

        def k(s, v):
            res = []
            for s1, c in self.truthy_outs(s, v):
                a, b = self.fork(s1, c)
                if a is not None:
                    res.extend(self.eval(node.body, a))
                if b is not None:
                    res.extend(self.eval(node.orelse, b))
            return res
        return self.bind(self.eval(node.test, st), k)

    def e_Compare(self, node, st):
        # chained comparisons: a < b < c  ==  a < b and b < c (b evaluated once)
        def go(i, s, left, acc):
            if i == len(node.ops):
                return [Out("ok", s, vbool(z3.And(acc) if len(acc) > 1 else acc[0]))]

            def k(s2, right):
                outs = self.compare(s2, node.ops[i], left, right)
                res = []
                for o in outs:
                    if o.tag != "ok":
                        res.append(o)
                        continue
                    if i == len(node.ops) - 1:
                        res.extend(go(i + 1, o.st, right, acc + [o.val.t]))
                    else:
                        a, b = self.fork(o.st, o.val.t)
                        if a is not None:
                            res.extend(go(i + 1, a, right, acc + [o.val.t]))
                        if b is not None:
                            res.append(Out("ok", b, vbool(False)))
                return res
            return self.bind(self.eval(node.comparators[i], s), k)
        return self.bind(self.eval(node.left, st), lambda s, l: go(0, s, l, []))

    def compare(self, st, op, a, b):
        if isinstance(op, (ast.Eq, ast.NotEq)):
            c = self.py_eq(st, a, b)
            return [Out("ok", st, vbool(c if isinstance(op, ast.Eq) else z3.Not(c)))]
        if isinstance(op, (ast.Is, ast.IsNot)):
            c = self.py_is(st, a, b)
            return [Out("ok", st, vbool(c if isinstance(op, ast.Is) else z3.Not(c)))]
        if isinstance(op, (ast.In, ast.NotIn)):
            outs = self.contains(st, b, a)
            if isinstance(op, ast.NotIn):
                outs = [Out("ok", o.st, vbool(z3.Not(o.val.t))) if o.tag == "ok" else o for o in outs]
            return outs
        num = ("int", "bool", "real")
        ta, tb = a.kind.tag, b.kind.tag
        if ta in num and tb in num:
            if ta == "real" or tb == "real":
                x, y = self.to_real(a).t, self.to_real(b).t
            else:
                x, y = self.to_int(a).t, self.to_int(b).t
            c = {ast.Lt: x < y, ast.LtE: x <= y, ast.Gt: x > y, ast.GtE: x >= y}[type(op)]
            return [Out("ok", st, vbool(c))]
        if ta == "str" and tb == "str":
            c = {ast.Lt: a.t < b.t, ast.LtE: a.t <= b.t, ast.Gt: b.t < a.t, ast.GtE: b.t <= a.t}[type(op)]
            return [Out("ok", st, vbool(c))]
        if ta == "none" or tb == "none" or {ta, tb} & {"str", "list", "ref", "dict"}:
            return [self.raise_(st, "TypeError", "ordering of %s and %s" % (a.kind, b.kind))]
        raise Unsupported("comparison of %s and %s" % (a.kind, b.kind))

    def contains(self, st, container, item):
        t = container.kind.tag
        if t == "str":
            if item.kind.tag != "str":
                return [self.raise_(st, "TypeError", "'in <string>' requires string")]
            return [Out("ok", st, vbool(z3.Contains(container.t, item.t)))]
        if t in ("list", "seq"):
            seq = self.list_seq(st, container) if t == "list" else container.t
            ek = container.kind[1]
            if alts(ek) != [ek]:
                raise Unsupported("membership in list of union kind")
            if not self._eq_comparable(item.kind, ek):
                return [Out("ok", st, vbool(False))]
            if ek.tag == "ref" and self._has_eq(ek[1]):
                raise Unsupported("membership with user __eq__")
            return [Out("ok", st, vbool(z3.Contains(seq, z3.Unit(self.coerce(item, ek).t))))]
        if t in ("dict", "odict"):
            kk = container.kind[1]
            if not self._eq_comparable(item.kind, kk):
                if item.kind.tag == "list":
                    return [self.raise_(st, "TypeError", "unhashable")]
                return [Out("ok", st, vbool(False))]
            return [Out("ok", st, vbool(self.dict_has(st, container, self.coerce(item, kk))))]
        if t == "tuple":
            cs = [self.py_eq(st, item, x) for x in container.t]
            return [Out("ok", st, vbool(z3.Or(cs) if cs else z3.BoolVal(False)))]
        if t == "ref":
            return self.call_method(st, container, "__contains__", [item], {})
        if t == "none":
            return [self.raise_(st, "TypeError", "argument of type NoneType is not iterable")]
        raise Unsupported("'in' on %s" % (container.kind,))

    def _has_eq(self, cls):
        try:
            ci, fn = self.P.find_method(cls, "__eq__")
        except frontend.MissingTarget:
            return False
        return fn is not None

    def _eq_comparable(self, have, want):
        if have == want:
            return True
        num = ("int", "bool")
        if have.tag in num and want.tag in num:
            return True
        if have.tag == "ref" and want.tag == "ref":
            return True
        return False

    def coerce(self, v, k):
        if v.kind == k:
            return v
        if k.tag == "int" and v.kind.tag == "bool":
            return self.to_int(v)
        if k.tag == "real":
            return self.to_real(v)
        if k.tag == "ref" and v.kind.tag == "ref":
            return V(k, v.t)
        if k.tag == "bool" and v.kind.tag == "int":
            raise Unsupported("int where bool expected")
        raise Unsupported("coerce %s to %s" % (v.kind, k))

    def e_BinOp(self, node, st):
        return self.eval_seq([node.left, node.right], st, lambda s, vs: self.binop(s, node.op, vs[0], vs[1], node))

    def binop(self, st, op, a, b, node=None):
        ta, tb = a.kind.tag, b.kind.tag
        num = ("int", "bool", "real")
        if ta in num and tb in num:
            isreal = ta == "real" or tb == "real"
            if isinstance(op, ast.Div):
                x, y = self.to_real(a).t, self.to_real(b).t
                ok, bad = self.fork(st, y != 0)
                res = []
                if ok is not None:
                    res.append(Out("ok", ok, V(REAL, x / y)))
                if bad is not None:
                    res.append(self.raise_(bad, "ZeroDivisionError"))
                return res
            if isinstance(op, (ast.FloorDiv, ast.Mod)):
                if isreal:
                    x, y = self.to_real(a).t, self.to_real(b).t
                    ok, bad = self.fork(st, y != 0)
                    res = []
                    if ok is not None:
                        q = z3.ToReal(z3.ToInt(x / y))  # floor
                        if isinstance(op, ast.FloorDiv):
                            res.append(Out("ok", ok, V(REAL, q)))
                        else:
                            res.append(Out("ok", ok, V(REAL, x - q * y)))
                    if bad is not None:
                        res.append(self.raise_(bad, "ZeroDivisionError"))
                    return res
                x, y = self.to_int(a).t, self.to_int(b).t
                ok, bad = self.fork(st, y != 0)
                res = []
                if ok is not None:
                    # Python floor division / modulo (sign of the divisor); z3 div/mod is Euclidean
                    if isinstance(op, ast.FloorDiv):
                        res.append(Out("ok", ok, V(INT, _floordiv(x, y))))
                    else:
                        res.append(Out("ok", ok, V(INT, x - _floordiv(x, y) * y)))
                if bad is not None:
                    res.append(self.raise_(bad, "ZeroDivisionError"))
                return res
            if isinstance(op, (ast.BitAnd, ast.BitOr)):
                if isreal:
                    return [self.raise_(st, "TypeError", "bit op on float")]
                return [Out("ok", st, self.bitop(op, self.to_int(a), self.to_int(b)))]
            if isreal:
                x, y = self.to_real(a).t, self.to_real(b).t
                k = REAL
            else:
                x, y = self.to_int(a).t, self.to_int(b).t
                k = INT
            if isinstance(op, ast.Add):
                return [Out("ok", st, V(k, x + y))]
            if isinstance(op, ast.Sub):
                return [Out("ok", st, V(k, x - y))]
            if isinstance(op, ast.Mult):
                return [Out("ok", st, V(k, x * y))]
            raise Unsupported("numeric operator %s" % op.__class__.__name__)
        if ta == "str" and tb == "str":
            if isinstance(op, ast.Add):
                return [Out("ok", st, V(STR, z3.Concat(a.t, b.t)))]
            if isinstance(op, ast.Mod):
                raise Unsupported("% formatting")
            return [self.raise_(st, "TypeError", "str op")]
        if isinstance(op, ast.Mult) and {ta, tb} == {"str", "int"} or (isinstance(op, ast.Mult) and {ta, tb} == {"str", "bool"}):
            s, n = (a, b) if ta == "str" else (b, a)
            st2, r = self.str_repeat(st, s, self.to_int(n))
            return [Out("ok", st2, r)]
        if isinstance(op, ast.Add) and ta == "list" and tb == "list":
            if a.kind[1] != b.kind[1]:
                raise Unsupported("concatenation of lists of different kinds")
            s2, lv = self.new_list(st, a.kind[1], z3.Concat(self.list_seq(st, a), self.list_seq(st, b)))
            return [Out("ok", s2, lv)]
        if isinstance(op, ast.Add) and ta == "seq" and tb == "seq":
            return [Out("ok", st, V(a.kind, z3.Concat(a.t, b.t)))]
        if isinstance(op, ast.Add) and {ta, tb} == {"seq", "list"}:
            sa = self.list_seq(st, a) if ta == "list" else a.t
            sb = self.list_seq(st, b) if tb == "list" else b.t
            return [Out("ok", st, V(Kind("seq", a.kind[1]), z3.Concat(sa, sb)))]
        if isinstance(op, ast.Mult) and ta == "list" and tb in ("int", "bool"):
            n = self.to_int(b).t
            k = a.kind[1]
            base = self.list_seq(st, a)
            # only [x] * n
            rep = z3.Const(fresh_name("rep"), z3.SeqSort(sort_of(k)))
            i = z3.Int(fresh_name("i"))
            self.uses_quantifiers = True
            x = base[0]
            s2 = st.assume(z3.And(z3.Length(base) == 1, z3.Length(rep) == z3.If(n > 0, n, 0),
                                  z3.ForAll([i], z3.Implies(z3.And(i >= 0, i < z3.Length(rep)), rep[i] == x))))
            if not self.feasible(s2):
                raise Unsupported("list repetition of a non-singleton list")
            s3, lv = self.new_list(s2, k, rep)
            return [Out("ok", s3, lv)]
        if ta == "none" or tb == "none" or ta != tb:
            return [self.raise_(st, "TypeError", "unsupported operand type(s): %s and %s" % (a.kind, b.kind))]
        raise Unsupported("operator %s on %s, %s" % (op.__class__.__name__, a.kind, b.kind))

    def uf_decl(self, name, *sorts):
        f = self.ufs.get(name)
        if f is None:
            f = z3.Function(name, *sorts)
            self.ufs[name] = f
        return f

    def str_repeat(self, st, s, n):
        """s * n : uninterpreted `str_repeat` with its length axiom (and emptiness) instantiated at the use"""
        cs = _const_str(s.t)
        cn = _const_int(n.t)
        if cs is not None and cn is not None:
            return st, vstr(cs * cn)
        f = self.uf_decl("str_repeat", z3.StringSort(), z3.IntSort(), z3.StringSort())
        r = f(s.t, n.t)
        ax = z3.And(z3.Length(r) == z3.If(n.t > 0, n.t * z3.Length(s.t), 0),
                    z3.Implies(n.t == 1, r == s.t))
        return st.assume(ax), V(STR, r)

    def bitop(self, op, a, b):
        """bit operators where one side is a non-negative constant: exact via div/mod on the bits of the constant"""
        ca = _const_int(a.t)
        cb = _const_int(b.t)
        if ca is not None and cb is not None:
            return vint(ca & cb if isinstance(op, ast.BitAnd) else ca | cb)
        # bit view of flag words: purely boolean
        for x, c in ((a, cb), (b, ca)):
            if c is not None and x.aux and "bits" in x.aux and 0 <= c < (1 << NBITS):
                bits = x.aux["bits"]
                if isinstance(op, ast.BitAnd):
                    nb = [bits[i] if (c >> i) & 1 else z3.BoolVal(False) for i in range(NBITS)]
                    return self.flags_value(nb, z3.IntVal(0))
                nb = [z3.BoolVal(True) if (c >> i) & 1 else bits[i] for i in range(NBITS)]
                return self.flags_value(nb, x.aux["hi"])
        if ca is None and cb is None:
            # both symbolic: exact for flag words through the bit view
            va, vb = self.as_bits(a), self.as_bits(b)
            if va is not None and vb is not None:
                ha, hb = va.aux["hi"], vb.aux["hi"]
                za = z3.is_int_value(ha) and ha.as_long() == 0
                zb = z3.is_int_value(hb) and hb.as_long() == 0
                if isinstance(op, ast.BitAnd) and (za or zb):
                    return self.flags_value([z3.And(x, y) for x, y in zip(va.aux["bits"], vb.aux["bits"])], z3.IntVal(0))
                if isinstance(op, ast.BitOr) and (za or zb):
                    return self.flags_value([z3.Or(x, y) for x, y in zip(va.aux["bits"], vb.aux["bits"])], hb if za else ha)
            return V(INT, self.bits_op(op, a.t, b.t))
        x, c = (a.t, cb) if cb is not None else (b.t, ca)
        if c < 0:
            raise Unsupported("bit operator with negative constant")
        return V(INT, self.bits_const(op, x, c))

    def as_bits(self, v):
        """bit view of an int value: flag words, small non-negative constants and If-merges of those"""
        if v.aux and "bits" in v.aux:
            return v
        return self._term_bits(v.t)

    def _term_bits(self, t):
        c = _const_int(t)
        if c is not None:
            if 0 <= c < (1 << NBITS):
                return self.flags_value([z3.BoolVal(bool((c >> i) & 1)) for i in range(NBITS)], z3.IntVal(0))
            return None
        if z3.is_app_of(t, z3.Z3_OP_ITE):
            x = self._term_bits(t.arg(1))
            y = self._term_bits(t.arg(2))
            if x is None or y is None:
                return None
            cnd = t.arg(0)
            return self.flags_value([z3.If(cnd, p, q) for p, q in zip(x.aux["bits"], y.aux["bits"])],
                                    z3.If(cnd, x.aux["hi"], y.aux["hi"]) if not x.aux["hi"].eq(y.aux["hi"]) else x.aux["hi"])
        return None

    def bit(self, x, k):
        """k-th bit of integer term x (floor semantics, valid for negatives too)"""
        return (_floordiv(x, z3.IntVal(1 << k)) % 2) == 1

    def bits_const(self, op, x, c):
        n = c.bit_length()
        if isinstance(op, ast.BitAnd):
            terms = [z3.If(self.bit(x, k), z3.IntVal(1 << k), z3.IntVal(0)) for k in range(n) if (c >> k) & 1]
            return z3.Sum(terms) if terms else z3.IntVal(0)
        # x | c = x + sum of bits of c that are not set in x
        terms = [z3.If(self.bit(x, k), z3.IntVal(0), z3.IntVal(1 << k)) for k in range(n) if (c >> k) & 1]
        return x + (z3.Sum(terms) if terms else z3.IntVal(0))

    def bits_op(self, op, x, y):
        raise Unsupported("bit operator with two symbolic operands")

    def e_Subscript(self, node, st):
        if isinstance(node.slice, ast.Slice):
            sl = node.slice
            parts = [sl.lower, sl.upper]
            if sl.step is not None:
                raise Unsupported("slice step")
            nodes = [node.value] + [p for p in parts if p is not None]

            def k(s, vs):
                base = vs[0]
                it = iter(vs[1:])
                lo = next(it) if sl.lower is not None else None
                hi = next(it) if sl.upper is not None else None
                return self.slice_(s, base, lo, hi)
            return self.eval_seq(nodes, st, k)
        return self.eval_seq([node.value, node.slice], st, lambda s, vs: self.index(s, vs[0], vs[1]))

    def _norm_slice(self, i, n, default):
        if i is None:
            return default
        if i.kind.tag == "none":
            return default
        x = self.to_int(i).t
        return z3.If(x < 0, z3.If(x + n < 0, z3.IntVal(0), x + n), z3.If(x > n, n, x))

    def slice_(self, st, base, lo, hi):
        t = base.kind.tag
        if t == "str":
            n = z3.Length(base.t)
        elif t == "list":
            seq = self.list_seq(st, base)
            n = z3.Length(seq)
        elif t == "seq":
            seq = base.t
            n = z3.Length(seq)
        elif t == "none":
            return [self.raise_(st, "TypeError", "None is not subscriptable")]
        else:
            raise Unsupported("slice of %s" % (base.kind,))
        a = self._norm_slice(lo, n, z3.IntVal(0))
        b = self._norm_slice(hi, n, n)
        ln = z3.If(b - a > 0, b - a, z3.IntVal(0))
        if t == "str":
            return [Out("ok", st, V(STR, z3.SubString(base.t, a, ln)))]
        sub = z3.SubSeq(seq, a, ln)
        if t == "seq":
            return [Out("ok", st, V(base.kind, sub))]
        s2, lv = self.new_list(st, base.kind[1], sub)
        return [Out("ok", s2, lv)]

    def index(self, st, base, idx):
        t = base.kind.tag
        if t in ("str", "list", "seq"):
            if idx.kind.tag not in ("int", "bool"):
                return [self.raise_(st, "TypeError", "indices must be integers")]
            i = self.to_int(idx).t
            if t == "str":
                n = z3.Length(base.t)
            else:
                seq = self.list_seq(st, base) if t == "list" else base.t
                n = z3.Length(seq)
            j = z3.If(i < 0, i + n, i)
            ok, bad = self.fork(st, z3.And(j >= 0, j < n))
            res = []
            if ok is not None:
                if t == "str":
                    res.append(Out("ok", ok, V(STR, z3.SubString(base.t, j, 1))))
                else:
                    ek = base.kind[1]
                    v = self.elem(ek, seq[j])
                    if not self.spec_mode and ek.tag in ("str", "int"):
                        # a lemma of the sequence theory the solvers do not find by themselves: what is read from a
                        # position of a list is an element of that list
                        ok = ok.assume(z3.Contains(seq, z3.Unit(seq[j])))
                    res.append(Out("ok", self.assume_valid_ref(ok, v), v))
            if bad is not None:
                res.append(self.raise_(bad, "IndexError", "index out of range"))
            return res
        if t in ("dict", "odict"):
            kk = base.kind[1]
            if not self._eq_comparable(idx.kind, kk):
                return [self.raise_(st, "KeyError", "key of another kind")]
            key = self.coerce(idx, kk)
            ok, bad = self.fork(st, self.dict_has(st, base, key))
            res = []
            if ok is not None:
                for s2, v in self.dict_get(ok, base, key):
                    res.append(Out("ok", s2, v))
            if bad is not None:
                res.append(self.raise_(bad, "KeyError", "missing key"))
            return res
        if t == "tuple":
            c = _const_int(idx.t) if idx.kind.tag == "int" else None
            if c is None:
                raise Unsupported("symbolic tuple index")
            if -len(base.t) <= c < len(base.t):
                return [Out("ok", st, base.t[c])]
            return [self.raise_(st, "IndexError", "tuple index")]
        if t == "none":
            return [self.raise_(st, "TypeError", "None is not subscriptable")]
        if t in ("int", "bool", "real"):
            return [self.raise_(st, "TypeError", "number is not subscriptable")]
        raise Unsupported("index on %s" % (base.kind,))

    def e_List(self, node, st):
        def k(s, vs):
            if not vs:
                hint = self._list_hint(node)
                s2, lv = self.new_list(s, hint, z3.Empty(z3.SeqSort(sort_of(hint))))
                lv.aux = {"empty_literal": True}
                return [Out("ok", s2, lv)]
            ek = vs[0].kind
            for v in vs[1:]:
                if v.kind != ek:
                    if ek.tag == "ref" and v.kind.tag == "ref":
                        continue
                    raise Unsupported("list display of mixed kinds")
            seq = z3.Concat(*[z3.Unit(v.t) for v in vs]) if len(vs) > 1 else z3.Unit(vs[0].t)
            s2, lv = self.new_list(s, ek, seq)
            return [Out("ok", s2, lv)]
        return self.eval_seq(node.elts, st, k)

    def _list_hint(self, node):
        """element kind of an empty list literal: from the sidecar (assignment target) or str"""
        h = getattr(node, "_pyvc_kind", None)
        if h is not None:
            return h
        return STR

    def e_Tuple(self, node, st):
        return self.eval_seq(node.elts, st, lambda s, vs: [Out("ok", s, V(Kind("tuple"), tuple(vs)))])

    def e_Set(self, node, st):
        # set display used only for membership tests: treated as a tuple
        return self.eval_seq(node.elts, st, lambda s, vs: [Out("ok", s, V(Kind("tuple"), tuple(vs)))])

    def e_Dict(self, node, st):
        if node.keys:
            raise Unsupported("non-empty dict display")
        hint = getattr(node, "_pyvc_kind", None)
        if hint is None:
            raise Unsupported("dict display without a declared kind")
        s2, dv = self.new_dict(st, hint)
        return [Out("ok", s2, dv)]

    def e_ListComp(self, node, st):
        """[f(x) for x in xs] for a side-effect free f: a fresh list R with len(R) == len(xs) and R[i] == f(xs[i])"""
        if len(node.generators) != 1 or node.generators[0].ifs or node.generators[0].is_async:
            raise Unsupported("list comprehension with conditions / several generators")
        g = node.generators[0]

        def k(s, it):
            if it.kind.tag == "list":
                seq = self.list_seq(s, it)
                ek = it.kind[1]
            elif it.kind.tag == "seq":
                seq = it.t
                ek = it.kind[1]
            else:
                raise Unsupported("list comprehension over %s" % (it.kind,))
            i = z3.Int(fresh_name("lc"))
            rng = z3.And(i >= 0, i < z3.Length(seq))
            base = s.assume(rng)
            x = self.elem(ek, seq[i])
            base = self.assume_valid_ref(base, x)
            a = self.assign(base, g.target, x)
            if len(a) != 1 or a[0].tag != "ok":
                raise Unsupported("comprehension target")
            from .calls import merged_value
            try:
                v = merged_value(self, node.elt, a[0].st)
            except SpecError as e:
                raise Unsupported("comprehension element may fail: %s" % e)
            if v.kind.tag not in ("int", "bool", "str", "real", "ref"):
                raise Unsupported("comprehension element of kind %s" % (v.kind,))
            R = z3.Const(fresh_name("lcomp"), z3.SeqSort(sort_of(v.kind)))
            self.uses_quantifiers = True
            ax = z3.And(z3.Length(R) == z3.Length(seq), z3.ForAll([i], z3.Implies(rng, R[i] == v.t)))
            s2, lv = self.new_list(s.assume(ax), v.kind, R)
            return [Out("ok", s2, lv)]
        return self.bind(self.eval(g.iter, st), k)

    def e_JoinedStr(self, node, st):
        raise Unsupported("f-string")

    def e_Lambda(self, node, st):
        return [Out("ok", st, V(FN, ("lambda", node, dict(st.env), self.frame)))]

    def e_Call(self, node, st):
        from .calls import eval_call
        return eval_call(self, node, st)

    # ------------------------------------------------------------------ statements
    def exec_block(self, stmts, st):
        outs = [Out("ok", st)]
        for s in stmts:
            nxt = []
            for o in outs:
                if o.tag != "ok":
                    nxt.append(o)
                else:
                    nxt.extend(self.exec_stmt(s, o.st))
            outs = nxt
            if not outs:
                break
        return outs

    def exec_stmt(self, node, st):
        m = getattr(self, "s_" + node.__class__.__name__, None)
        if m is None:
            raise Unsupported("statement %s at line %s" % (node.__class__.__name__, getattr(node, "lineno", "?")))
        return m(node, st)

    def s_Pass(self, node, st):
        return [Out("ok", st)]

    def s_Expr(self, node, st):
        if isinstance(node.value, ast.Constant):
            return [Out("ok", st)]
        return [Out("ok", o.st) if o.tag == "ok" else o for o in self.eval(node.value, st)]

    def s_Import(self, node, st):
        return [Out("ok", st)]

    def s_ImportFrom(self, node, st):
        # a function-level import binds local names (module-level imports are read from the module table)
        if node.module and len(self.frames) >= 1 and self.frame.node is not None:
            s = st.copy()
            for a in node.names:
                name = a.asname or a.name
                if node.level == 0 and node.module.startswith("clikit"):
                    try:
                        s.env[name] = self.import_value(node.module, a.name, st)
                        continue
                    except Exception:
                        pass
                if node.level == 0:
                    s.env[name] = V(FN, ("ext", node.module, a.name))
            return [Out("ok", s)]
        return [Out("ok", st)]

    def s_Return(self, node, st):
        if node.value is None:
            return [Out("return", st, VNONE)]
        if isinstance(node.value, ast.List) and not node.value.elts and getattr(node.value, "_pyvc_kind", None) is None:
            # `return []`: the element kind of the empty display is the one the contract of this function declares
            # (an inlined callee has no contract of its own in force: any named case of its contract tells the kind)
            cs = [getattr(self.frame, "contract", None)]
            q = getattr(self.frame, "qual", None)
            if q:
                cs += [c for k, c in sorted(self.R.contracts.items()) if k == q or k.startswith(q + "#")]
            for c in cs:
                if c is not None and getattr(c, "returns", None) is not None and getattr(node.value, "_pyvc_kind", None) is None:
                    for a in alts(c.returns):
                        if a.tag == "list":
                            node.value._pyvc_kind = a[1]
        return [Out("return", o.st, o.val) if o.tag == "ok" else o for o in self.eval(node.value, st)]

    def s_Break(self, node, st):
        return [Out("break", st)]

    def s_Continue(self, node, st):
        return [Out("continue", st)]

    def s_Assert(self, node, st):
        def k(s, v):
            res = []
            for s1, c in self.truthy_outs(s, v):
                a, b = self.fork(s1, c)
                if a is not None:
                    res.append(Out("ok", a))
                if b is not None:
                    res.append(self.raise_(b, "AssertionError"))
            return res
        return self.bind(self.eval(node.test, st), k)

    def s_FunctionDef(self, node, st):
        s = st.copy()
        s.env[node.name] = V(FN, ("closure", node, None, self.frame))
        return [Out("ok", s)]

    def s_Assign(self, node, st):
        self._hint(node.value, node.targets[0])

        def k(s, v):
            outs = [Out("ok", s)]
            for tgt in node.targets:
                nxt = []
                for o in outs:
                    if o.tag != "ok":
                        nxt.append(o)
                    else:
                        nxt.extend(self.assign(o.st, tgt, v))
                outs = nxt
            return outs
        return self.bind(self.eval(node.value, st), k)

    def _hint(self, value, target):
        """kind hints for empty list / dict displays from the declared shape of the target"""
        if isinstance(value, (ast.List, ast.Dict)) or (isinstance(value, ast.Call) and isinstance(value.func, ast.Name) and value.func.id in ("OrderedDict", "dict", "list")):
            k = None
            if isinstance(target, ast.Attribute) and isinstance(target.value, ast.Name) and target.value.id == "self" and self.frame.ci is not None:
                selfv = None
                fk = self.R.field_kind(self._self_class(), target.attr, self.P)
                if fk is not None:
                    for a in alts(fk):
                        if a.tag in ("list", "dict", "odict"):
                            k = a
            elif isinstance(target, ast.Name):
                hints = getattr(self.R, "local_kinds", {}).get(self.frame.qual, {})
                if target.id in hints:
                    k = parse_kind(hints[target.id])
            elif isinstance(target, ast.Subscript):
                bk = self._static_kind(target.value)
                if bk is not None and bk.tag in ("dict", "odict"):
                    for a in alts(bk[2]):
                        if a.tag in ("list", "dict", "odict"):
                            k = a
            if k is not None:
                if k.tag == "list":
                    value._pyvc_kind = k[1]
                else:
                    value._pyvc_kind = k

    def _static_kind(self, expr):
        """declared kind of self.f / self.f[k] / self.f[k][j] (for hints of empty displays)"""
        if isinstance(expr, ast.Attribute) and isinstance(expr.value, ast.Name) and expr.value.id == "self":
            fk = self.R.field_kind(self._self_class(), expr.attr, self.P)
            if fk is None:
                return None
            for a in alts(fk):
                if a.tag in ("list", "dict", "odict"):
                    return a
            return None
        if isinstance(expr, ast.Subscript):
            bk = self._static_kind(expr.value)
            if bk is not None and bk.tag in ("dict", "odict"):
                for a in alts(bk[2]):
                    if a.tag in ("list", "dict", "odict"):
                        return a
            if bk is not None and bk.tag == "list":
                return bk[1]
        return None

    def _self_class(self):
        sv = self.frame.params.get("self")
        if sv is not None and sv.kind.tag == "ref":
            return sv.kind[1]
        return self.frame.ci.name if self.frame.ci else None

    def assign(self, st, tgt, v):
        if isinstance(tgt, ast.Name):
            s = st.copy()
            s.env[tgt.id] = v
            return [Out("ok", s)]
        if isinstance(tgt, ast.Attribute):
            def k(s, b):
                if b.kind.tag == "type" and self._is_repo_class(b.t):
                    # cls.X = v : a class variable (the subclass-shadowing case is outside the subset: `cls` is
                    # taken to be the class that declares X)
                    owner = self.P.class_var(b.t, tgt.attr)
                    if owner is None:
                        raise Unsupported("assignment to class attribute %s.%s" % (b.t, tgt.attr))
                    b = self.class_object(owner.name)
                if b.kind.tag != "ref":
                    if b.kind.tag == "none":
                        return [self.raise_(s, "AttributeError", "assignment to None.%s" % tgt.attr)]
                    raise Unsupported("attribute assignment on %s" % (b.kind,))
                fk = self.R.field_kind(b.kind[1], tgt.attr, self.P)
                if fk is None:
                    raise Unsupported("assignment to undeclared field %s.%s" % (b.kind[1], tgt.attr))
                return [Out("ok", self.write_field(s, b, tgt.attr, fk, v))]
            return self.bind(self.eval(tgt.value, st), k)
        if isinstance(tgt, ast.Subscript):
            if isinstance(tgt.slice, ast.Slice):
                raise Unsupported("slice assignment")
            return self.eval_seq([tgt.value, tgt.slice], st, lambda s, vs: self.setitem(s, vs[0], vs[1], v))
        if isinstance(tgt, (ast.Tuple, ast.List)):
            if v.kind.tag != "tuple" or len(v.t) != len(tgt.elts):
                raise Unsupported("tuple unpacking of %s" % (v.kind,))
            outs = [Out("ok", st)]
            for t, x in zip(tgt.elts, v.t):
                nxt = []
                for o in outs:
                    if o.tag != "ok":
                        nxt.append(o)
                    else:
                        nxt.extend(self.assign(o.st, t, x))
                outs = nxt
            return outs
        raise Unsupported("assignment target %s" % tgt.__class__.__name__)

    def setitem(self, st, base, idx, v):
        t = base.kind.tag
        if t == "list":
            ek = base.kind[1]
            if not self._compatible(v.kind, ek):
                if base.aux and base.aux.get("empty_literal"):
                    pass
                raise Unsupported("list element of kind %s stored in %s" % (v.kind, base.kind))
            i = self.to_int(idx).t
            seq = self.list_seq(st, base)
            n = z3.Length(seq)
            j = z3.If(i < 0, i + n, i)
            ok, bad = self.fork(st, z3.And(j >= 0, j < n))
            res = []
            if ok is not None:
                new = z3.Concat(z3.SubSeq(seq, 0, j), z3.Unit(v.t), z3.SubSeq(seq, j + 1, n - j - 1))
                res.append(Out("ok", self.list_set_seq(ok, base, new)))
            if bad is not None:
                res.append(self.raise_(bad, "IndexError", "list assignment index out of range"))
            return res
        if t in ("dict", "odict"):
            kk = base.kind[1]
            if not self._eq_comparable(idx.kind, kk):
                raise Unsupported("dict key of kind %s in %s" % (idx.kind, base.kind))
            return [Out("ok", self.dict_set(st, base, self.coerce(idx, kk), v))]
        if t == "none":
            return [self.raise_(st, "TypeError", "None does not support item assignment")]
        raise Unsupported("item assignment on %s" % (base.kind,))

    def s_AugAssign(self, node, st):
        load = _as_load(node.target)

        def k(s, vs):
            outs = self.binop(s, node.op, vs[0], vs[1], node)
            res = []
            for o in outs:
                if o.tag != "ok":
                    res.append(o)
                else:
                    # += on lists mutates in place
                    if isinstance(node.op, ast.Add) and vs[0].kind.tag == "list":
                        s3 = self.list_set_seq(o.st, vs[0], self.list_seq(o.st, o.val))
                        res.append(Out("ok", s3))
                    else:
                        res.extend(self.assign(o.st, node.target, o.val))
            return res
        return self.eval_seq([load, node.value], st, k)

    def s_Delete(self, node, st):
        outs = [Out("ok", st)]
        for tgt in node.targets:
            nxt = []
            for o in outs:
                if o.tag != "ok":
                    nxt.append(o)
                    continue
                nxt.extend(self.delete(o.st, tgt))
            outs = nxt
        return outs

    def delete(self, st, tgt):
        if isinstance(tgt, ast.Subscript):
            if isinstance(tgt.slice, ast.Slice):
                sl = tgt.slice
                if sl.step is not None:
                    raise Unsupported("slice step")
                nodes = [tgt.value] + [p for p in (sl.lower, sl.upper) if p is not None]

                def k(s, vs):
                    base = vs[0]
                    if base.kind.tag != "list":
                        raise Unsupported("del slice of %s" % (base.kind,))
                    it = iter(vs[1:])
                    lo = next(it) if sl.lower is not None else None
                    hi = next(it) if sl.upper is not None else None
                    seq = self.list_seq(s, base)
                    n = z3.Length(seq)
                    a = self._norm_slice(lo, n, z3.IntVal(0))
                    b = self._norm_slice(hi, n, n)
                    b2 = z3.If(b < a, a, b)
                    new = z3.Concat(z3.SubSeq(seq, 0, a), z3.SubSeq(seq, b2, n - b2))
                    return [Out("ok", self.list_set_seq(s, base, new))]
                return self.eval_seq(nodes, st, k)

            def k2(s, vs):
                base, idx = vs
                if base.kind.tag == "list":
                    i = self.to_int(idx).t
                    seq = self.list_seq(s, base)
                    n = z3.Length(seq)
                    j = z3.If(i < 0, i + n, i)
                    ok, bad = self.fork(s, z3.And(j >= 0, j < n))
                    res = []
                    if ok is not None:
                        new = z3.Concat(z3.SubSeq(seq, 0, j), z3.SubSeq(seq, j + 1, n - j - 1))
                        res.append(Out("ok", self.list_set_seq(ok, base, new)))
                    if bad is not None:
                        res.append(self.raise_(bad, "IndexError"))
                    return res
                if base.kind.tag == "dict":
                    key = self.coerce(idx, base.kind[1])
                    ok, bad = self.fork(s, self.dict_has(s, base, key))
                    res = []
                    if ok is not None:
                        res.append(Out("ok", self.dict_del(ok, base, key)))
                    if bad is not None:
                        res.append(self.raise_(bad, "KeyError"))
                    return res
                raise Unsupported("del item of %s" % (base.kind,))
            return self.eval_seq([tgt.value, tgt.slice], st, k2)
        raise Unsupported("del target")

    def s_If(self, node, st):
        def k(s, v):
            res = []
            for s1, c in self.truthy_outs(s, v):
                a, b = self.fork(s1, c)
                if a is not None:
                    res.extend(self.exec_block(node.body, a))
                if b is not None:
                    res.extend(self.exec_block(node.orelse, b))
            return res
        outs = self.bind(self.eval(node.test, st), k)
        return self.merge_outs(outs, len(st.pc))

    # ---- state merging (keeps flag-decision code from exploding into one path per bit pattern) -------
    def merge_outs(self, outs, n0):
        oks = [o for o in outs if o.tag == "ok" and o.val is None]
        if len(oks) < 2:
            return outs
        rest = [o for o in outs if not (o.tag == "ok" and o.val is None)]
        merged = []
        for o in oks:
            for i, m in enumerate(merged):
                j = self.merge_states(m.st, o.st, n0)
                if j is not None:
                    merged[i] = Out("ok", j)
                    break
            else:
                merged.append(o)
        return rest + merged

    def _mergeable_val(self, a, b):
        if a is b:
            return True
        if a.kind != b.kind:
            return False
        if a.kind.tag == "none":
            return True
        if a.t is not None and not isinstance(a.t, tuple) and hasattr(a.t, "eq") and a.t.eq(b.t):
            return True
        return a.kind.tag in ("int", "bool", "ref", "list", "dict", "odict", "real")

    def merge_states(self, A, B, n0):
        """merge two states that extend a common prefix of n0 path conditions; None if not mergeable"""
        if A.pc[:n0] != B.pc[:n0] and not all(x.eq(y) for x, y in zip(A.pc[:n0], B.pc[:n0])):
            return None
        if set(A.env) != set(B.env):
            return None
        for n in A.env:
            if not self._mergeable_val(A.env[n], B.env[n]):
                return None
        ea = list(A.pc[n0:])
        eb = list(B.pc[n0:])
        ca = z3.And(ea) if ea else z3.BoolVal(True)
        cb = z3.And(eb) if eb else z3.BoolVal(True)
        # heap values of string sort are not merged with If-terms (keeps string queries per path)
        keys = set(A.heap) | set(B.heap)
        newheap = {}
        for key in keys:
            x = A.heap.get(key)
            y = B.heap.get(key)
            if x is None:
                x = self.base_arrays.get(key)
            if y is None:
                y = self.base_arrays.get(key)
            if x is None or y is None:
                return None
            if x.eq(y):
                newheap[key] = x
            else:
                rng = x.sort().range()
                if rng == z3.StringSort() or z3.is_seq_sort(rng) if hasattr(z3, "is_seq_sort") else rng.kind() == z3.Z3_SEQ_SORT:
                    return None
                newheap[key] = z3.If(ca, x, y)
        S = A.copy()
        S.pc = A.pc[:n0] + (z3.Or(ca, cb),)
        S.heap = newheap
        S.alloc = A.alloc if A.alloc.eq(B.alloc) else z3.If(ca, A.alloc, B.alloc)
        env = {}
        for n, va in A.env.items():
            vb = B.env[n]
            if va is vb or va.kind.tag == "none" or (va.t is not None and not isinstance(va.t, tuple) and hasattr(va.t, "eq") and va.t.eq(vb.t)):
                env[n] = va
            elif va.aux and vb.aux and "bits" in va.aux and "bits" in vb.aux:
                bits = [z3.If(ca, x, y) for x, y in zip(va.aux["bits"], vb.aux["bits"])]
                env[n] = self.flags_value(bits, z3.If(ca, va.aux["hi"], vb.aux["hi"]))
            else:
                env[n] = V(va.kind, z3.If(ca, va.t, vb.t))
        S.env = env
        g = {}
        for kk in set(A.ghost) | set(B.ghost):
            x, y = A.ghost.get(kk), B.ghost.get(kk)
            if x is None or y is None:
                return None
            g[kk] = x if x.eq(y) else z3.If(ca, x, y)
        S.ghost = g
        return S

    def s_Raise(self, node, st):
        if node.exc is None:
            cur = st.env.get("$handling")
            if cur is None:
                raise Unsupported("bare raise outside except")
            return [Out("raise", st, cur)]

        def k(s, v):
            if v.kind.tag == "exc":
                return [Out("raise", s, v)]
            if v.kind.tag == "type" and self.is_exc_class(v.t):
                s2, e = self.mk_exc(s, v.t)
                return [Out("raise", s2, e)]
            if v.kind.tag == "none":
                return [self.raise_(s, "TypeError", "exceptions must derive from BaseException")]
            raise Unsupported("raise of %s" % (v.kind,))
        return self.bind(self.eval(node.exc, st), k)

    def s_Try(self, node, st):
        outs = self.exec_block(node.body, st)
        res = []
        for o in outs:
            if o.tag == "raise":
                res.extend(self._dispatch_handlers(node, o, 0))
            elif o.tag == "ok" and node.orelse:
                res.extend(self.exec_block(node.orelse, o.st))
            else:
                res.append(o)
        if node.finalbody:
            fin = []
            for o in res:
                for fo in self.exec_block(node.finalbody, o.st):
                    if fo.tag == "ok":
                        fin.append(Out(o.tag, fo.st, o.val))
                    else:
                        fin.append(fo)
            res = fin
        return res

    def _dispatch_handlers(self, node, o, start):
        """an exception value of class C stands for C or any subclass when it came out of a contract
        (`abstract`): a handler for a strict subclass of C may or may not match"""
        exc = o.val
        cls = exc.kind[1]
        abstract = bool(exc.aux and exc.aux.get("abstract"))
        for hi in range(start, len(node.handlers)):
            h = node.handlers[hi]
            names = self._handler_names(h)
            if any(self.exc_is(cls, n) for n in names):
                return self._run_handler(h, o)
            if abstract:
                subs = [n for n in names if self.exc_is(n, cls)]
                if subs:
                    b = z3.Bool(fresh_name("exc_is_" + subs[0]))
                    yes = Out("raise", o.st.assume(b), V(Kind("exc", subs[0]), exc.t, aux=dict(exc.aux)))
                    no = Out("raise", o.st.assume(z3.Not(b)), exc)
                    return self._run_handler(h, yes) + self._dispatch_handlers(node, no, hi + 1)
        return [o]

    def _run_handler(self, h, o):
        res = []
        s = o.st.copy()
        if h.name:
            s.env[h.name] = o.val
        prev = s.env.get("$handling")
        s.env["$handling"] = o.val
        for ho in self.exec_block(h.body, s):
            s2 = ho.st.copy()
            if prev is None:
                s2.env.pop("$handling", None)
            else:
                s2.env["$handling"] = prev
            res.append(Out(ho.tag, s2, ho.val))
        return res

    def _handler_names(self, h):
        if h.type is None:
            return ["BaseException"]
        if isinstance(h.type, ast.Tuple):
            return [self._exc_name(e) for e in h.type.elts]
        return [self._exc_name(h.type)]

    def _exc_name(self, e):
        if isinstance(e, ast.Name):
            return e.id
        if isinstance(e, ast.Attribute):
            return e.attr
        raise Unsupported("exception class expression")

    def s_With(self, node, st):
        if len(node.items) != 1:
            raise Unsupported("with several items")
        item = node.items[0]

        def k(s, mgr):
            if mgr.kind.tag == "fn" and mgr.t[0] == "ctxgen":
                return self._with_generator(s, mgr, item, node)
            if mgr.kind.tag != "ref":
                raise Unsupported("with on %s" % (mgr.kind,))
            res = []
            for eo in self.call_method(s, mgr, "__enter__", [], {}):
                if eo.tag != "ok":
                    res.append(eo)
                    continue
                s2 = eo.st
                if item.optional_vars is not None:
                    a = self.assign(s2, item.optional_vars, eo.val)
                    if len(a) != 1 or a[0].tag != "ok":
                        raise Unsupported("with-as target")
                    s2 = a[0].st
                for bo in self.exec_block(node.body, s2):
                    if bo.tag == "raise":
                        for xo in self.call_method(bo.st, mgr, "__exit__", [V(Kind("type"), bo.val.kind[1]), bo.val, VNONE], {}):
                            if xo.tag != "ok":
                                res.append(xo)
                                continue
                            for s3, c in self.truthy_outs(xo.st, xo.val):
                                sup, rer = self.fork(s3, c)
                                if sup is not None:
                                    res.append(Out("ok", sup))
                                if rer is not None:
                                    res.append(Out("raise", rer, bo.val))
                    else:
                        for xo in self.call_method(bo.st, mgr, "__exit__", [VNONE, VNONE, VNONE], {}):
                            if xo.tag != "ok":
                                res.append(xo)
                            else:
                                res.append(Out(bo.tag, xo.st, bo.val))
            return res
        return self.bind(self.eval(item.context_expr, st), k)

    def _with_generator(self, st, mgr, item, node):
        raise Unsupported("with on a @contextmanager generator")

    # loops -----------------------------------------------------------------
    def _loop_spec(self, node):
        fr = self.frame
        # loops are numbered in source order within their function
        num = getattr(fr, "loop_numbers", None)
        if num is None:
            num = {}
            if fr.node is not None:
                loops = [n for n in ast.walk(fr.node) if isinstance(n, (ast.While, ast.For))]
                loops.sort(key=lambda n: (n.lineno, n.col_offset))
                for i, n in enumerate(loops):
                    num[id(n)] = i
            fr.loop_numbers = num
        ordinal = num.get(id(node), 10_000)
        if fr.loop_ordinal >= 10_000:
            ordinal = 10_000  # loops inside closures have no sidecar
        ls = self.R.loops.get((fr.qual, ordinal))
        if ls is not None and ls.fingerprint:
            hdr = ast.unparse(node.test) if isinstance(node, ast.While) else ast.unparse(node.target) + " in " + ast.unparse(node.iter)
            if ls.fingerprint not in hdr:
                raise Unsupported("loop %d of %s does not match its sidecar fingerprint %r (header: %s)" % (
                    ordinal, fr.qual, ls.fingerprint, hdr))
        return ordinal, ls

    def s_While(self, node, st):
        from .loops import exec_while
        return exec_while(self, node, st)

    def s_For(self, node, st):
        from .loops import exec_for
        return exec_for(self, node, st)


def _floordiv(x, y):
    """Python floor division on z3 ints (z3's / on Int is Euclidean division)."""
    q = x / y
    # Euclidean: x = y*q + r, 0 <= r < |y|.  floor(x/y) = q if y > 0 else (q if r == 0 else q - 1)... for y<0: q_e = ceil(x/y) when r!=0
    r = x % y
    return z3.If(y > 0, q, z3.If(r == 0, q, q - 1))


def _const_int(t):
    t = z3.simplify(t) if not isinstance(t, int) else t
    if isinstance(t, int):
        return t
    if z3.is_int_value(t):
        return t.as_long()
    return None


def _const_str(t):
    t = z3.simplify(t)
    if z3.is_string_value(t):
        return t.as_string()
    return None


def _as_load(node):
    n = ast.parse(ast.unparse(node), mode="eval").body
    return n


_BUILTIN_FUNCS = {
    "len", "isinstance", "issubclass", "int", "str", "bool", "float", "min", "max", "abs", "round", "list", "sorted", "reversed",
    "enumerate", "range", "iter", "next", "hasattr", "getattr", "super", "type", "sum", "any", "all", "repr", "ord",
    "tuple", "set", "dict", "map", "zip", "print", "id", "callable",
}

_COMPAT = {
    "PY2": vbool(False),
    "PY36": vbool(True),
    "PY38": vbool(True),
    "basestring": V(Kind("type"), "str"),
    "unicode": V(Kind("type"), "str"),
    "OrderedDict": V(Kind("type"), "OrderedDict"),
    "to_str": V(FN, ("builtin", "_identity_str")),
    "decode": V(FN, ("builtin", "_identity_str")),
    "encode": V(FN, ("builtin", "_identity_str")),
}
