"""Verify one function against its own contract: generates the named obligations."""
import ast
import itertools

import z3

from . import frontend
from .contracts import REG
from .kinds import Kind, parse_kind, alts, sort_of, is_refkind, INT, BOOL, STR
from .state import State, V, Out, VNONE, fresh_name, fresh_term, Unsupported, SpecError
from .symex import Engine, Frame, Obligation
from . import calls  # noqa: F401  (attaches methods to Engine)


class FuncReport:
    def __init__(self, qual):
        self.qual = qual
        self.status = "ok"  # ok | undecided | missing
        self.reason = ""
        self.obligations = []
        self.hash = None
        self.lines = None
        self.dropped = []
        self.trusted = set()
        self.inlined = set()
        self.cases = 0
        self.paths = 0


def entry_states(E, c, ci, self_cls, node=None):
    """one entry state per combination of parameter-kind alternatives"""
    plist = []
    decs = ci.decorators.get(node.name, ()) if (ci is not None and node is not None) else ()
    is_cm = "classmethod" in decs
    if ci is not None and not getattr(c, "static", False) and not is_cm and "staticmethod" not in decs:
        sk = c.self_kind or Kind("ref", self_cls or ci.name)
        plist.append(("self", [sk]))
    for n, k in c.params:
        plist.append((n, alts(k)))
    names = [n for n, _ in plist]
    for combo in itertools.product(*[ks for _, ks in plist]):
        st = State()
        st.alloc = z3.Int(fresh_name("alloc0"))
        st.pc = (st.alloc >= 0,)
        env = {}
        for n, k in zip(names, combo):
            v = E.fresh(k, "p_" + n)
            env[n] = v
            if is_refkind(k):
                st.pc = st.pc + (z3.And(v.t >= 1, v.t <= st.alloc),)
                tc = E.type_constraint(v)
                if tc is not None:
                    st.pc = st.pc + (tc,)
        for v in env.values():
            if v.kind.tag == "iter":
                from . import pymodel
                st.pc = st.pc + (z3.And(pymodel.iter_pos(E, st, v) >= 0,
                                        pymodel.iter_pos(E, st, v) <= z3.Length(pymodel.iter_seq(E, st, v))),)
        if is_cm:
            env[node.args.args[0].arg] = V(Kind("type"), ci.name)
        st.env = env
        # the entry heap is well-typed: reference fields of the parameter objects (two levels deep)
        # hold valid, correctly typed references
        st = _well_typed(E, st, [v for v in env.values() if v.kind.tag == "ref"], 2)
        yield st, dict(env), "/".join("%s:%s" % (n, k) for n, k in zip(names, combo) if len(dict(plist)[n]) > 1)


def _well_typed(E, st, objs, depth):
    if depth == 0:
        return st
    nxt = []
    for o in objs:
        for f, fk in E.R.all_fields(o.kind[1], E.P).items():
            ks = alts(fk)
            if len(ks) != 1 or not is_refkind(ks[0]):
                continue
            v = E._read_alt(st, o.t, f, ks[0])
            st = E.assume_valid_ref(st, v)
            if ks[0].tag == "ref":
                nxt.append(v)
    return _well_typed(E, st, nxt, depth - 1)


def verify_function(qual, prop, program=None, reg=None, self_cls=None, tag=None, exclusions=None, only_case=None):
    """returns FuncReport; obligations named <prop>.<Class.func>[@SelfCls].<kind>..."""
    R = reg or REG
    rep = FuncReport(qual)
    P = program or frontend.Program()
    c = R.contracts.get(qual + "#" + tag) if tag else None
    if c is None:
        c = R.contracts.get(qual + "@" + self_cls) if self_cls else None
    if c is None:
        c = R.contracts.get(qual)
    if c is None:
        raise SpecError("no contract for %s" % qual)
    try:
        mi, ci, node = P.target(qual)
    except frontend.MissingTarget as e:
        rep.status = "missing"
        rep.reason = str(e)
        return rep
    rep.hash = frontend.func_hash(mi, node)
    rep.lines = (node.lineno, node.end_lineno)
    rep.dropped = frontend.dropped(node)
    fname = qual.partition(":")[2] + (("@" + self_cls) if self_cls else "") + (("#" + tag) if tag else "")
    E = Engine(P, R)
    E.prop = prop
    E.exclusions = exclusions or {}
    obls = E.obls
    try:
        n_cases = 0
        reach_exit = []
        for st, env, label in entry_states(E, c, ci, self_cls, node):
            n_cases += 1
            if only_case is not None and (n_cases - 1) != only_case:
                continue
            fr = Frame(mi, ci, node, qual, c)
            # obligations are named after the display name (includes the receiver class)
            fr.qual = mi.name + ":" + fname
            fr_real_qual = qual
            E.frames = [fr]
            fr.qual = qual
            fr.display = fname
            fr.old = st
            fr.params = dict(env)
            # axioms over uninterpreted functions (facts about external code the abstractions stand for); each one that is
            # used is listed in the trusted base
            for an, avars, aformula, anote in getattr(R, "axioms", []):
                if getattr(c, "axioms", None) is None or an not in c.axioms:
                    continue
                consts = {n: E.fresh(k, "ax_" + n) for n, k in avars}
                E.__dict__.setdefault("quant_axioms", []).append({"n0": len(st.pc), "items": []})
                try:
                    body = E.spec_bool(aformula, st, consts, st, fr)
                finally:
                    E.quant_axioms.pop()
                E.uses_quantifiers = True
                st = st.assume(z3.ForAll([v.t for v in consts.values()], body))
                E.trusted.add("axiom %s: %s (%s)" % (an, aformula, anote))
            # requires
            for r in c.requires:
                if not calls.in_force(r, prop):
                    continue
                st = st.assume(E.spec_bool(r, st, env, st, fr))
            cov = _obl(E, "%s.%s.cover.requires" % (prop, fname), "cover", "requires satisfiable")
            cov.expect = "sat"
            cov.add(st.pc, z3.BoolVal(False), note=label)
            if not E.feasible(st):
                continue
            fr.old = st
            if "result" in env:
                env["arg_result"] = env["result"]
            E.current_case = (st, dict(env), label)
            if c.decreases:
                fr.entry_measure = E.spec_value(c.decreases, st, env, st).t
            # bind defaults not needed: every declared parameter is symbolic
            local = dict(env)
            # parameters of the real function that the contract does not mention take their defaults
            _bind_missing_defaults(E, node, local, st, ci, c)
            s0 = st.copy()
            s0.env = local
            E.frame.loop_ordinal = 0
            body = frontend.body_without_docstring(node)
            cut = getattr(c, "cut_after_loop", None)
            if cut is not None:
                # a PREFIX contract: the function is executed up to and including the top-level statement that holds its
                # loop number `cut`; the `ensures` are checked there, over the locals (a cut-point assertion).  What the
                # function does after that point is not verified under this contract.
                loops = sorted([n for n in ast.walk(node) if isinstance(n, (ast.While, ast.For))], key=lambda n: (n.lineno, n.col_offset))
                if cut >= len(loops):
                    raise Unsupported("cut point: the function has no loop %d" % cut)
                k = None
                for i, stmt in enumerate(body):
                    if any(x is loops[cut] for x in ast.walk(stmt)):
                        k = i
                if k is None:
                    raise Unsupported("cut point: loop %d is not under a top-level statement" % cut)
                rep.dropped = list(rep.dropped) + ["statements after line %d (prefix contract: verified up to the cut point only)" % body[k].end_lineno]
                E.trusted.add("prefix contract of %s: the statements after line %d are not verified" % (qual, body[k].end_lineno))
                outs = E.exec_block(body[:k + 1], s0)
                for o in outs:
                    if o.tag == "ok":
                        env2 = dict(env)
                        env2.update(o.st.env)
                        fr.params = dict(env)
                        for i, e in enumerate(c.ensures):
                            if not calls.in_force(e, prop):
                                continue
                            g = E.spec_bool(e, o.st, env2, st, fr)
                            ob = _obl(E, "%s.%s.cut%d.%d" % (prop, fname, cut, i), "cut", text=e)
                            ob.add(o.st.pc, g, note=label)
                        _check_frame(E, c, c.modifies, fr, prop, fname, o.st, env, st, "frame.cut%d" % cut)
                        reach_exit.append(o.st.pc)
                    elif o.tag == "raise":
                        _check_raise(E, c, fr, prop, fname, o.st, env, o.val, st, label)
                    elif o.tag == "return":
                        reach_exit.append(o.st.pc)
                    else:
                        raise Unsupported("break/continue at function level")
                continue
            outs = E.exec_block(body, s0)
            for o in outs:
                if o.tag in ("ok", "return"):
                    val = o.val if o.tag == "return" else VNONE
                    _check_normal(E, c, fr, prop, fname, o.st, env, val, st, label)
                    reach_exit.append(o.st.pc)
                elif o.tag == "raise":
                    _check_raise(E, c, fr, prop, fname, o.st, env, o.val, st, label)
                else:
                    raise Unsupported("break/continue at function level")
        rep.cases = n_cases
        if not getattr(c, "never_returns", False):
            cov = _obl(E, "%s.%s.cover.exit" % (prop, fname), "cover", "normal exit reachable")
            cov.expect = "sat"
            for pc in _easiest(reach_exit, 6):
                cov.add(pc, z3.BoolVal(False))
            if not reach_exit:
                cov.add((z3.BoolVal(False),), z3.BoolVal(False))
    except Unsupported as e:
        rep.status = "undecided"
        rep.reason = "outside the verified subset: %s" % e
        rep.trusted = set(E.trusted)
        return rep
    rep.obligations = list(E.obls.values())
    for ob in rep.obligations:
        ob.uses_rec = bool(getattr(E, "recfns", None))  # see solve.discharge: such proofs need agreeing seeds
    rep.trusted = set(E.trusted)
    rep.inlined = set(E.inlined)
    rep.paths = E.paths
    rep.engine = E
    return rep


def _easiest(pcs, n):
    """the exit states whose path conditions a solver is most likely to find a model for: few quantified conjuncts,
    then short (any satisfiable exit shows that the normal exit is reachable)"""
    if len(pcs) <= n:
        return list(pcs)
    step = max(1, len(pcs) // 40)
    sample = pcs[::step][:40]

    def nquant(pc):
        k = 0
        for c in pc:
            todo = [c]
            seen = 0
            while todo and seen < 400:
                x = todo.pop()
                seen += 1
                if z3.is_quantifier(x):
                    k += 1
                    break
                todo.extend(x.children())
        return k
    return sorted(sample, key=lambda pc: (nquant(pc), len(pc)))[:n]


def _excl(E, name, g, entry, env, fr):
    """a listed known finding excludes its region: the obligation is re-proved outside it"""
    regs = getattr(E, "exclusions", {}).get(name)
    if not regs:
        return g
    return z3.Or([g] + [E.spec_bool(r, entry, env, entry, fr) for r in regs])


def _obl(E, name, kind, text=""):
    return E.obl(name, kind, text)


def _bind_missing_defaults(E, node, local, st, ci, c):
    fargs = node.args
    names = [a.arg for a in fargs.args]
    defaults = fargs.defaults
    dstart = len(names) - len(defaults)
    for i, n in enumerate(names):
        if n in local:
            continue
        if i >= dstart:
            outs = E.eval(defaults[i - dstart], st)
            if len(outs) == 1 and outs[0].tag == "ok":
                local[n] = outs[0].val
                continue
        raise SpecError("parameter %s of %s is not covered by the contract" % (n, c.qual))
    if fargs.vararg:
        local.setdefault(fargs.vararg.arg, V(Kind("tuple"), ()))


def _check_normal(E, c, fr, prop, fname, st, env, val, entry, label):
    want = alts(c.returns)
    if not any(E._compatible(val.kind, w) or (w.tag == "real" and val.kind.tag in ("int", "bool"))
               or (w.tag == "int" and val.kind.tag == "bool") for w in want):
        ob = E.obl("%s.%s.post.kind" % (prop, fname), "post", "result kind %s" % (c.returns,))
        ob.add(st.pc, z3.BoolVal(False), note="returns %s, contract says %s" % (val.kind, c.returns))
        return
    if not any(E._compatible(val.kind, w) for w in want):
        for w in want:
            if w.tag == "real" and val.kind.tag in ("int", "bool"):
                val = E.to_real(val)
                break
    env2 = dict(env)
    env2["result"] = val
    for i, e in enumerate(c.ensures):
        props, _txt = calls.clause_props(e)
        if props is not None and prop not in props:
            continue
        ob = E.obl("%s.%s.post.%d" % (prop, fname, i), "post", e)
        try:
            g = E.spec_bool(e, st, env2, entry, fr)
        except SpecError as ex:
            # the clause cannot even be evaluated in this exit state (e.g. it indexes a list the code has emptied):
            # the postcondition is not established on this path
            ob.add(st.pc, z3.BoolVal(False), note="postcondition not evaluable in the exit state: %s" % ex)
            continue
        ob.add(st.pc, _excl(E, ob.name, g, entry, env, fr), note=label)
    _check_frame(E, c, c.modifies, fr, prop, fname, st, env, entry, "frame")


def _check_raise(E, c, fr, prop, fname, st, env, exc, entry, label):
    ename = exc.kind[1]
    declared = None
    for d in c.raises:
        if E.exc_is(ename, d):
            declared = d
            break
    if declared is None:
        ob = E.obl("%s.%s.safety" % (prop, fname), "safety", "no undeclared exception escapes")
        why = (exc.aux or {}).get("why", "")
        ob.add(st.pc, _excl(E, ob.name, z3.BoolVal(False), entry, env, fr), note="%s escapes%s" % (ename, (": " + why) if why else ""))
        return
    ck = (declared, id(entry))
    cache = E.__dict__.setdefault("_raise_cond_cache", {})
    if ck not in cache:
        cache[ck] = (E.spec_bool(c.raises[declared], entry, env, entry, fr), entry)
    g = cache[ck][0]
    ob = E.obl("%s.%s.raises.%s" % (prop, fname, declared), "raises", c.raises[declared])
    ob.add(st.pc, _excl(E, ob.name, g, entry, env, fr), note=label)
    for i, e in enumerate(c.ensures_on_raise.get(declared, [])):
        g = E.spec_bool(e, st, env, entry, fr)
        ob = E.obl("%s.%s.raises.%s.state.%d" % (prop, fname, declared, i), "raises", e)
        ob.add(st.pc, g, note=label)
    mods = c.raises_modifies if c.raises_modifies is not None else c.modifies
    _check_frame(E, c, mods, fr, prop, fname, st, env, entry, "frame.raise")


def _check_frame(E, c, mods, fr, prop, fname, st, env, entry, kindname):
    """nothing outside `modifies` changed on objects that existed at entry"""
    if getattr(c, "no_frame", False):
        return
    allowed = {}  # heap key -> list of ref terms (None = whole array)
    whole = set()
    for loc in mods:
        node = calls.parse_clause(loc)
        if isinstance(node, ast.Name) and node.id == "CLOCK":
            whole.add("G|clock")
            continue
        if isinstance(node, ast.Attribute):
            if isinstance(node.value, ast.Name) and node.value.id == "ANY":
                for sh in E.R.shapes.values():
                    if node.attr in sh.fields:
                        fk = sh.fields[node.attr]
                        whole.add("T|%s|%s" % (node.attr, fk))
                        for k in alts(fk):
                            for key, _srt in E.field_keys(node.attr, k):
                                whole.add(key)
                continue
            base = E.spec_value(node.value, entry, env, entry)
            if base.kind.tag == "type":
                base = E.class_object(base.t)
            fk = E.R.field_kind(base.kind[1], node.attr, E.P)
            if fk is None:
                raise SpecError("modifies %s: undeclared field" % loc)
            ks = alts(fk)
            if len(ks) > 1:
                allowed.setdefault("T|%s|%s" % (node.attr, fk), []).append(base.t)
            for k in ks:
                for key, _srt in E.field_keys(node.attr, k):
                    allowed.setdefault(key, []).append(base.t)
        elif isinstance(node, ast.Call) and node.func.id == "ITER":
            continue
        elif isinstance(node, ast.Call) and node.func.id == "LISTS":
            whole.add(E.lkey(parse_kind(ast.unparse(node.args[0]))))
            continue
        elif isinstance(node, ast.Call) and node.func.id == "items":
            base = E.spec_value(node.args[0], entry, env, entry)
            if base.kind.tag == "list":
                allowed.setdefault(E.lkey(base.kind[1]), []).append(base.t)
            else:
                kk = base.kind[1]
                allowed.setdefault("DK|%s|%s" % (kk, base.kind[2]), []).append(base.t)
                allowed.setdefault("DT|%s|%s" % (kk, base.kind[2]), []).append(base.t)
                allowed.setdefault("DO|%s|%s" % (kk, base.kind[2]), []).append(base.t)
                for k in alts(base.kind[2]):
                    if k.tag != "none":
                        allowed.setdefault(E.dvals_key(base, k), []).append(base.t)
    r = z3.Int(fresh_name("fr"))
    goals = []
    for key, cur in st.heap.items():
        if key in whole or key in ("II",) or key.startswith("IS|") or (key == "G|clock" and False):
            continue
        old = entry.heap.get(key)
        if old is None:
            old = E.base_arrays.get(key)
        if old is None or old.eq(cur):
            continue
        excl = [r != a for a in allowed.get(key, [])]
        goals.append(z3.Implies(z3.And([r >= 1, r <= entry.alloc] + excl), z3.Select(cur, r) == z3.Select(old, r)))
    if goals:
        ob = E.obl("%s.%s.%s" % (prop, fname, kindname), "frame", "modifies " + ", ".join(mods) if mods else "modifies nothing")
        ob.add(st.pc, z3.And(goals))
    else:
        ob = E.obl("%s.%s.%s" % (prop, fname, kindname), "frame", "modifies " + ", ".join(mods) if mods else "modifies nothing")
        ob.add(st.pc, z3.BoolVal(True))


def count_cases(qual, self_cls=None, reg=None):
    R = reg or REG
    c = R.contracts.get(qual + "@" + self_cls) if self_cls else None
    c = c or R.contracts[qual]
    n = 1
    for _n, k in c.params:
        n *= len(alts(k))
    return n


def verify_lemma(name, prop, reg=None):
    """pure lemma over spec functions"""
    R = reg or REG
    lem = R.lemmas[name]
    E = Engine(frontend.Program(), R)
    E.prop = prop
    st = State()
    st.alloc = z3.Int(fresh_name("alloc0"))
    st.pc = (st.alloc >= 0,)
    env = {}
    rep = FuncReport("lemma:" + name)
    combos = itertools.product(*[alts(k) for _, k in lem.vars])
    E.frames = [Frame(None, None, None, "lemma:" + name)]
    try:
        for combo in combos:
            s = st.copy()
            env = {}
            for (n, _), k in zip(lem.vars, combo):
                v = E.fresh(k, "l_" + n)
                env[n] = v
                if is_refkind(k):
                    s = s.assume(z3.And(v.t >= 1, v.t <= s.alloc))
            for a in lem.assumes:
                s = s.assume(E.spec_bool(a, s, env, s))
            g = E.spec_bool(lem.goal, s, env, s)
            ob = E.obl("%s.lemma.%s" % (prop, name), "lemma", lem.goal)
            ob.add(s.pc, g)
            cov = E.obl("%s.lemma.%s.cover" % (prop, name), "cover", "assumptions satisfiable")
            cov.expect = "sat"
            cov.add(s.pc, z3.BoolVal(False))
    except Unsupported as e:
        rep.status = "undecided"
        rep.reason = str(e)
        return rep
    rep.obligations = list(E.obls.values())
    rep.trusted = set(E.trusted)
    return rep
