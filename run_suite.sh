#!/bin/sh
# the repository's pinned suite (BASELINE.json cmd); prints the summary line
cd "${CLIKIT_REPO:-/repo}" && /venv/bin/python -m pytest -ra -q -p no:cacheprovider --timeout=900 --continue-on-collection-errors "$@" 2>&1 | tail -4
