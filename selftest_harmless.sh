run() { # prop file sed...
  prop="$1"; file="$2"; shift 2
  wt=$(mktemp -d /tmp/wt_h.XXXXXX); rmdir "$wt"; git -C /repo worktree add -q "$wt" HEAD
  for e in "$@"; do sed -i "$e" "$wt/$file"; done
  if git -C "$wt" diff --quiet; then echo "NOT APPLIED: $prop $file"; fi
  s=$(cd "$wt" && PYTHONPATH=$wt/src /venv/bin/python -m pytest -q -p no:cacheprovider tests 2>&1 | tail -1)
  out=$(cd /verif && CLIKIT_REPO="$wt" ./check "$prop" --no-bounded 2>&1 | grep -v "^  File\|^    " | tail -3 | cut -c1-230)
  echo "== $prop $file [suite: $s]"; echo "$out"
  git -C /repo worktree remove --force "$wt"
}
run C10 src/clikit/api/io/output.py 's/\bformatted\b/text_out/g'
run C02 src/clikit/args/default_args_parser.py 's/\bparse_options\b/options_allowed/g'
run C08 src/clikit/args/token_parser.py 's/        self._cursor += 1\n        self._current = self._next_/X/' 's/^        token = ""$/        token = str()/'
run C16 src/clikit/ui/components/progress_bar.py 's/\bprev_period\b/period_before/g; s/\bcurr_period\b/period_now/g'
run C12 src/clikit/api/event/event_dispatcher.py 's/        for listener in listeners:\n/X/; s/\blistener(event, event_name, self)/listener(event, event_name, self)/; s/    def _do_dispatch(\n/X/' 's/            if event.is_propagation_stopped():/            if event.is_propagation_stopped() is True:/'
run C17 src/clikit/resolver/help_resolver.py 's/\bprevious\b/saved_mode/g'
run C04 src/clikit/api/command/command.py 's/        return min(max(int(status_code), 1), 255)/        code = int(status_code)\n        return min(max(code, 1), 255)/'
run C15 src/clikit/api/io/section_output.py 's/\bline_content\b/one_line/g'
run C06 src/clikit/api/args/format/args_format_builder.py 's/        long_name = option.long_name\n        short_name = option.short_name/X/' 's/\bshort_name = option.short_name/short_name = option.short_name  # alias/'
run C18 src/clikit/ui/components/question.py 's/\battempts\b/tries_left/g'
run C19 src/clikit/ui/components/progress_indicator.py 's/\bcurrent_time\b/now_ms/g'
run C07 src/clikit/api/args/format/option.py 's/        if self.is_multi_valued():\n            self._default = \[\]/X/' 's/        self._value_name = value_name/        self._value_name = value_name if value_name else value_name/'
run C03 src/clikit/resolver/default_resolver.py 's/\bnext_command\b/found/g'
run C06 src/clikit/api/args/format/args_format_builder.py 's/\blong_alias\b/alias_long/g'
run C01 src/clikit/api/args/args.py 's/                    default = False\n/X/' 's/\bdefault = False/default = bool(0)/'
run C11 src/clikit/formatter/ansi_formatter.py 's/\bpastel_style\b/converted/g'
run C20 src/clikit/ui/components/exception_trace.py 's/\bstack_frames\b/kept_frames/g'
run C13 src/clikit/ui/help/command_help.py 's/        config = command.config\n/X/' 's/\bhelp = config.help\b/help = config.help  # long text/'
run C14 src/clikit/ui/components/table.py 's/\bscreen_width = io.terminal_dimensions.width/screen_width = int(io.terminal_dimensions.width)/'
run C17 src/clikit/ui/style/border_style.py 's/            style = cls()/            style = cls()  # prototype/'
run C05 src/clikit/args/default_args_parser.py 's/\bmissing_arguments\b/absent/g'
run C09 src/clikit/config/default_application_config.py '/^from\|^import/!s/\binput_stream\b/in_stream/g'
# added with the contracts of the last third of the build
run C19 src/clikit/ui/components/progress_indicator.py 's/^        self\._started = True$/        self._started = bool(1)/'
run C12 src/clikit/api/event/event_dispatcher.py 's/^        listeners = self\.get_listeners(event_name)$/        listeners = self.get_listeners(event_name)  # the ordered view/'
run C11 src/clikit/api/io/output.py 's/^        self\._quiet = False$/        self._quiet = bool(0)/'
run C20 src/clikit/ui/components/exception_trace.py 's/^            # The source cannot be tokenized (it changed on disk after it was$/            # Fallback. The source cannot be tokenized (it changed on disk after it was/'
run C02 src/clikit/args/default_args_parser.py 's/^        name = token\[2:\]$/        name = token[2:]  # without the two dashes/'
run C17 src/clikit/console_application.py 's/^            command = resolved_command.command$/            command = resolved_command.command  # selected/'
# added with the contracts of rounds 7 and 8
run C07 src/clikit/api/args/format/option.py 's/^        self\._default = default$/        self._default = default  # as given/'
run C12 src/clikit/api/config/application_config.py 's/^        self\._dispatcher\.add_listener(event_name, listener, priority)$/        self._dispatcher.add_listener(event_name, listener, priority)  # on the dispatcher of the configuration/'
run C12 src/clikit/api/event/pre_handle_event.py 's/^        self\._handled = handled$/        self._handled = bool(handled) if handled is not True and handled is not False else handled/'
run C05 src/clikit/args/argv_args.py 's/^        argv = argv\[:\]$/        argv = list(argv)/'
run C04 src/clikit/console_application.py 's/^            parsed_args = resolved_command.args$/            parsed_args = resolved_command.args  # of this run/'
# added in the continuation session (C13 element loops, C06 mirrored lookups, C20 / C18 getters)
run C13 src/clikit/ui/help/command_help.py 's/^        for option in options:$/        for option in options:  # one line each/'
run C13 src/clikit/ui/help/command_help.py 's/^        for argument in arguments:$/        for arg in arguments:/; s/^            self\._render_argument(layout, argument)$/            self._render_argument(layout, arg)/'
run C06 src/clikit/api/args/format/args_format.py 's/^        if include_base and self\._base_format:$/        if include_base and self._base_format is not None:/'
run C20 src/clikit/api/io/output.py 's/^        return self\._verbosity == DEBUG$/        return DEBUG == self._verbosity/'
