#!/bin/sh
# usage: selftest_mut.sh <prop> <file relative to repo> <sed expression> [extra check args]
# applies one mutation in a scratch worktree, runs the check, removes the worktree
prop="$1"; file="$2"; expr="$3"; shift 3
wt=$(mktemp -d /tmp/wt_mut.XXXXXX); rmdir "$wt"
git -C /repo worktree add -q "$wt" HEAD || exit 2
sed -i "$expr" "$wt/$file"
if git -C "$wt" diff --quiet; then echo "MUTATION DID NOT APPLY"; fi
(cd /verif && CLIKIT_REPO="$wt" ./check "$prop" "$@" | grep -v "^  undecided" | tail -4)
git -C /repo worktree remove --force "$wt"
