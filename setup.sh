#!/bin/sh
# Builds the overlay interpreter used by every check: a Python 3.12 venv (same
# interpreter as /venv, so the real clikit code and its dependencies import)
# with z3-solver, cvc5, crosshair, deal, jsonschema from the offline wheelhouse.
# Nothing is fetched.  Idempotent.
set -e
cd "$(dirname "$0")"
if [ ! -x .venv/bin/python ] || ! .venv/bin/python -c "import z3, clikit, pastel" 2>/dev/null; then
  rm -rf .venv
  /venv/bin/python -m venv .venv
  PIP_NO_INDEX=1 .venv/bin/pip install -q --no-index --find-links /opt/veriftools/wheels \
      z3-solver cvc5 jsonschema crosshair-tool deal icontract hypothesis
  echo "import site; site.addsitedir('/venv/lib/python3.12/site-packages')" \
      > .venv/lib/python3.12/site-packages/zz_repo.pth
fi
.venv/bin/python -c "import z3, clikit, pastel, crashtest, pylev; print('pyvc setup ok: z3', z3.get_version_string())"
