"""C01 -- see DESIGN.md section 5.  Deductive targets are added below the bounded import."""
PROP = "C01"
LEVEL = "other"
EXPLANATION = 'bounded stand-in: generated formats x assignments x spellings parsed (strict and lenient) on the real parser and compared with the intended assignment; access agreement of Args; deductive obligations on the parser are being added'
TARGETS = []
LEMMAS = []
try:
    from .C01_bounded import bounded, BOUNDED_RULE  # noqa: F401
    try:
        from .C01_bounded import replay_bounded  # noqa: F401
    except ImportError:
        pass
except ImportError:
    pass
