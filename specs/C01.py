"""C01 -- see DESIGN.md section 5.  Deductive targets are added below the bounded import."""
PROP = "C01"
LEVEL = "other"
EXPLANATION = ('Deductive: Args.option / is_option_set / argument / is_argument_set are verified against contracts that give the answer as a function of the ELEMENT a name denotes (stored value, else declared default, else False for a value-less option; KeyError-free for every way of naming), so access by long name, short name or position agrees for every well-formed format; Args.options() hands out a fresh snapshot and leaves the stored map untouched; Args.set_option (value-less and single-valued options) and Args.set_argument (single-valued) store, under the own name of the element, True / nothing for a flag and otherwise a value of the declared type (None only for a nullable element given None or the text null), change nothing else and store nothing when the conversion raises ValueError; the conversions themselves are C07.  Bounded: generated formats x assignments x spellings parsed in strict and lenient mode by a fresh and by a long-lived parser and compared with the intended assignment.')
LEVEL_NOTE = ("assumes: the format's lookups behave as a well-formed format (the view and invariant of C06); the full round trip parse(spell(fmt, A)) == A needs Seq(String) invariants over the parser loops that neither solver decides: bounded only")
from . import args_contracts as acx
TARGETS = [acx.A + m for m in ("option", "is_option_set", "argument", "is_argument_set", "options")] + acx.SET_OPTION_TARGETS
LEMMAS = []
try:
    from .C01_bounded import bounded, BOUNDED_RULE  # noqa: F401
    try:
        from .C01_bounded import replay_bounded  # noqa: F401
    except ImportError:
        pass
except ImportError:
    pass


def structural():
    """(as for C02) the round trip is stated for any parser object: the parser's frame obligations are included"""
    from .C05_structural import structural as s5
    out = []
    for o in s5():
        o = dict(o)
        o["name"] = o["name"].replace("C05.", "C01.", 1)
        out.append(o)
    return out
