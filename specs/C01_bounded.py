"""C01 bounded tier -- parsing a well-formed command line recovers exactly the intended values.

Oracle (from the property statement and DESIGN 5/C01): for a format F, an assignment A and a line L produced by the
grammar spell(F, A), parse(L, F, lenient) for lenient in {False, True} returns Args whose options(False) /
arguments(False) are exactly the typed values of A (multi-values in command-line order, nothing else), whose
options(True) / arguments(True) add the declared defaults (False for value-less options), and for which
option(long) == option(short), argument(i) == argument(name), is_option_set / is_argument_set agree for every way of
naming.  Generators and oracle live in specs/args_gen.py.
"""
import itertools

from . import args_gen as G

BOUNDED_RULE = (
    "formats are generated from json specs (options: value mode no-value/required/optional/multi x type str/bool/int/float x "
    "nullable x short name x default None/typed; arguments required/optional/multi/required-multi x type x nullable x default; "
    "0-2 command names with aliases; optional split into base format + own format); assignments give each option unset / a "
    "pool value / bare (optional-value) / a value sequence (multi) and positional values that fit the arguments; every case is "
    "one spelled line (forms --l=v, --l v, -sv, -s v, grouped short flags with optional value-taking tail, options interleaved "
    "with positionals, command names present by name or alias or omitted from some point, `--` before any suffix of the "
    "positionals) parsed once strictly and once leniently on a fresh parser. A case is distinct by (format spec, token list, "
    "mode); it is non-trivial when the format has at least one element and the line at least one token. Interpretation: an "
    "optional-value option given bare is set to its declared default; when that default is None and the type is not nullable "
    "there is no value of the declared type to recover: for str both None and the library's rendering 'null' are accepted, for "
    "int/float/bool the documented ValueError ('The value \"None\" cannot be parsed ...') is accepted, any other exception "
    "(D3: TypeError) is reported as roundtrip|bare-optional-none-default|<type>|<exception>."
)


class _Runner(object):
    def __init__(self, ctx):
        self.ctx = ctx
        self.lim = G.SigLimiter(ctx, per=2)
        self.capped = 0
        self.stopped = False
        self.feats = {}
        # one long-lived parser object serves every line as well: the statement holds for any parser object, not
        # only for a fresh one (a config hands the same parser to all its commands)
        self.shared = G.new_parser()

    def line(self, spec, fid, fmt, A, items, feats):
        tokens = G.flat(items)
        nt = bool(tokens) and G.fmt_nontrivial(spec)
        for f in feats:
            self.feats[f] = self.feats.get(f, 0) + 1
        found = {}
        for lenient in (False, True):
            out = G.parse_outcome(G.new_parser(), fmt, tokens, lenient)
            self.ctx.case([fid, tokens, lenient], nontrivial=nt,
                          sample={"format": spec, "line": tokens, "lenient": lenient} if nt and len(feats) >= 3 else None)
            for sig, what in G.problems(spec, A, out):
                found.setdefault(sig, []).append((lenient, what))
            out2 = G.parse_outcome(self.shared, fmt, tokens, lenient)
            if G.outcome_key(out2) != G.outcome_key(out):
                found.setdefault("reused-parser-differs", []).append(
                    (lenient, "a parser object that served earlier lines gives %r, a fresh one %r" % (
                        G.outcome_key(out2), G.outcome_key(out))))
        for sig, hits in found.items():
            # same class in both modes: one signature; otherwise the mode is part of the class
            mode = "" if len(hits) == 2 else ("|lenient-only" if hits[0][0] else "|strict-only")
            self.lim.fail("roundtrip|%s%s" % (sig, mode), "%s  [line %r, %s]" % (
                hits[0][1], tokens, "strict and lenient" if len(hits) == 2 else ("lenient" if hits[0][0] else "strict")),
                {"fmt": spec, "assign": A, "tokens": tokens, "lenient": hits[0][0]})

    def format(self, spec, assignments, cap_all, k_over, rng):
        """per assignment: every spelling when there are at most cap_all, otherwise k_over seeded random ones
        (cap_all == 0: always k_over random ones)"""
        fmt = G.build_format(spec)
        fid = G.fid(spec)
        for A in assignments:
            sp = None
            if cap_all:
                sp, complete = G.all_spellings(spec, A, cap_all + 1)
                if not complete:
                    sp = None
                    self.capped += 1
            else:
                self.capped += 1
            if sp is None:
                sp = G.some_spellings(spec, A, rng, k_over)
            for items, feats in sp:
                self.line(spec, fid, fmt, A, items, feats)
            if self.ctx.out_of_time():
                self.stopped = True
                return

    def note(self):
        n = []
        if self.capped:
            n.append("%d assignments were spelled by seeded sampling instead of all spellings" % self.capped)
        if self.stopped:
            n.append("stopped at the deadline")
        n.append("spelling features exercised: " + ", ".join("%s x%d" % kv for kv in sorted(self.feats.items())))
        s = self.lim.note()
        if s:
            n.append(s)
        return "; ".join(n)


# ------------------------------------------------------------------ format families
def one_option_formats(nested):
    """a single option variant in its surroundings: flat (no argument / one command name + required argument) or nested"""
    for mode, typ, nullable, short, d in G.option_variants():
        o = G.mk_opt(0, mode, typ, nullable, short, d)
        if not nested:
            yield G.fmt_spec((), [o], ())
            yield G.fmt_spec(G.CMD_NAMES[:1], [o], [G.arg_spec("first", "req", "str")])
        else:
            yield G.fmt_spec(G.CMD_NAMES[:2], [o],
                             [G.arg_spec("cmd11", "opt", "int", False, 5), G.arg_spec("rest", "multi", "str")], base=[1, 1, 1])


_TYPE_PAIRS = (("str", "int"), ("int", "bool"), ("float", "str"), ("bool", "float"))


def option_pair_formats():
    for m1, m2 in itertools.product(G.MODES, repeat=2):
        for t1, t2 in _TYPE_PAIRS:
            for variant in range(3):
                nullable = variant == 1
                short2 = variant != 2
                d1 = None if variant != 2 or m1 == "flag" else (G.TYPED_DEFAULT[t1] if m1 != "multi" else [G.TYPED_DEFAULT[t1]])
                o1 = G.mk_opt(0, m1, t1, nullable, True, d1)
                o2 = G.mk_opt(1, m2, t2, nullable, short2, None)
                flag3 = G.mk_opt(2, "flag", "str", False, True, None)
                yield G.fmt_spec((), [o1, o2], [G.arg_spec("first", "req", "str")])
                yield G.fmt_spec(G.CMD_NAMES[:1], [o1, o2, flag3], [G.arg_spec("rest", "multi", "str")], base=[0, 1, 0])


def argument_formats(max_len):
    opts = [G.mk_opt(0, "flag", "str", False, True, None), G.mk_opt(1, "opt", "str", False, True, "dflt")]
    for ln in range(0, max_len + 1):
        for kinds in itertools.product(G.ARG_KINDS, repeat=ln):
            if not G.valid_arg_kinds(kinds):
                continue
            for types in itertools.product(G.TYPES, repeat=ln):
                for nulls in itertools.product((False, True), repeat=ln):
                    for typed in (False, True):
                        if typed and not any(kd in ("opt", "multi") for kd in kinds):
                            continue
                        args = [G.arg_spec(G.ARG_NAMES[i], kinds[i], types[i], nulls[i], G.arg_default(kinds[i], types[i], typed))
                                for i in range(ln)]
                        for nn in (0, 1, 2):
                            base = [1, 1, 1 if ln else 0] if nn == 2 else None
                            yield G.fmt_spec(G.CMD_NAMES[:nn], opts, args, base)


def _argument_assignments(spec, pos_pool, rng, keep):
    oalts = [{}, {"dry-run": ["bare"], "alpha": ["flag"]}, {"dry-run": ["val", "-x"]}]
    for p in G.positional_alternatives(spec["args"], pos_pool, 2):
        for od in oalts:
            if keep >= 1.0 or rng.random() < keep:
                yield {"o": dict(od), "p": p}


# ------------------------------------------------------------------ the checks
def bounded(ctx):
    quick = ctx.quick
    rng = ctx.rng

    def spell_text(cap_all, k_over):
        if not cap_all:
            return "%d seeded spellings per assignment" % k_over
        return "all spellings of an assignment when it has at most %d, else %d seeded ones" % (cap_all, k_over)

    def finish(r, exhaustive_possible):
        ctx.done(exhaustive=exhaustive_possible and not r.capped and not r.stopped, note=r.note())

    # 1a -- every variant of one option, flat surroundings
    cap, k = (0, 6) if quick else (3000, 40)
    ctx.check("roundtrip_one_option",
              "every single-option format: value mode x type x nullable x short name x default None/typed (112 variants) x 2 "
              "surroundings (no argument, no name; 1 command name with alias + 1 required str argument) x all assignments (option "
              "unset / each of the 6 pool values of its type / bare / value sequences of length 1-2 over 3 values; positional over "
              "'x' and '') x " + spell_text(cap, k) + " x strict/lenient")
    r = _Runner(ctx)
    for spec in one_option_formats(False):
        r.format(spec, G.all_assignments(spec, pool=6, pos_pool=2, multi_max=2, multi_pool=3), cap, k, rng)
        if r.stopped:
            break
    finish(r, not quick)

    # 1b -- every variant of one option under two command names, base format, optional + multi-valued arguments
    pool, mpool, k = (3, 2, 3) if quick else (6, 3, 24)
    ctx.check("roundtrip_one_option_nested",
              "the 112 single-option variants in a base format that also holds the first of 2 command names (with aliases) and an "
              "optional int argument named cmd11 (default 5), own format: second name + multi-valued str argument; all assignments "
              "(option over the first %d pool values, sequences of length 1-2 over %d values; positionals over 2 values, multi 0-2) "
              "x %d seeded spellings x strict/lenient" % (pool, mpool, k))
    r = _Runner(ctx)
    for spec in one_option_formats(True):
        r.format(spec, G.all_assignments(spec, pool=pool, pos_pool=2, multi_max=2, multi_pool=mpool), 0, k, rng)
        if r.stopped:
            break
    finish(r, False)

    # 2 -- two (three) options together: groups, bare option followed by another option, value lookahead
    cap, k = (0, 1) if quick else (80, 16)
    ctx.check("roundtrip_option_pairs",
              "every ordered pair of value modes (16) x 4 type pairs x 3 variants (plain / nullable / second without short name and "
              "first with typed default) in 2 surroundings (1 required argument; 1 command name + multi-valued argument + a third "
              "short flag, first option in a base format) x all assignments over 2-value pools (bare, sequences of length 1-2) x "
              + spell_text(cap, k) + " x strict/lenient")
    r = _Runner(ctx)
    for spec in option_pair_formats():
        r.format(spec, G.all_assignments(spec, pool=2, pos_pool=1, multi_max=2, multi_pool=2), cap, k, rng)
        if r.stopped:
            break
    finish(r, False)

    # 3 -- arguments
    ppool, keep, cap, k = (2, 0.3, 0, 1) if quick else (3, 1.0, 12, 4)
    ctx.check("roundtrip_arguments",
              "every valid argument list of length 0-2 over kind (required/optional/multi/required-multi) x type x nullable x "
              "default None/typed, x 0/1/2 command names with aliases (2 names: first name, flag and first argument in a base "
              "format), with a short flag and an optional-value option; positional values over the first %d pool values of each "
              "type (incl. '' and dash-led values that need `--`), multi 0-2 values, x 3 option assignments%s x %s x strict/lenient"
              % (ppool, "" if keep >= 1 else " (each (positionals, options) combination kept with probability %.1f, seeded)" % keep,
                 spell_text(cap, k)))
    r = _Runner(ctx)
    for spec in argument_formats(2):
        r.format(spec, _argument_assignments(spec, ppool, rng, keep), cap, k, rng)
        if r.stopped:
            break
    finish(r, False)

    # 4 -- random larger formats
    nfmt, nas, nsp = (2500, 3, 2) if quick else (20000, 3, 6)
    ctx.check("roundtrip_random",
              "%d seeded random formats (0-5 options over every mode/type/nullable/short/default, 0-4 typed arguments, 0-2 command "
              "names with aliases, 40%% with a random base split) x %d random assignments (values from the 6-value pools, positionals "
              "also equal to command names / aliases) x %d random spellings x strict/lenient" % (nfmt, nas, nsp))
    r = _Runner(ctx)
    for _ in range(nfmt):
        spec = G.random_format(rng)
        r.format(spec, [G.random_assignment(rng, spec) for _ in range(nas)], 0, nsp, rng)
        if r.stopped:
            break
    finish(r, False)


def replay_bounded(check_id, failure):
    w = failure["witness"]
    spec, A = w["fmt"], w["assign"]
    fmt = G.build_format(spec)
    out = G.parse_outcome(G.new_parser(), fmt, w["tokens"], w["lenient"])
    pr = G.problems(spec, A, out)
    want = failure["signature"].split("|", 1)[1]
    for suffix in ("|lenient-only", "|strict-only"):
        if want.endswith(suffix):
            want = want[:-len(suffix)]
    hit = [p for p in pr if p[0] == want]
    return {"fails": bool(hit), "detail": "; ".join(p[1] for p in (hit or pr)) or "the witness parses to its assignment"}
