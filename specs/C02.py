"""C02 -- see DESIGN.md section 5.  Deductive targets are added below the bounded import."""
PROP = "C02"
LEVEL = "other"
EXPLANATION = 'bounded stand-in: token soup over the adversarial alphabet x small formats, single-fault mutations of valid lines; exception classes, lenient totality, lenient == strict on success; conversions raising only ValueError are proved under C07'
TARGETS = []
LEMMAS = []
try:
    from .C02_bounded import bounded, BOUNDED_RULE  # noqa: F401
    try:
        from .C02_bounded import replay_bounded  # noqa: F401
    except ImportError:
        pass
except ImportError:
    pass
