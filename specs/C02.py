"""C02 -- see DESIGN.md section 5.  Deductive targets are added below the bounded import."""
PROP = "C02"
LEVEL = "other"
EXPLANATION = ('Deductive: the option side of DefaultArgsParser (_parse, _parse_long_option, _parse_short_option, _parse_short_option_set, _add_long_option, _add_short_option) is verified against `raises only CannotParseArgsException / NoSuchOptionException` for ALL token lists and all well-formed formats (every index, pop, dict lookup and attribute access carries its CPython failure condition as a safety obligation), together with the scratch invariant that stored names belong to the format and multi-valued options hold lists, and with the exact-name clauses: an option token is accepted only if the format has an option under exactly the name that was typed (everything after the two dashes up to the first `=`; the first letter after one dash; every letter of a group that was looked at), and NoSuchOptionException is raised only if it has none; conversions raising only ValueError are proved under C07.  Bounded: token soup over the adversarial alphabet x small formats, single-fault mutations of valid lines, lenient totality, lenient == strict on success.')
LEVEL_NOTE = ("assumes: the format's lookups behave as a well-formed format (C06 view, C07 normal form); the positional side (_parse_argument, command-name re-alignment) and lenient == strict are bounded only; termination of the classification loop is not proved (coarse frame of the assumed positional contract)")
from . import parser_contracts as pcx
TARGETS = [pcx.P + m for m in ("_add_long_option", "_add_short_option", "_parse_short_option_set", "_parse_long_option", "_parse_short_option", "_parse")]
LEMMAS = []
try:
    from .C02_bounded import bounded, BOUNDED_RULE  # noqa: F401
    try:
        from .C02_bounded import replay_bounded  # noqa: F401
    except ImportError:
        pass
except ImportError:
    pass


def structural():
    """C02's per-parse claims presuppose that a parse depends on (tokens, format, mode) only: the frame obligations
    of the parser object (see C05_structural) are part of this check as well"""
    from .C05_structural import structural as s5
    out = []
    for o in s5():
        o = dict(o)
        o["name"] = o["name"].replace("C05.", "C02.", 1)
        out.append(o)
    return out
