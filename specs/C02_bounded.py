"""C02 bounded tier -- malformed command lines are rejected with the documented errors and only those.

Oracle (property statement + DESIGN 5/C02):
* strict parse of ANY token sequence against ANY format either returns or raises CannotParseArgsException /
  NoSuchOptionException / ValueError -- nothing else;
* lenient parse never raises the two parse errors (ValueError for a non-convertible value is the only exception it may
  raise);
* whenever the strict parse returns, the lenient parse returns the identical result;
* a single fault injected into a valid line of C01 (required positional dropped, surplus positional, unknown option,
  value given to a flag, required option value stripped, non-convertible value) is rejected in strict mode with the
  documented class (unknown option: NoSuchOptionException; non-convertible: ValueError; the others:
  CannotParseArgsException).
"""
import itertools

from . import args_gen as G

BOUNDED_RULE = (
    "token soup: token sequences over the 26-token adversarial alphabet of args_gen.SOUP_ALPHABET ('', '-', '--', '---', "
    "'--=', '-=', known / unknown long and short options with and without '=value', attached values, grouped shorts with and "
    "without an unknown letter, a negative number, 'null', a word, a digit) x 6 small formats (no element at all; options "
    "only; one required argument; typed required + optional arguments; command name + multi-valued argument; two command "
    "names with aliases equal to alphabet words, base format), the four option modes present in each with the types varied; "
    "format-derived soup: random C01 formats with an alphabet built from their own option names; single-fault mutations of "
    "valid C01 lines. Each case = one (format, token list) parsed strictly and leniently on fresh parsers; distinct by "
    "(format, tokens[, fault]); non-trivial when the token list is not empty."
)


def _soup_case(ctx, lim, check, name, spec, fmt, tokens, extra_key=None):
    s = G.parse_outcome(G.new_parser(), fmt, tokens, False)
    l = G.parse_outcome(G.new_parser(), fmt, tokens, True)
    ctx.case([name, tokens] if extra_key is None else [name, tokens, extra_key], nontrivial=bool(tokens))
    for sig, what in G.soup_problems(s, l):
        lim.fail("%s|%s" % (check, sig), "%s  [format %s, tokens %r]" % (what, name, tokens),
                 {"kind": "soup", "fmt": spec, "tokens": tokens})
    return s, l


def bounded(ctx):
    quick = ctx.quick
    rng = ctx.rng
    AL = G.SOUP_ALPHABET
    formats = [(name, spec, G.build_format(spec)) for name, spec in G.soup_formats()]

    # 1 -- exhaustive soup
    L = 3 if quick else 4
    ctx.check("soup", "all token sequences of length 0-%d over the 26-token alphabet (%d sequences) x 6 small formats x "
                      "strict/lenient" % (L, sum(len(AL) ** n for n in range(L + 1))))
    lim = G.SigLimiter(ctx, per=2)
    stopped = False
    for name, spec, fmt in formats:
        for n in range(L + 1):
            for seq in itertools.product(AL, repeat=n):
                _soup_case(ctx, lim, "soup", name, spec, fmt, list(seq))
            if ctx.out_of_time():
                stopped = True
                break
        if stopped:
            break
    ctx.done(exhaustive=not stopped, note=("stopped at the deadline; " if stopped else "") + lim.note())

    # 2 -- sampled longer soup
    lens = (4, 5, 6)
    per = 1500 if quick else 40000
    ctx.check("soup_long", "%d seeded token sequences for each length %s over the 26-token alphabet x 6 small formats x "
                           "strict/lenient" % (per, "/".join(str(x) for x in lens if x > L)))
    lim = G.SigLimiter(ctx, per=2)
    stopped = False
    for name, spec, fmt in formats:
        for n in lens:
            if n <= L:
                continue
            for _ in range(per):
                _soup_case(ctx, lim, "soup", name, spec, fmt, [rng.choice(AL) for _ in range(n)])
        if ctx.out_of_time():
            stopped = True
            break
    ctx.done(exhaustive=False, note=("stopped at the deadline; " if stopped else "") + lim.note())

    # 3 -- soup over random formats with an alphabet derived from the format
    nfmt, nseq = (400, 40) if quick else (6000, 100)
    ctx.check("soup_derived", "%d seeded random formats (0-5 options of every mode/type/nullable/short/default, 0-4 typed "
                              "arguments, 0-2 command names, base split) x %d token sequences of length 1-6 over an alphabet built "
                              "from the format's own long/short names (bare, '=', '=value', '=abc', attached, all shorts grouped, "
                              "group with an unknown letter), command names, and the format-independent junk tokens x "
                              "strict/lenient" % (nfmt, nseq))
    lim = G.SigLimiter(ctx, per=2)
    stopped = False
    for i in range(nfmt):
        spec = G.random_format(rng)
        fmt = G.build_format(spec)
        al = G.derived_alphabet(spec, rng)
        name = "r" + G.fid(spec)
        for _ in range(nseq):
            _soup_case(ctx, lim, "soup", name, spec, fmt, [rng.choice(al) for _ in range(rng.randint(1, 6))])
        if ctx.out_of_time():
            stopped = True
            break
    ctx.done(exhaustive=False, note=("stopped at the deadline; " if stopped else "") + lim.note())

    # 4 -- single-fault mutations of valid lines
    nfmt, nas, nsp = (1200, 3, 2) if quick else (15000, 3, 3)
    ctx.check("mutations", "%d seeded random C01 formats x %d assignments x %d spellings: the valid line (lenient result must equal "
                           "the strict one) and every applicable single-fault mutation of it (drop the last required positional; "
                           "append a surplus positional; insert an unknown long/short option at a random unit boundary; unknown "
                           "letter inside a flag group; '=value' / '=' on a flag; required or multi option value stripped ('--x=' or "
                           "bare before an option / end); non-convertible value for a typed option or argument) x strict/lenient"
              % (nfmt, nas, nsp))
    lim = G.SigLimiter(ctx, per=2)
    counts = {}
    ch = G.RandomChooser(rng)
    stopped = False
    for i in range(nfmt):
        spec = G.random_format(rng)
        fmt = G.build_format(spec)
        name = "m" + G.fid(spec)
        for _ in range(nas):
            A = G.random_assignment(rng, spec)
            for items, feats in G.some_spellings(spec, A, rng, nsp):
                tokens = G.flat(items)
                s, l = _soup_case(ctx, lim, "valid-line", name, spec, fmt, tokens, "valid")
                for kind, variant, mtoks, want in G.mutations(spec, A, items, ch):
                    counts[kind] = counts.get(kind, 0) + 1
                    for sig, what in mutation_problems(spec, A, fmt, mtoks, want):
                        if "%s" in sig:
                            sig = sig % ("%s|%s" % (kind, variant))
                        lim.fail("mutation|" + sig, "%s  [%s: valid line %r, mutated %r]" % (what, kind, tokens, mtoks),
                                 {"kind": "mutation", "fmt": spec, "assign": A, "tokens": mtoks, "want": want, "valid": tokens,
                                  "fault": "%s|%s" % (kind, variant)})
                    ctx.case([name, mtoks, kind], nontrivial=True)
        if ctx.out_of_time():
            stopped = True
            break
    ctx.done(exhaustive=False, note=("stopped at the deadline; " if stopped else "")
             + "mutations applied: " + ", ".join("%s x%d" % kv for kv in sorted(counts.items())) + "; " + lim.note())


def mutation_problems(spec, A, fmt, tokens, want):
    """(signature tail, text) for one faulty line.  An exception outside the documented classes is an `escape|site|mode`
    whatever the fault was (same defect => same signature); the other classes are specific to the fault."""
    res = []
    s = G.parse_outcome(G.new_parser(), fmt, tokens, False)
    l = G.parse_outcome(G.new_parser(), fmt, tokens, True)
    if s[0] == "ok":
        res.append(("%s|accepted", "strict parse accepted the faulty line (expected %s)" % want))
    elif s[1] not in G.STRICT_ALLOWED:
        res.append(("escape|%s|strict" % s[3], "strict parse raised %s: %s (expected %s)" % (s[1], s[2], want)))
    elif s[1] != want:
        res.append(("%%s|raises-%s" % s[1], "strict parse raised %s: %s (expected %s)" % (s[1], s[2], want)))
    if l[0] == "exc":
        if l[1] in G.PARSE_ERRORS:
            res.append(("%s|lenient-raises-parse-error", "lenient parse raised %s: %s" % (l[1], l[2])))
        elif l[1] != "ValueError":
            res.append(("escape|%s|lenient" % l[3], "lenient parse raised %s: %s" % (l[1], l[2])))
        elif want != "ValueError" and not G.undecided_bare(spec, A):
            # (a lenient parse goes on after the fault with what it has; only a bare optional-value option whose default
            # None has no conversion -- args_gen.bare_is_undecided -- may then give the documented ValueError)
            res.append(("%s|lenient-raises-ValueError",
                        "lenient parse of a line with only a %s fault raised ValueError: %s" % (want, l[2])))
    return res


def replay_bounded(check_id, failure):
    w = failure["witness"]
    fmt = G.build_format(w["fmt"])
    sig = failure["signature"]
    if w["kind"] == "mutation":
        pr = [((p[0] % w["fault"]) if "%s" in p[0] else p[0], p[1])
              for p in mutation_problems(w["fmt"], w["assign"], fmt, w["tokens"], w["want"])]
        want = sig.split("|", 1)[1]
    else:
        s = G.parse_outcome(G.new_parser(), fmt, w["tokens"], False)
        l = G.parse_outcome(G.new_parser(), fmt, w["tokens"], True)
        pr = G.soup_problems(s, l)
        want = sig.split("|", 1)[1]
    hit = [p for p in pr if p[0] == want]
    return {"fails": bool(hit), "detail": "; ".join(p[1] for p in (hit or pr)) or "the witness now behaves as documented"}
