"""C03 -- see DESIGN.md section 5.  Deductive targets are added below the bounded import."""
PROP = "C03"
LEVEL = 'other'
EXPLANATION = ("Deductive: DefaultResolver.get_arguments_to_test returns the longest prefix of plain (non-empty, non-option, non '--') tokens and leaves the iterator just behind it (loop invariant over the iterator position, stated over the immutable token sequence); CommandCollection.__contains__ / get look a name up as command name, then short name, then alias (and raise NoSuchCommandException exactly for unknown names); DefaultResolver.process_arguments selects nothing iff the first leading token names no command and otherwise starts the default rule from wcmd = the command reached by the longest prefix of the leading tokens that names a path (recursive spec function over an abstract lookup view, loop invariant); process_default_commands returns nothing for an empty collection and otherwise a result for fp = the first default command whose format can parse the arguments, else the first one (recursive spec function, loop invariant over the iteration of the collection); process_default_sub_commands / process_options / process_arguments then select exactly sel(c) = c's default sub-command by that rule, else c itself, for c = wcmd(...) -- whatever the options are.  Bounded: generated command trees x command lines compared with an independent walk / default-rule spec, alias and option-tail invariance.")
LEVEL_NOTE = ('assumes: the abstract lookup view cc_has/cc_get of a collection is the dict-level lookup proved for __contains__/get (linked by ghost definitions; the resolver changes no collection: frame obligations); `parsable(command, raw args)` is an uninterpreted predicate (ResolveResult.is_parsable assumed to compute it; the parser is C01/C02); iteration over a CommandCollection yields its commands in registration order (assumed view cc_cmds); DefaultResolver.resolve itself (the composition, the undefined-command error) is bounded only')
from . import resolver_contracts as rc
from . import C05_contracts as c5
TARGETS = [rc.GAT, c5.M_CC + ":CommandConfig.default", c5.M_CC + ":CommandConfig.anonymous",
           rc.CONTAINS, rc.CC_GET, rc.PO, rc.PA, rc.PDC, rc.PDSC, rc.CRC]
LEMMAS = []
try:
    from .C03_bounded import bounded, BOUNDED_RULE  # noqa: F401
    try:
        from .C03_bounded import replay_bounded  # noqa: F401
    except ImportError:
        pass
except ImportError:
    pass


def structural():
    """the resolver keeps no state: its methods touch `self` only to call each other (AST scan), so what is selected for
    one command line cannot depend on the lines resolved before"""
    import ast
    from pyvc import frontend
    P = frontend.Program()
    out = []
    for mod, cname in ((rc.M_DEF, "DefaultResolver"),):
        mi = P.module(mod)
        ci = mi.classes.get(cname)
        bad = []
        if ci is None:
            bad.append("class %s missing" % cname)
        else:
            methods = set(ci.methods)
            for m, fn in ci.methods.items():
                for n in ast.walk(fn):
                    if isinstance(n, ast.Attribute) and isinstance(n.value, ast.Name) and n.value.id == "self":
                        if n.attr not in methods:
                            bad.append("%s reads or writes self.%s (line %d)" % (m, n.attr, n.lineno))
                    elif isinstance(n, ast.Name) and n.id == "self":
                        pass
                # `self` handed to something other than an attribute access (vars(self), setattr(self, ...), a call)
                for n in ast.walk(fn):
                    if isinstance(n, ast.Call):
                        for a in list(n.args) + [k.value for k in n.keywords]:
                            if isinstance(a, ast.Name) and a.id == "self":
                                bad.append("%s passes self to %s (line %d)" % (m, ast.unparse(n.func), n.lineno))
                for n in ast.walk(fn):
                    if isinstance(n, (ast.Global, ast.Nonlocal)):
                        bad.append("%s declares %s (line %d)" % (m, ", ".join(n.names), n.lineno))
        out.append({
            "name": "C03.%s.frame.stateless" % cname, "kind": "frame",
            "text": "the methods of %s use `self` only to call one another: no attribute of the resolver object is read or "
                    "written, `self` is handed to nothing, no global is declared" % cname,
            "status": "proved" if not bad else "failed",
            "note": "; ".join(bad[:6]),
        })
    return out
