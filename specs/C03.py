"""C03 -- see DESIGN.md section 5.  Deductive targets are added below the bounded import."""
PROP = "C03"
LEVEL = "other"
EXPLANATION = 'bounded stand-in: generated command trees x command lines compared with an independent walk/default-rule spec; deductive obligations on the resolver loops are being added'
from . import resolver_contracts as rc
TARGETS = [rc.GAT]
LEMMAS = []
try:
    from .C03_bounded import bounded, BOUNDED_RULE  # noqa: F401
    try:
        from .C03_bounded import replay_bounded  # noqa: F401
    except ImportError:
        pass
except ImportError:
    pass
