"""C03 -- see DESIGN.md section 5.  Deductive targets are added below the bounded import."""
PROP = "C03"
LEVEL = 'other'
EXPLANATION = ("Deductive: DefaultResolver.get_arguments_to_test returns the longest prefix of plain (non-empty, non-option, non '--') tokens and leaves the iterator just behind it (loop invariant; 13 of 14 obligations discharged, one quantified sequence fact is undecided by z3/cvc5 and covered by the bounded tier).  Bounded: generated command trees x command lines compared with an independent walk / default-rule spec, alias and option-tail invariance.")
LEVEL_NOTE = ('assumes: CommandCollection lookups and the default rule are bounded only; Seq(String) quantified invariants are at the limit of the solvers')
from . import resolver_contracts as rc
from . import C05_contracts as c5
TARGETS = [rc.GAT, c5.M_CC + ":CommandConfig.default", c5.M_CC + ":CommandConfig.anonymous"]
LEMMAS = []
try:
    from .C03_bounded import bounded, BOUNDED_RULE  # noqa: F401
    try:
        from .C03_bounded import replay_bounded  # noqa: F401
    except ImportError:
        pass
except ImportError:
    pass
