"""C03 bounded tier -- the resolver selects the deepest command named by the leading tokens.

Oracle: `app_gen.select` (spec function written from the property statement and DESIGN.md section 5/C03):
follow the leading non-option tokens while they name a (sub-)command (`walk`), then one level of the default
rule (first parsable default sub-command, else the first default, else the command itself); no leading token ->
the application's default command (same rule over the application's default commands); a first token naming no
command -> CannotResolveCommandException and no handler runs.  "Parsable" is decided by an independent arity
model (number of positional tokens left after the command names vs. the required/maximal number of arguments
declared along the command's chain); options used in the lines are declared globally, so they are acceptable to
every command.

Observed at: ConsoleApplication.resolve_command(args).command (identified by its CommandConfig object) and the
handler invocations recorded through ConsoleApplication.run (exception catching disabled).

Decisions (stated, see final report of the harness author):
* A line whose selected command cannot parse it (too many / missing arguments) must end in
  CannotParseArgsException with no handler run -- which command "would have been" selected is then not observable,
  and which error is due is C02's business; anything else (another command, another exception type) is a failure.
* No leading token and no default command in the application: CannotResolveCommandException, nothing run.
* Tokens after '--' and options never change the *walk*; they do take part in the parsability test of the
  default rule (they are arguments of the candidate).  The metamorphic check therefore uses trees in which every
  command accepts any number of arguments.
"""
from . import app_gen as G

BOUNDED_RULE = (
    "case = (command tree, application kind plain/default-config, token list, ArgvArgs/StringArgs); distinct by the "
    "canonical JSON of these; trivial (not counted as nontrivial) = empty token list, or a full path spelled with "
    "primary names only, nothing after it, that selects the named command itself; metamorphic cases are trivial "
    "when the variant equals its base line")

LONE_WORDS = ("x",) + G.NOISE


# ------------------------------------------------------------------------------ observing the real code
def _id_of(command, cfg_ids, kind):
    cid = cfg_ids.get(id(command.config))
    if cid is None and kind == "default" and command.name == "help" and command.parent_command is None:
        return "0"  # the built-in help command is root 0 of tree.with_builtin_help()
    return cid


def observe_resolve(app, cfg_ids, kind, tokens, as_string):
    """-> (kind, detail): ("command", id) | ("undefined", msg) | ("no-default", msg) | ("parse-error", msg) |
    ("raised", type name)"""
    from clikit.api.args.exceptions import CannotParseArgsException
    from clikit.api.resolver.exceptions import CannotResolveCommandException
    args = G.raw_args(tokens, as_string)
    try:
        rc = app.resolve_command(args)
    except CannotResolveCommandException as e:
        msg = str(e)
        return ("no-default" if "No default command" in msg else "undefined"), msg
    except CannotParseArgsException as e:
        return "parse-error", str(e)
    except Exception as e:  # the real code failed in a way the property does not allow; reported by the caller
        return "raised", type(e).__name__
    return "command", _id_of(rc.command, cfg_ids, kind)


def outcome_key(obs):
    """what must be invariant: the selected command, or the class of the error (messages may differ)"""
    return tuple(obs) if obs[0] in ("command", "raised") else (obs[0],)


def observe_run(app, recorder, tokens, as_string):
    """-> (ids of the handlers that ran, status or None, name of the exception type that left run or None)"""
    recorder.reset()
    r = G.run_buffered(app, tokens, as_string=as_string)
    return recorder.ids(), r.status, (type(r.raised).__name__ if r.raised is not None else None)


class BuildFailed(Exception):
    """the application of a well-formed generated tree could not be built"""


def build(tree_json, kind):
    """-> (spec tree, app, recorder, {id(CommandConfig): node id})"""
    tree = G.Tree.from_json(tree_json)
    if kind == "default":
        tree = tree.with_builtin_help()
    try:
        app, rec, cfgs = G.build_app(tree, kind, catch=False)
    except Exception as e:  # every generated tree is a valid configuration
        raise BuildFailed("building the application of a well-formed tree raised %r" % (e,))
    return tree, app, rec, dict((id(c), nid) for nid, c in cfgs.items())


def d23_shape(tree, tokens):
    """no leading token, some positional token later, and an application default command whose format has no
    argument at all (anonymous: no command name either)"""
    if G.leading_tokens(tokens) or not G.positionals(tokens):
        return False
    return any(n.default and not n.disabled and n.anonymous and n.arg_range()[1] == 0 for n in tree.roots)


def judge(tree, app, rec, cfg_ids, kind, tokens, as_string, with_run=True):
    """evaluate one case against the oracle -> (info, failure or None); failure = (signature, what)"""
    outcome, node, info = G.select(tree, tokens)
    obs = observe_resolve(app, cfg_ids, kind, tokens, as_string)
    rule = info.get("rule", outcome)
    exp_txt = "%s %s" % (outcome, node.id + " (" + node.full_name() + ")" if node is not None else "")

    def fail(cls, what):
        return info, ("select|%s|%s" % (rule, cls), "%s: expected %s, %s" % (" ".join(tokens) or "<empty line>", exp_txt, what))

    if obs[0] == "raised":
        if obs[1] == "IndexError" and d23_shape(tree, tokens):
            return info, ("select|positional-token-vs-argless-anonymous-default|IndexError",
                          "%r: resolve_command raised IndexError instead of deciding (expected %s)" % (tokens, exp_txt))
        return fail("raised-" + obs[1], "resolve_command raised %s" % obs[1])
    if outcome == "command":
        if obs != ("command", node.id):
            return fail("other-command" if obs[0] == "command" else obs[0], "resolve_command gave %r" % (obs,))
    elif outcome == "unparsable":
        if obs[0] != "parse-error":
            return fail("resolved-unparsable" if obs[0] == "command" else obs[0],
                        "line does not fit the selected command, resolve_command gave %r" % (obs,))
    elif outcome == G.SELECT_UNDEFINED:
        if obs[0] != "undefined":
            return fail("resolved" if obs[0] == "command" else obs[0], "resolve_command gave %r" % (obs,))
        if '"%s"' % info["leading"][0] not in obs[1]:
            return fail("wrong-name-reported", "message %r does not name the first token" % obs[1])
    elif outcome == G.SELECT_NO_DEFAULT:
        if obs[0] != "no-default":
            return fail("resolved" if obs[0] == "command" else obs[0], "resolve_command gave %r" % (obs,))
    if with_run:
        ran, status, raised = observe_run(app, rec, tokens, as_string)
        if outcome == "command":
            want = [] if node.builtin else [node.id]
            if ran != want or raised is not None:
                return fail("run-mismatch", "run invoked handlers %r (raised %s), expected %r" % (ran, raised, want))
        else:
            want_exc = "CannotParseArgsException" if outcome == "unparsable" else "CannotResolveCommandException"
            if ran:
                return fail("handler-ran-on-error", "run invoked handlers %r although the line selects nothing" % (ran,))
            if raised != want_exc:
                return fail("run-error-mismatch", "run raised %s / returned %r, expected %s" % (raised, status, want_exc))
    return info, None


def is_trivial(tree, tokens, info):
    if not tokens:
        return True
    if info.get("rule") == "self" and info["followed"] == len(tokens):
        cur, _ = G.walk(tree.roots, tokens)
        return cur is not None and tokens == cur.path_names()
    return False


# ------------------------------------------------------------------------------ generators of lines
def tree_words(tree):
    return sorted(set(w for n in tree.walk_nodes() if not n.builtin for w in n.spellings()))


def random_line(rng, tree):
    nodes = [n for n in tree.walk_nodes() if not n.builtin]
    words = tree_words(tree)
    argw = list(LONE_WORDS) + words
    path = []
    if rng.random() >= 0.08:
        target = rng.choice(nodes)
        if rng.random() < 0.7:  # prefer paths that exist, and among them commands with default sub-commands
            live = [n for n in nodes if n.enabled() and not any(a.anonymous for a in n.chain())]
            rich = [n for n in live if sum(1 for c in n.children if c.default and not c.disabled) >= 1]
            target = rng.choice(rich if rich and rng.random() < 0.5 else live or nodes)
        path = [rng.choice(n.spellings()) for n in target.chain()]
        m = rng.random()
        if m < 0.15:
            path = path[:rng.randint(0, len(path))]
        elif m < 0.27:
            path.insert(rng.randint(0 if rng.random() < 0.3 else 1, len(path)), rng.choice(G.NOISE))
        elif m < 0.35:
            path[rng.randrange(len(path))] = rng.choice(words)
    toks = list(path)
    for _ in range(rng.choice([0, 0, 1, 2]) if path or rng.random() < 0.3 else 0):
        toks.append(rng.choice(argw))
    seen_option = False
    for _ in range(rng.choice([0, 0, 1, 2, 3])):
        k = rng.choice(["flag", "val", "valeq", "valshort", "arg"])
        v = rng.choice(words + ["v"])
        if k == "flag":
            toks.append(rng.choice(G.FLAG_SPELLINGS))
        elif k == "val":
            toks += [rng.choice(G.VALUE_SPELLINGS), v]
        elif k == "valeq":
            toks.append("--val=" + v)
        elif k == "valshort":
            toks.append("-w" + v)
        elif seen_option:
            toks.append(rng.choice(argw))
        seen_option = seen_option or k != "arg"
    if rng.random() < 0.3:
        toks.append("--")
        for _ in range(rng.choice([0, 1, 2])):
            toks.append(rng.choice(words + ["--opt", "-o", "x", "--nope", "--"]))
    return toks


SMALL_LINES = (
    [], ["r0"], ["R0"], ["r1"], ["R1"], ["r0", "r1"], ["R0", "R1"], ["r0", "c1"], ["r0", "C1"], ["r0", "c2"],
    ["r1", "r1"], ["r1", "c1"], ["zz"], ["zz", "r0"], ["r0", "zz"], ["r0", "zz", "r1"], ["r0", "r1", "x"],
    ["r0", "-o"], ["r0", "-o", "r1"], ["r0", "--val", "r1"], ["r0", "r1", "--opt", "x"], ["r0", "--", "r1"],
    ["--", "r0"], ["-o"], ["-o", "r0"], ["--", "x"], ["r0", "x", "--", "r1"], ["r0", "R1", "-wv", "--", "--opt"],
)


# ------------------------------------------------------------------------------ the checks
def bounded(ctx):
    rng = ctx.rng
    rep = G.Reporter(ctx)

    # ---- 1. seeded random trees x random lines, oracle = select()
    n_trees = 60 if ctx.quick else 2000
    n_lines = 80
    ctx.check("select_random",
              "E.trees: %d seeded random trees (depth<=3, fan-out<=3, 0-2 aliases, default/anonymous/hidden/disabled, "
              "own arguments 0/?/1/*/+ inherited along the chain; every 3rd with many competing defaults; every 4th under DefaultApplicationConfig with its "
              "built-in help command) x %d seeded lines each (full/partial/wrong paths spelled with names or aliases, "
              "0-2 words, 0-3 of --opt/-o/--val V/-w V/--val=V/-wV with V possibly a command name, optional '--' tail "
              "of 0-2 tokens); every line through resolve_command and run; every other line through StringArgs"
              % (n_trees, n_lines))
    for ti in range(n_trees):
        if ti % 3 == 2:  # several default commands per level that differ in what they can parse
            base = G.random_tree(rng, p_default=0.7, p_disabled=0.08, arity_weights=G.COMPETING)
        else:
            base = G.random_tree(rng)
        kind = "default" if ti % 4 == 3 else "plain"
        try:
            tree, app, rec, cfg_ids = build(base.to_json(), kind)
        except BuildFailed as e:
            ctx.case([base.to_json(), 'build'], nontrivial=True)
            rep.fail('build|valid-tree-rejected', str(e), {'tree': base.to_json(), 'kind': 'plain', 'tokens': [], 'as_string': False})
            continue
        for li in range(n_lines):
            tokens = random_line(rng, tree)
            as_string = li % 2 == 1 and G.stringable(tokens)
            info, failure = judge(tree, app, rec, cfg_ids, kind, tokens, as_string)
            key = [base.to_json(), kind, tokens, as_string]
            ctx.case(key, nontrivial=not is_trivial(tree, tokens, info),
                     sample={"tokens": tokens, "kind": kind, "rule": info.get("rule")})
            if failure:
                rep.fail(failure[0], failure[1], {"tree": base.to_json(), "kind": kind, "tokens": tokens, "as_string": as_string})
        if ctx.out_of_time():
            break
    ctx.done(exhaustive=False, note=("seeded sample. " + rep.note()).strip())

    # ---- 2. all small trees x fixed lines
    stride = 13 if ctx.quick else 1
    ctx.check("select_small_trees",
              "all 29070 trees of depth<=2, fan-out<=2 over the reduced node alphabet {plain*, disabled*, default0, "
              "default*, anonymous0, anonymous*} (every node one alias; child 0 is called like root 1; children of a "
              "'*' root take no own argument)%s x %d fixed lines (names, aliases, unknown words, options, value options "
              "whose value is a command name, '--' tails); resolve_command on every line, run on every 4th"
              % (" -- quick tier: every 13th tree" if ctx.quick else "", len(SMALL_LINES)))
    complete = True
    for ti, base in enumerate(G.small_trees()):
        if ti % stride:
            continue
        try:
            tree, app, rec, cfg_ids = build(base.to_json(), "plain")
        except BuildFailed as e:
            ctx.case([base.to_json(), 'build'], nontrivial=True)
            rep.fail('build|valid-tree-rejected', str(e), {'tree': base.to_json(), 'kind': 'plain', 'tokens': [], 'as_string': False})
            continue
        for li, tokens in enumerate(SMALL_LINES):
            tokens = list(tokens)
            info, failure = judge(tree, app, rec, cfg_ids, "plain", tokens, False, with_run=(li + ti) % 4 == 0)
            ctx.case([base.to_json(), tokens], nontrivial=not is_trivial(tree, tokens, info))
            if failure:
                rep.fail(failure[0], failure[1], {"tree": base.to_json(), "kind": "plain", "tokens": tokens, "as_string": False})
        if ctx.out_of_time():
            complete = False
            break
    ctx.done(exhaustive=complete and stride == 1,
             note=(("exhaustive over the stated reduced space. " if complete and stride == 1 else "strided sample of the enumeration. ") + rep.note()).strip())

    # ---- 3. metamorphic: aliases, options after the path, '--' tails never change the selection
    n_trees = 40 if ctx.quick else 1200
    ctx.check("selection_invariance",
              "%d seeded random trees in which every command accepts any number of arguments (so parsability cannot "
              "interfere) x 12 base lines (path, partial path, wrong path, path + word) x variants: each followed path "
              "token replaced by each of its other spellings and all at once; 0-3 options (flags, value options whose "
              "value names a sub-command) followed by 0-2 words naming sub-commands appended to the leading tokens; a '--' tail "
              "of 1-3 command names / option-like tokens appended: outcome (selected command or exception type) equal to "
              "the base line's outcome observed on the same application" % n_trees)
    for ti in range(n_trees):
        base = G.random_tree(rng, permissive=True)
        kind = "default" if ti % 4 == 3 else "plain"
        try:
            tree, app, rec, cfg_ids = build(base.to_json(), kind)
        except BuildFailed as e:
            ctx.case([base.to_json(), 'build'], nontrivial=True)
            rep.fail('build|valid-tree-rejected', str(e), {'tree': base.to_json(), 'kind': 'plain', 'tokens': [], 'as_string': False})
            continue
        words = tree_words(tree)
        nodes = [n for n in tree.walk_nodes() if not n.builtin]
        for _ in range(12):
            target = rng.choice(nodes)
            chain = target.chain()
            path = [n.name for n in chain]
            m = rng.random()
            if m < 0.2:
                path = path[:rng.randint(0, len(path))]
            elif m < 0.35:
                path.insert(rng.randint(0, len(path)), rng.choice(G.NOISE))
            elif m < 0.5:
                path.append(rng.choice(LONE_WORDS))
            base_key = outcome_key(observe_resolve(app, cfg_ids, kind, path, False))
            cur, k = G.walk(tree.roots, path)
            followed = cur.chain() if cur is not None else []
            variants = []
            for i, n in enumerate(followed):
                for sp in n.spellings()[1:]:
                    variants.append(("alias", path[:i] + [sp] + path[i + 1:]))
            if any(n.aliases for n in followed):
                variants.append(("alias", [rng.choice(n.spellings()[1:] or [n.name]) for n in followed] + path[len(followed):]))
            subs = [w for n in (cur.children if cur is not None else tree.roots) for w in n.spellings()] or words
            for _v in range(3):
                opts = []
                for _o in range(rng.randint(1, 3)):
                    k2 = rng.choice(["flag", "val", "valeq"])
                    if k2 == "flag":
                        opts.append(rng.choice(G.FLAG_SPELLINGS))
                    elif k2 == "val":
                        opts += [rng.choice(G.VALUE_SPELLINGS), rng.choice(subs)]
                    else:
                        opts.append("--val=" + rng.choice(subs))
                extra = [rng.choice(subs) for _e in range(rng.choice([0, 1, 2]))]
                variants.append(("options-after-path", path + opts + extra))
            for _v in range(2):
                tail = ["--"] + [rng.choice(subs + ["--opt", "-o", "--nope"]) for _e in range(rng.randint(1, 3))]
                variants.append(("dashdash-tail", path + tail))
                variants.append(("dashdash-tail", path + [rng.choice(G.FLAG_SPELLINGS)] + tail))
            for vkind, tokens in variants:
                as_string = False
                obs = observe_resolve(app, cfg_ids, kind, tokens, as_string)
                obs_key = outcome_key(obs)
                ran, status, raised = observe_run(app, rec, tokens, as_string)
                ctx.case([base.to_json(), kind, path, tokens], nontrivial=tokens != path,
                         sample={"base": path, "variant": tokens, "kind": vkind})
                wit = {"tree": base.to_json(), "kind": kind, "base": path, "tokens": tokens, "variant": vkind}
                if obs_key != base_key:
                    rep.fail("invariance|%s|%s" % (vkind, obs[0] if obs[0] != "raised" else "raised-" + obs[1]),
                             "%r selects %r but its %s variant %r gives %r" % (path, base_key, vkind, tokens, obs_key), wit)
                elif base_key[0] == "command":
                    want = [] if tree.nodes[base_key[1]].builtin else [base_key[1]]
                    if ran != want or raised is not None:
                        rep.fail("invariance|%s|run-mismatch" % vkind,
                                 "run of %r invoked %r (raised %s), expected %r" % (tokens, ran, raised, want), wit)
                elif ran:
                    rep.fail("invariance|%s|handler-ran-on-error" % vkind, "run of %r invoked %r" % (tokens, ran), wit)
        if ctx.out_of_time():
            break
    ctx.done(exhaustive=False, note=("seeded sample; oracle is the base line's own observed outcome (independent of select()). " + rep.note()).strip())


# ------------------------------------------------------------------------------ replay
def replay_bounded(check_id, failure):
    w = failure.get("witness") or {}
    try:
        tree, app, rec, cfg_ids = build(w["tree"], w["kind"])
    except BuildFailed as e:
        return {"fails": True, "detail": str(e)}
    if "base" in w:
        b = observe_resolve(app, cfg_ids, w["kind"], w["base"], False)
        o = observe_resolve(app, cfg_ids, w["kind"], w["tokens"], False)
        bk, ok = outcome_key(b), outcome_key(o)
        return {"fails": bk != ok, "detail": "base %r -> %r; variant %r -> %r" % (w["base"], bk, w["tokens"], ok)}
    info, failure2 = judge(tree, app, rec, cfg_ids, w["kind"], w["tokens"], w.get("as_string", False))
    return {"fails": failure2 is not None, "detail": failure2[1] if failure2 else "selection as specified: %r" % (info,)}
