"""C04 -- a run always ends in a valid exit status and never leaks a handler failure."""
import z3

from pyvc.contracts import REG as R
from pyvc.kinds import Kind
from pyvc.state import V, Out
from . import app_contracts as ac

PROP = "C04"
LEVEL = 'proof'
EXPLANATION = ("Deductive: Command.handle is verified against the status contract (0 iff the handler's value is false-y, else int() of it clamped into 1..255, interrupt -> 1; result always in 0..255) for every kind of handler value; exception_to_exit_code yields 1..255; ConsoleApplication.run is verified structurally: with catching enabled every Exception / KeyboardInterrupt raised by the io factory, the resolution or the handler reaches a handler clause, nothing escapes, the status is in range; Command._do_handle (variant `once`) invokes the handler -- an opaque callable found with getattr, counting its invocations in a ghost -- exactly once unless a pre-handle listener marked the event handled (a stopped propagation alone does not replace the handler).  Bounded: all handler outcomes of the property x verbosity x listener behaviours through the real run(), report printed, handler invoked exactly once.")
LEVEL_NOTE = ('assumes: Command._do_handle records the handler outcome in a ghost field (main contract, assumed; the handler-once variant is verified against an opaque handler / listener model); ExceptionTrace.render and the indent scope do not raise (decided under C20 / C11); resolve_command returns a command or raises a library error; the io factory is an arbitrary callable that returns an IO or raises; SystemExit/GeneratorExit out of scope')
TARGETS = [
    ac.M_CMD + ":Command.handle",
    ac.M_APP + ":ConsoleApplication.exception_to_exit_code",
    ac.M_APP + ":ConsoleApplication.run",
    ac.DO_HANDLE_ONCE,
]
LEMMAS = []


def _opaque(E, st, fn, args, kwargs):
    """the io factory: an arbitrary callable that returns an IO or raises;
    the command handler (found with getattr(handler, handler_method)): an arbitrary callable of (args, io, command) that
    returns any value or raises, and counts its invocation in the command's ghost g_handler_calls"""
    from pyvc.kinds import parse_kind, alts, INT
    if isinstance(fn.t, tuple) and fn.t[0] == "opaque" and isinstance(fn.t[1], tuple) and fn.t[1][0] == "getattr":
        if len(args) != 3 or args[2].kind.tag != "ref":
            from pyvc.state import Unsupported
            raise Unsupported("handler call with unexpected arguments")
        cmd = args[2]
        n = E._read_alt(st, cmd.t, "g_handler_calls", INT)
        s1 = E.write_field(st, cmd, "g_handler_calls", INT, V(INT, n.t + 1))
        outs = []
        for k in alts(parse_kind(ac.STATUS)):
            v = E.fresh(k, "handler_result")
            s2 = E.assume_valid_ref(s1, v)
            outs.append(Out("ok", E.write_field(s2, cmd, "g_status", parse_kind(ac.STATUS), v), v))
        s3, e = E.mk_exc(s1, "Exception")
        e.aux["abstract"] = True
        s4, k2 = E.mk_exc(s1, "KeyboardInterrupt")
        E.trusted.add("opaque callable (command handler): returns any value or raises; counts its invocations in the ghost "
                      "g_handler_calls of the command it is given and touches nothing else of the library")
        return outs + [Out("raise", s3, e), Out("raise", s4, k2)]
    s2, r = E.new_ref(st)
    io = V(Kind("ref", "IO"), r)
    tc = E.type_constraint(io)
    s2 = s2.assume(tc)
    s3, e = E.mk_exc(st, "Exception")
    e.aux["abstract"] = True
    s4, k = E.mk_exc(st, "KeyboardInterrupt")
    E.trusted.add("opaque callable (io factory): returns a fresh IO or raises; touches no field of the application")
    return [Out("ok", s2, io), Out("raise", s3, e), Out("raise", s4, k)]


R.opaque_hook = _opaque

try:
    from .C04_bounded import bounded, BOUNDED_RULE  # noqa
    try:
        from .C04_bounded import replay_bounded  # noqa
    except ImportError:
        pass
except ImportError:
    pass


def structural():
    """C04: the handler of the selected command is invoked with the arguments parsed for THAT command line - nothing a run
    computes is kept on the application, its commands or their configurations"""
    from .frame_written import written_only_while_built
    return written_only_while_built("C04")
