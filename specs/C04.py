"""C04 -- a run always ends in a valid exit status and never leaks a handler failure."""
import z3

from pyvc.contracts import REG as R
from pyvc.kinds import Kind
from pyvc.state import V, Out
from . import app_contracts as ac

PROP = "C04"
LEVEL = 'proof'
EXPLANATION = ("Deductive: Command.handle is verified against the status contract (0 iff the handler's value is false-y, else int() of it clamped into 1..255, interrupt -> 1; result always in 0..255) for every kind of handler value; exception_to_exit_code yields 1..255; ConsoleApplication.run is verified structurally: with catching enabled every Exception / KeyboardInterrupt raised by the io factory, the resolution or the handler reaches a handler clause, nothing escapes, the status is in range.  Bounded: all handler outcomes of the property x verbosity x listener behaviours through the real run(), report printed, handler invoked exactly once.")
LEVEL_NOTE = ('assumes: Command._do_handle records the handler outcome in a ghost field (handler protocol, decided by the bounded tier); ExceptionTrace.render and the indent scope do not raise (decided under C20 / C11); resolve_command returns a command or raises a library error; the io factory is an arbitrary callable that returns an IO or raises; SystemExit/GeneratorExit out of scope')
TARGETS = [
    ac.M_CMD + ":Command.handle",
    ac.M_APP + ":ConsoleApplication.exception_to_exit_code",
    ac.M_APP + ":ConsoleApplication.run",
]
LEMMAS = []


def _opaque(E, st, fn, args, kwargs):
    """the io factory: an arbitrary callable that returns an IO or raises"""
    s2, r = E.new_ref(st)
    io = V(Kind("ref", "IO"), r)
    tc = E.type_constraint(io)
    s2 = s2.assume(tc)
    s3, e = E.mk_exc(st, "Exception")
    e.aux["abstract"] = True
    s4, k = E.mk_exc(st, "KeyboardInterrupt")
    E.trusted.add("opaque callable (io factory): returns a fresh IO or raises; touches no field of the application")
    return [Out("ok", s2, io), Out("raise", s3, e), Out("raise", s4, k)]


R.opaque_hook = _opaque

try:
    from .C04_bounded import bounded, BOUNDED_RULE  # noqa
    try:
        from .C04_bounded import replay_bounded  # noqa
    except ImportError:
        pass
except ImportError:
    pass
