"""C04 -- a run always ends in a valid exit status and never leaks a handler failure."""
import z3

from pyvc.contracts import REG as R
from pyvc.kinds import Kind
from pyvc.state import V, Out
from . import app_contracts as ac

PROP = "C04"
LEVEL = "other"
EXPLANATION = "under construction"
TARGETS = [
    ac.M_CMD + ":Command.handle",
    ac.M_APP + ":ConsoleApplication.exception_to_exit_code",
    ac.M_APP + ":ConsoleApplication.run",
]
LEMMAS = []


def _opaque(E, st, fn, args, kwargs):
    """the io factory: an arbitrary callable that returns an IO or raises"""
    s2, r = E.new_ref(st)
    io = V(Kind("ref", "IO"), r)
    tc = E.type_constraint(io)
    s2 = s2.assume(tc)
    s3, e = E.mk_exc(st, "Exception")
    e.aux["abstract"] = True
    s4, k = E.mk_exc(st, "KeyboardInterrupt")
    E.trusted.add("opaque callable (io factory): returns a fresh IO or raises; touches no field of the application")
    return [Out("ok", s2, io), Out("raise", s3, e), Out("raise", s4, k)]


R.opaque_hook = _opaque

try:
    from .C04_bounded import bounded, BOUNDED_RULE  # noqa
    try:
        from .C04_bounded import replay_bounded  # noqa
    except ImportError:
        pass
except ImportError:
    pass
