# -*- coding: utf-8 -*-
"""C04 bounded tier -- a run always ends in a valid exit status and never leaks a handler failure.

Everything goes through ConsoleApplication.run of an application built on DefaultApplicationConfig with
set_catch_exceptions(True) / set_terminate_after_run(False), on buffered streams.

Oracle (from the statement of C04 and the scope fixed in DESIGN.md section 5/C04):
  * run returns an int in 0..255 and raises nothing (any BaseException leaving run is a leak);
  * handler returned r:  not r -> 0;  int(r) defined -> clamp(int(r), 1, 255);
    int(r) undefined ('abc', nan, inf, [1], object()) -> the clamp clause does not apply (DESIGN: "raises only
    what int() raises on the value"), but the result is truthy, so: no leak and a status in 1..255;
  * handler (or pre-handle listener) raised an Exception -> status in 1..255 and, unless the run is quiet, a
    printed report (either stream non-blank; it contains the marker word MARK whenever the message carries one
    outside any markup);
  * KeyboardInterrupt -> status in 1..255, no leak; NO report is demanded (the library's own test
    test_run_with_keyboard_interrupt pins empty output; the statement's "report for every exception" is read over
    Exception, as DESIGN C04.run.structure does);
  * calls: a pre-handle listener that marks the event handled replaces the handler (status = the listener's status
    code normalised by the same rule, handler not invoked); a listener that raises prevents the handler; otherwise
    the handler of the selected command ran exactly once, with Args whose raw_args are the run's tokens, whose
    format is the selected command's and whose argument/option values are the ones on the line; in every case no
    other handler ran.
SystemExit / GeneratorExit raised by a handler are out of scope (DESIGN).  What the report says beyond MARK (full
message, line numbers) is C20's business.
"""

from . import app_gen as G

BOUNDED_RULE = (
    "case = (handler outcome id, route, verbosity switch, pre-handle listener kind); distinct by that tuple; an "
    "outcome is trivial only if it is `return None` with no listener at normal verbosity on the plain route; "
    "command-line cases: (token list, verbosity), trivial if no token contains an angle bracket")

MARK = "MARK"


def T(text):
    """Style tags are spelled with square brackets in this file and translated here.  Reason: the error report
    under test tokenises the WHOLE source file of every frame it shows and pushes each line through the style-tag
    parser, so literal tags in this harness (which is on every traceback) would themselves derail the renderer;
    that effect is exercised deliberately, from a generated file, by the outcome `source-with-markup`."""
    return text.replace("[", chr(60)).replace("]", chr(62))

TREE = [
    {"name": "foo", "aliases": ["f"], "arity": "?"},
    {"name": "grp", "arity": "0", "children": [
        {"name": "sub", "arity": "0"},
        {"name": "dflt", "default": True, "arity": "0"}]},
    {"name": "other", "arity": "*"},
]

# (route id, tokens, path of the selected command, {argument name: value}, {option name: value})
ROUTES = (
    ("args", ["foo", "val", "--opt"], ("foo",), {"arg-1": "val"}, {"opt": True}),
    ("alias", ["f"], ("foo",), {"arg-1": None}, {"opt": False}),
    ("sub", ["grp", "sub", "--val", "7"], ("grp", "sub"), {}, {"val": "7"}),
    ("default-sub", ["grp"], ("grp", "dflt"), {}, {}),
)

VERBOSITY = (("normal", []), ("quiet", ["-q"]), ("v", ["-v"]), ("vv", ["-vv"]), ("debug", ["-vvv"]))


# ------------------------------------------------------------------------------ raising from various origins
# NOTE: keep this block free of markup-like text: the error report shows the source lines around the raise.
def raise_here(exc):
    raise exc


def raise_nested(exc, depth):
    if depth <= 0:
        raise exc
    return raise_nested(exc, depth - 1)


def raise_from(exc, cause):
    raise exc from cause


def raise_while_handling(exc, first):
    try:
        raise first
    except Exception:
        raise exc


def raise_in_generator(exc):
    def gen():
        yield 1
        raise exc
    return list(gen())


def raise_in_comprehension(exc):
    return [raise_here(exc) for _ in range(1)]


class _Prop(object):
    def __init__(self, exc):
        self._exc = exc

    @property
    def value(self):
        raise self._exc


def raise_in_property(exc):
    return _Prop(exc).value


def raise_in_finally(exc):
    try:
        return 0
    finally:
        raise_here(exc)


SOURCELESS = "def thrower(exc):\n    raise exc\n"


def sourceless_thrower(filename):
    ns = {}
    exec(compile(SOURCELESS, filename, "exec"), ns)
    return ns["thrower"]


class ScratchModules(object):
    """throwers defined in generated source files under a temporary directory (removed on exit):
    `marked`  -- a file whose text contains style tags that do not balance (an opening tag on one line, a different
                 closing tag on a later one), far away from the raising line;
    `deleted` -- a file that no longer exists when the report is rendered"""

    MARKED = ("# generated by the C04 harness\n"
              "OPENING = '[b]never closed'\n"
              "CLOSING = 'text [/info]'\n" + "\n" * 12 +
              "def thrower(exc):\n    raise exc\n")
    PLAIN = "def thrower(exc):\n    raise exc\n"
    UNCLOSED = 'def thrower(exc):\n    text = """never closed\n    raise exc\n'
    DEDENTED = "def thrower(exc):\n        a = 1\n    raise exc\n"

    def __enter__(self):
        import importlib.util
        import os
        import tempfile
        self.dir = tempfile.mkdtemp(prefix="c04_bounded_")
        self.throwers = {}
        for name, text, after in (("marked", T(self.MARKED), None), ("deleted", self.PLAIN, "delete"),
                                  ("unclosed", self.PLAIN, self.UNCLOSED), ("dedented", self.PLAIN, self.DEDENTED)):
            path = os.path.join(self.dir, "c04_scratch_%s.py" % name)
            with open(path, "w") as f:
                f.write(text)
            spec = importlib.util.spec_from_file_location("c04_scratch_%s" % name, path)
            mod = importlib.util.module_from_spec(spec)
            spec.loader.exec_module(mod)
            self.throwers[name] = mod.thrower
            if after == "delete":
                os.remove(path)
            elif after is not None:
                # the file changes on disk after it was loaded and no longer tokenizes
                with open(path, "w") as f:
                    f.write(after)
        return self.throwers

    def __exit__(self, *exc):
        import shutil
        shutil.rmtree(self.dir, ignore_errors=True)
        return False


# ------------------------------------------------------------------------------ exception zoo
class Boom(Exception):
    pass


class TwoArgs(Exception):
    def __init__(self, a, b):
        super(TwoArgs, self).__init__(a, b)
        self.a = a
        self.b = b

    def __str__(self):
        return "%s / %s" % (self.a, self.b)


class Coded(Exception):
    def __init__(self, message, code):
        super(Coded, self).__init__(message)
        self.code = code


def _library_types():
    from clikit.api.args.exceptions import CannotParseArgsException, NoSuchOptionException
    from clikit.api.command.exceptions import NoSuchCommandException
    from clikit.api.exceptions import CliKitException
    from clikit.api.resolver.exceptions import CannotResolveCommandException

    class OwnLibraryError(CliKitException):
        pass

    class CodedLibraryError(CliKitException):
        def __init__(self, message, code):
            super(CodedLibraryError, self).__init__(message)
            self.code = code

    return dict(CliKitException=CliKitException, CannotParseArgsException=CannotParseArgsException,
                CannotResolveCommandException=CannotResolveCommandException, OwnLibraryError=OwnLibraryError,
                CodedLibraryError=CodedLibraryError,
                NoSuchOptionException=NoSuchOptionException, NoSuchCommandException=NoSuchCommandException)


INNER_CLOSING = T("inner [/b]")
MIDDLE_MISMATCHED = T("middle [info]x[/b]")
PARTIAL_OUT = T("[info]partial[/info] output")
PARTIAL_ERR = T("partial error [b]")
LISTENER_CLOSING = "listener " + MARK + T(" [/info]")

# message texts: (class label, text).  MARK is always outside any tag.
MESSAGES = (
    ("plain", T("plain " + MARK)),
    ("multi-line", T("first " + MARK + "\nsecond line\n\n  indented fourth")),
    ("non-ascii", T(u"héllo ✓ 日本 " + MARK)),
    ("balanced-tags", T("[info]styled[/info] " + MARK)),
    ("opening-tag", T("[b]bold " + MARK)),
    ("opening-tag", T(MARK + " [info]")),
    ("closing-tag", T(MARK + " [/info] tail")),
    ("closing-tag", T("[/b]" + MARK)),
    ("closing-tag", T(MARK + " [/error]")),
    ("closing-tag", T(MARK + " [/]")),
    ("mismatched-tags", T("[info]x[/b] " + MARK)),
    ("mismatched-tags", T("[b][info]x[/b][/info] " + MARK)),
    ("inline-style-tag", T(MARK + " [fg=red]x[/]")),
    ("invalid-style-tag", T(MARK + " [fg=nocolor]x[/]")),
    ("unknown-tag", T("[nosuchtag]x[/nosuchtag] " + MARK)),
    ("angle-brackets", "a %s b %s c %s= d " % (chr(60), chr(62), chr(60)) + MARK),
    ("escaped-tag", T("\\[info]x " + MARK)),
    ("format-chars", T(MARK + " {0} {name} %s %(x)s {")),
    ("control-chars", MARK + " \x1b[31mred\x1b[0m \t tab \r cr"),
    ("long", T(MARK + " " + "long text " * 400)),
)


def outcomes(thorough, scratch=None):
    """-> list of dicts: id, cls, kind ('return'|'raise'), run(io) callable performing the outcome, plus for raises:
    library (simple report), interrupt, marker (bool: MARK must show in the report)"""
    L = _library_types()
    out = []

    def ret(oid, value):
        out.append({"id": "return:" + oid, "cls": "return-" + oid, "kind": "return", "value": value,
                    "run": (lambda io, v=value: v)})

    ret("None", None)
    ret("False", False)
    ret("0", 0)
    ret("0.0", 0.0)
    ret("empty-str", "")
    ret("empty-list", [])
    ret("True", True)
    ret("1", 1)
    ret("2", 2)
    ret("255", 255)
    ret("256", 256)
    ret("300", 300)
    ret("huge", 10 ** 20)
    ret("-1", -1)
    ret("-5", -5)
    ret("str-12", "12")
    ret("str-0", "0")
    ret("str-007", "007")
    ret("str-padded", " 7 ")
    ret("str-negative", "-3")
    ret("str-300", "300")
    ret("str-abc", "abc")
    ret("str-2.5", "2.5")
    ret("bytes-3", b"3")
    ret("2.5", 2.5)
    ret("0.5", 0.5)
    ret("-0.5", -0.5)
    ret("1e300", 1e300)
    ret("nan", float("nan"))
    ret("inf", float("inf"))
    ret("list-1", [1])
    ret("dict", {"a": 1})
    ret("object", object())

    def rz(oid, cls, make, how=raise_here, library=False, interrupt=False, marker=True, pre=None):
        def run(io, make=make, how=how, pre=pre):
            if pre is not None:
                pre(io)
            return how(make())
        out.append({"id": "raise:" + oid, "cls": cls, "kind": "raise", "run": run, "library": library,
                    "interrupt": interrupt, "marker": marker})

    # messages x {foreign, library} types
    for i, (mcls, text) in enumerate(MESSAGES):
        rz("foreign-msg-%d-%s" % (i, mcls), "foreign|" + mcls, lambda t=text: ValueError(t))
        rz("library-msg-%d-%s" % (i, mcls), "library|" + mcls, lambda t=text: L["CliKitException"](t), library=True)
    # types
    plain = "plain " + MARK
    rz("Boom", "foreign|plain", lambda: Boom(plain))
    rz("RuntimeError", "foreign|plain", lambda: RuntimeError(plain))
    rz("KeyError", "foreign|plain", lambda: KeyError(plain))
    rz("OSError", "foreign|plain", lambda: OSError(2, plain))
    rz("TwoArgs", "foreign|plain", lambda: TwoArgs(plain, 3))
    rz("Exception-no-args", "foreign|no-message", lambda: Exception(), marker=False)
    rz("AssertionError", "foreign|no-message", lambda: AssertionError(), marker=False)
    rz("ZeroDivisionError", "foreign|plain", lambda: ZeroDivisionError("division by zero"), marker=False)
    rz("StopIteration", "foreign|plain", lambda: StopIteration(plain))
    rz("MemoryError", "foreign|plain", lambda: MemoryError(plain))
    rz("UnicodeDecodeError", "foreign|plain", lambda: UnicodeDecodeError("utf-8", b"\xff", 0, 1, MARK), marker=False)
    rz("SyntaxError", "foreign|plain", lambda: SyntaxError(plain, ("file.py", 3, 1, "x = (")), marker=False)
    rz("real-SyntaxError", "foreign|plain", lambda: compile("x = (", "snippet", "exec"), how=lambda e: e, marker=False)
    rz("real-ImportError", "foreign|plain", lambda: __import__("no_such_module_" + MARK), how=lambda e: e)
    rz("real-AttributeError", "foreign|plain", lambda: getattr(object(), MARK), how=lambda e: e)
    for name in ("CannotParseArgsException", "CannotResolveCommandException", "OwnLibraryError"):
        rz(name, "library|plain", lambda n=name: L[n](plain), library=True)
    rz("NoSuchOptionException", "library|plain", lambda: L["NoSuchOptionException"](MARK), library=True)
    rz("NoSuchCommandException", "library|plain", lambda: L["NoSuchCommandException"](MARK), library=True)
    rz("NoSuchOptionException-closing-tag", "library|closing-tag", lambda: L["NoSuchOptionException"](MARK + T("[/b]")), library=True)
    # interrupts
    rz("KeyboardInterrupt", "interrupt", lambda: KeyboardInterrupt(), interrupt=True, marker=False)
    rz("KeyboardInterrupt-msg", "interrupt", lambda: KeyboardInterrupt(plain), interrupt=True, marker=False)
    rz("KeyboardInterrupt-nested", "interrupt", lambda: KeyboardInterrupt(), how=lambda e: raise_nested(e, 4),
       interrupt=True, marker=False)
    # code attributes
    for code in (3, 0, 300, -1, "x", None, 2.5, True):
        rz("coded-%r" % (code,), "foreign|code-attribute", lambda c=code: Coded(plain, c))
        rz("library-coded-%r" % (code,), "library|code-attribute", lambda c=code: L["CodedLibraryError"](plain, c), library=True)
    # cause chains
    rz("from-cause", "foreign|chained", lambda: Boom(plain), how=lambda e: raise_from(e, KeyError("inner")))
    rz("from-None", "foreign|chained", lambda: Boom(plain), how=lambda e: raise_from(e, None))
    rz("from-library-cause", "foreign|chained", lambda: Boom(plain), how=lambda e: raise_from(e, L["CliKitException"](INNER_CLOSING)))
    rz("library-from-foreign", "library|chained", lambda: L["OwnLibraryError"](plain), how=lambda e: raise_from(e, ValueError("inner")), library=True)
    rz("implicit-context", "foreign|chained", lambda: Boom(plain), how=lambda e: raise_while_handling(e, KeyError("first")))

    def chain3():
        a, b, c = Boom(plain), ValueError(MIDDLE_MISMATCHED), KeyError("root")
        b.__cause__ = c
        return a, b
    rz("chain-of-3", "foreign|chained", chain3, how=lambda ab: raise_from(ab[0], ab[1]))

    # cyclic and very deep cause / context chains ("any cause chain"): a report that follows the chain must terminate
    def cyclic_context():
        a, b = Boom(plain), KeyError("other")
        a.__context__ = b
        b.__context__ = a
        return a

    def self_context():
        a = Boom(plain)
        a.__context__ = a
        return a

    def cyclic_cause():
        a, b = Boom(plain), KeyError("other")
        a.__cause__ = b
        b.__cause__ = a
        return a

    def deep_context(n=1500):
        a = Boom(plain)
        cur = a
        for i in range(n):
            nxt = ValueError("level %d" % i)
            cur.__context__ = nxt
            cur = nxt
        return a

    def raise_keeping_chain(e):
        # `raise e` outside an except block leaves __context__ / __cause__ as they were set
        raise e
    rz("cyclic-context", "foreign|chained", cyclic_context, how=raise_keeping_chain)
    rz("self-context", "foreign|chained", self_context, how=raise_keeping_chain)
    rz("cyclic-cause", "foreign|chained", cyclic_cause, how=raise_keeping_chain)
    rz("context-chain-1500", "foreign|chained", deep_context, how=raise_keeping_chain)
    # where it is raised
    rz("nested-5", "foreign|plain", lambda: Boom(plain), how=lambda e: raise_nested(e, 5))
    rz("generator", "foreign|plain", lambda: Boom(plain), how=raise_in_generator)
    rz("comprehension", "foreign|plain", lambda: Boom(plain), how=raise_in_comprehension)
    rz("property", "foreign|plain", lambda: Boom(plain), how=raise_in_property)
    rz("finally", "foreign|plain", lambda: Boom(plain), how=raise_in_finally)
    rz("after-output", "foreign|plain", lambda: Boom(plain),
       pre=lambda io: (io.write_line(PARTIAL_OUT), io.error(PARTIAL_ERR)))
    rz("library-after-output", "library|plain", lambda: L["CliKitException"](plain), library=True,
       pre=lambda io: io.write("no newline yet"))
    if thorough:
        rz("nested-60", "foreign|plain", lambda: Boom(plain), how=lambda e: raise_nested(e, 60))
        rz("nested-300", "foreign|plain", lambda: Boom(plain), how=lambda e: raise_nested(e, 300))
    # code without a source file
    for fn in (T("[string]"), T("[generated]"), "/nonexistent/dir/gone.py", ""):
        label = fn or "empty-filename"
        rz("sourceless-%s" % label, "foreign|sourceless-code", lambda: Boom(plain), how=sourceless_thrower(fn))
        rz("library-sourceless-%s" % label, "library|sourceless-code", lambda: L["CliKitException"](plain),
           how=sourceless_thrower(fn), library=True)
    if scratch is not None:
        rz("source-file-deleted", "foreign|sourceless-code", lambda: Boom(plain), how=scratch["deleted"])
        rz("source-file-with-unbalanced-markup", "foreign|source-with-markup", lambda: Boom(plain), how=scratch["marked"])
        rz("source-file-ends-in-a-string", "foreign|sourceless-code", lambda: Boom(plain), how=scratch["unclosed"])
        rz("source-file-badly-dedented", "foreign|sourceless-code", lambda: Boom(plain), how=scratch["dedented"])
    rz("sourceless-eval-lambda", "foreign|sourceless-code", lambda: None, how=lambda _: eval("(lambda: 1 // 0)()"), marker=False)
    rz("sourceless-middle-frame", "foreign|sourceless-middle-frame", lambda: Boom(plain),
       how=lambda e: eval("f(e)", {"f": raise_here, "e": e}))

    # ... and a middle frame on a later LINE of code without a readable source (compiled from a string)
    def _middle_at_line_three(e):
        ns = {"f": raise_here}
        exec(compile("def middle(e):\n    x = 1\n    return f(e)\n", "<generated-middle>", "exec"), ns)
        return ns["middle"](e)
    rz("sourceless-middle-frame-line-3", "foreign|sourceless-middle-frame", lambda: Boom(plain), how=_middle_at_line_three)
    return out


# ------------------------------------------------------------------------------ oracle helpers
def expected_status(value):
    """-> ("exact", n) | ("nonzero", None)"""
    if not value:
        return "exact", 0
    try:
        n = int(value)
    except (ValueError, TypeError, OverflowError):
        return "nonzero", None
    return "exact", min(max(n, 1), 255)


LISTENERS = ("none", "passes", "handles", "handles:7", "handles:300", "handles:-2", "raises:foreign",
             "raises:library", "raises:interrupt")
TAGGED_LISTENER = "raises:library-closing-tag"  # used sparingly: every use runs into the same report path


def make_listener(kind, L):
    if kind == "none":
        return None

    def listener(event, event_name, dispatcher):
        if kind == "passes":
            return
        if kind.startswith("handles"):
            event.handled(True)
            if ":" in kind:
                event.set_status_code(int(kind.split(":")[1]))
            return
        if kind == "raises:foreign":
            raise_here(Boom("listener " + MARK))
        if kind == "raises:library":
            raise_here(L["CliKitException"]("listener " + MARK))
        if kind == "raises:library-closing-tag":
            raise_here(L["CliKitException"](LISTENER_CLOSING))
        if kind == "raises:interrupt":
            raise_here(KeyboardInterrupt())
        raise AssertionError(kind)
    return listener


MARKUP_SHAPES = ("balanced-tags", "opening-tag", "closing-tag", "mismatched-tags", "inline-style-tag",
                 "invalid-style-tag", "unknown-tag", "angle-brackets", "escaped-tag")


def leak_signature(cls, report, leaked, origin=None):
    """stable class of an exception that left run(): by what made the report fail, as far as the input tells"""
    shape = cls.split("|")[-1]
    if shape in MARKUP_SHAPES:
        return "leak|markup-in-message|%s|%s|%s%s" % (report, shape, (origin + "|") if origin else "", leaked)
    if shape == "sourceless-code":
        return "leak|sourceless-code|innermost-frame|%s|%s" % (report, leaked)
    if shape == "sourceless-middle-frame":
        return "leak|sourceless-code|middle-frame|%s|%s" % (report, leaked)
    if shape == "source-with-markup":
        return "leak|markup-in-source|%s|%s" % (report, leaked)
    if cls.startswith("return-"):
        return "leak|status-normalisation|%s|%s" % (cls, leaked)
    return "leak|%s|%s|%s" % (report, cls, leaked)


def node_by_path(tree, names):
    level = tree.roots
    n = None
    for nm in names:
        n = [x for x in level if x.name == nm][0]
        level = n.children
    return n


def is_status(x):
    return isinstance(x, int) and not isinstance(x, bool) and 0 <= x <= 255


def blank(s):
    return s.strip() == ""


def run_case(outcome, route, verb, listener_kind, L):
    """-> list of (signature tail, what) failures"""
    from clikit.api.event import PRE_HANDLE
    rid, tokens, path, want_args, want_opts = route
    vid, vtokens = verb
    tree = G.Tree.from_json(TREE).with_builtin_help()
    node = node_by_path(tree, path)
    rec = G.Recorder(lambda inv: outcome["run"](inv.io))
    listener = make_listener(listener_kind, L)

    def configure(config):
        if listener is not None:
            config.add_event_listener(PRE_HANDLE, listener)

    app, rec, cfgs = G.build_app(tree, "default", recorder=rec, catch=True, configure=configure)
    line = list(tokens) + list(vtokens)
    r = G.run_buffered(app, line, catch=BaseException)
    fails = []
    cls = outcome["cls"]
    if listener_kind.startswith("raises"):
        report = "simple-report" if "library" in listener_kind else "full-report"
    else:
        report = "simple-report" if outcome.get("library") else "full-report"

    # -- no leak, status in range
    if r.raised is not None:
        lcls = cls
        if listener_kind.startswith("raises"):
            lcls = {"raises:foreign": "foreign|plain", "raises:library": "library|plain", "raises:library-closing-tag": "library|closing-tag",
                    "raises:interrupt": "interrupt"}[listener_kind]
        elif listener_kind.startswith("handles"):
            lcls = "listener-handled"
        fails.append((leak_signature(lcls, report, type(r.raised).__name__), "run raised %r" % (r.raised,)))
        return fails
    if not is_status(r.status):
        fails.append(("status-range|%s" % cls, "run returned %r, not an int in 0..255" % (r.status,)))
        return fails

    # -- who ran
    calls = rec.ids()
    handler_expected = not (listener_kind.startswith("handles") or listener_kind.startswith("raises"))
    want_calls = [node.id] if handler_expected else []
    if calls != want_calls:
        fails.append(("calls|listener-%s" % listener_kind.split(":")[0],
                      "handlers invoked: %r, expected %r (selected command %s)" % (calls, want_calls, node.full_name())))
    elif handler_expected:
        inv = rec.calls[0]
        a = inv.args
        problems = []
        if list(a.raw_args.tokens) != line:
            problems.append("raw tokens %r" % (a.raw_args.tokens,))
        if inv.command.config is not cfgs[node.id] or a.format is not inv.command.args_format:
            problems.append("args/command of %r" % (inv.command,))
        for k, v in want_args.items():
            if a.argument(k) != v:
                problems.append("argument %s=%r" % (k, a.argument(k)))
        for k, v in want_opts.items():
            got = a.option(k) if a.is_option_set(k) else False
            if got != v:
                problems.append("option %s=%r" % (k, got))
        if problems:
            fails.append(("handler-args|%s" % rid, "handler of %s received wrong args: %s" % (node.full_name(), "; ".join(problems))))

    # -- status and report
    quiet = vid == "quiet"
    printed = r.out + r.err
    if listener_kind.startswith("handles"):
        code = int(listener_kind.split(":")[1]) if ":" in listener_kind else 0
        kind, n = expected_status(code)
        if r.status != n:
            fails.append(("status|listener-handled", "listener handled with status code %r: run returned %r, expected %r" % (code, r.status, n)))
    elif listener_kind.startswith("raises"):
        if r.status == 0:
            fails.append(("status|listener-raised", "listener raised, run returned 0"))
        if listener_kind != "raises:interrupt" and not quiet and MARK not in printed:
            fails.append(("report-missing|listener-raised", "listener raised, nothing about it was printed: %r" % printed[:200]))
    elif outcome["kind"] == "return":
        kind, n = expected_status(outcome["value"])
        if kind == "exact" and r.status != n:
            fails.append(("status|%s" % cls, "handler returned %r: run returned %r, expected %r" % (outcome["value"], r.status, n)))
        if kind == "nonzero" and r.status == 0:
            fails.append(("status|%s" % cls, "handler returned truthy %r: run returned 0" % (outcome["value"],)))
    else:
        if r.status == 0:
            fails.append(("status|%s" % cls, "handler raised, run returned 0"))
        if not outcome["interrupt"] and not quiet:
            if blank(printed):
                fails.append(("report-missing|%s|%s" % (report, cls), "handler raised, nothing was printed"))
            elif outcome["marker"] and MARK not in printed:
                fails.append(("report-without-message|%s|%s" % (report, cls), "the report does not show the message: %r" % printed[:300]))
    return fails


# ------------------------------------------------------------------------------ library errors provoked by the line
TAG_WORDS = tuple(T(w) for w in (
    "[info]", "[/info]", "[b]", "[/b]", "[/]", "[fg=red]", "[fg=nocolor]", "[error]", "[/error]", "[b]x[/b]",
    "[info]x[/b]", "\\[b]", u"é[b]é", "x[/info]y", "plain")) + (chr(60), chr(62), chr(60) + "a", "a" + chr(62))


def provoking_lines():
    """(class, tokens): lines that must make the library raise one of its own errors before any handler runs"""
    for w in TAG_WORDS:
        yield "unknown-command", [w]
        yield "unknown-command", [w, "foo"]
        yield "unknown-long-option", ["foo", "--" + w]
        yield "unknown-long-option", ["grp", "sub", "--" + w + "=1"]
        yield "unknown-short-option", ["foo", "-" + w]
        yield "too-many-arguments", ["foo", "a", w]
        yield "value-for-flag", ["foo", "--opt=" + w]
        yield "unknown-sub-command-as-argument", ["grp", w]
    yield "missing-value", ["grp", "sub", "--val"]


def tag_class(tokens):
    t = " ".join(tokens)
    lt, gt = chr(60), chr(62)
    if lt not in t and gt not in t:
        return "no-markup"
    if lt + "/" in t:
        return "closing-tag"
    if T("[fg=nocolor]") in t:
        return "invalid-style-tag"
    import re
    return "opening-tag" if re.search(lt + "[a-z=]+" + gt, t) else "angle-brackets"


def run_line_case(lcls, tokens, verb):
    vid, vtokens = verb
    tree = G.Tree.from_json(TREE).with_builtin_help()
    app, rec, cfgs = G.build_app(tree, "default", catch=True)
    line = list(tokens) + list(vtokens)
    r = G.run_buffered(app, line, catch=BaseException)
    fails = []
    tcls = tag_class(tokens)
    if r.raised is not None:
        fails.append((leak_signature(tcls, "simple-report", type(r.raised).__name__, origin="from-command-line"),
                      "run(%r) raised %r" % (line, r.raised)))
        return fails
    if not is_status(r.status):
        fails.append(("status-range|line-%s" % lcls, "run(%r) returned %r" % (line, r.status)))
        return fails
    if rec.ids():
        fails.append(("calls|line-%s" % lcls, "run(%r) invoked handlers %r although the line is invalid" % (line, rec.ids())))
    if r.status == 0:
        fails.append(("status|line-%s" % lcls, "run(%r) returned 0 for an invalid line" % (line,)))
    if vid != "quiet" and blank(r.out + r.err):
        fails.append(("report-missing|line-%s" % lcls, "run(%r) printed nothing" % (line,)))
    return fails


# ------------------------------------------------------------------------------ the checks
def bounded(ctx):
    with ScratchModules() as scratch:
        _bounded(ctx, scratch)


def _bounded(ctx, scratch):
    rep = G.Reporter(ctx)
    L = _library_types()
    outs = outcomes(not ctx.quick, scratch)
    by_id = dict((o["id"], o) for o in outs)
    assert len(by_id) == len(outs)
    returns = [o for o in outs if o["kind"] == "return"]
    raises = [o for o in outs if o["kind"] == "raise"]

    def evaluate(o, route, verb, lk):
        key = [o["id"], route[0], verb[0], lk]
        trivial = o["id"] == "return:None" and lk == "none" and verb[0] == "normal" and route[0] == "alias"
        ctx.case(key, nontrivial=not trivial)
        for sig, what in run_case(o, route, verb, lk, L):
            rep.fail(sig, "%s via %s %s, listener %s: %s" % (o["id"], route[0], verb[0], lk, what),
                     {"outcome": o["id"], "route": route[0], "verbosity": verb[0], "listener": lk})

    ctx.check("results",
              "%d handler results (None, False, 0, 0.0, '', [], True, ints incl. negative / >255 / 10**20, numeric and "
              "non-numeric strings, bytes, floats incl. nan / inf / 1e300, list, dict, object) x %s of (arguments+option, "
              "alias, sub-command with value option, default sub-command) x 5 verbosity switches (none, -q, -v, -vv, -vvv) "
              "x 9 pre-handle listener kinds (none, passes, handles with status unset/7/300/-2, raises foreign / library "
              "error / KeyboardInterrupt)" % (len(returns), "1 route (rotating)" if ctx.quick else "all 4 routes"))
    for oi, o in enumerate(returns):
        for vi, verb in enumerate(VERBOSITY):
            for li, lk in enumerate(LISTENERS):
                for route in (ROUTES if not ctx.quick else (ROUTES[(oi + vi + li) % len(ROUTES)],)):
                    evaluate(o, route, verb, lk)
    ctx.done(exhaustive=True, note=rep.note())

    routes_x = ROUTES if not ctx.quick else None
    ctx.check("exceptions",
              "%d raised outcomes: %d message shapes (plain, multi-line, non-ASCII, balanced / opening / closing / mismatched / "
              "inline-style / invalid-style / unknown tags, angle brackets, escaped tag, format characters, control "
              "characters, 4 kB) x {ValueError, CliKitException}; foreign and library types; KeyboardInterrupt; `code` "
              "attributes 3, 0, 300, -1, 'x', None, 2.5, True; explicit / implicit / suppressed cause chains; raised in "
              "nested calls, generator, comprehension, property, finally, after partial output; code from a file with unbalanced markup; code without source (deleted file, "
              "'string' / 'generated' pseudo file names, missing file, empty filename, eval'd lambda, source-less middle frame) x 5 "
              "verbosity switches x listeners {none, passes} x %s" % (
                  len(raises), len(MESSAGES), "4 routes" if routes_x else "1 route (rotating over the 4)"))
    for i, o in enumerate(raises):
        for vi, verb in enumerate(VERBOSITY):
            for li, lk in enumerate(("none", "passes")):
                for route in (routes_x or (ROUTES[(i + vi + li) % len(ROUTES)],)):
                    evaluate(o, route, verb, lk)
        if ctx.out_of_time():
            break
    ctx.done(exhaustive=True, note=rep.note())

    ctx.check("exceptions_under_listeners",
              "every raised outcome x the 7 remaining listener kinds (handles x4: the handler must not run at all; raises "
              "x3: the listener's exception is the one reported; for every 20th outcome also a listener raising a library error "
              "whose message has a closing tag) x verbosity {normal, -vvv} (thorough: all 5) x 1 route")
    for i, o in enumerate(raises):
        for vi, verb in enumerate(VERBOSITY if not ctx.quick else (VERBOSITY[0], VERBOSITY[4])):
            for lk in LISTENERS[2:] + ((TAGGED_LISTENER,) if i % 20 == 0 else ()):
                evaluate(o, ROUTES[(i + vi) % len(ROUTES)], verb, lk)
        if ctx.out_of_time():
            break
    ctx.done(exhaustive=True, note=rep.note())

    lines = list(provoking_lines())
    ctx.check("library_errors_from_lines",
              "%d invalid command lines (unknown command / long option / short option, too many arguments, value for a "
              "flag, missing value) whose offending token is one of %d words with opening, closing, empty-closing, "
              "inline-style, invalid-style, balanced, mismatched, escaped tags, bare angle brackets, non-ASCII x 5 verbosity "
              "switches: status in 1..255, no leak, something printed unless quiet, no handler invoked"
              % (len(lines), len(TAG_WORDS)))
    for lcls, tokens in lines:
        for verb in VERBOSITY:
            ctx.case([tokens, verb[0]], nontrivial=tag_class(tokens) != "no-markup")
            for sig, what in run_line_case(lcls, tokens, verb):
                rep.fail(sig, what, {"tokens": tokens, "verbosity": verb[0], "line_class": lcls})
    ctx.done(exhaustive=True, note=rep.note())

    # ---- handlers given as plain callables (CallbackHandler): invoked exactly once, whatever they accept or raise
    ctx.check("callback_handlers",
              "commands whose handler is a CallbackHandler around a callable: 4 signatures ((args, io); (args, io, *rest); "
              "(args, io, command=None); (*everything)) x 7 behaviours (return 0 / 3 / None; raise TypeError / ValueError / a "
              "library error / TypeError from a nested call): the callable runs exactly once, the status is 0 for a false-y "
              "result, else non-zero, and an error report names the exception's message")
    for sig_name, behaviour, fails in callback_cases():
        ctx.case([sig_name, behaviour], nontrivial=behaviour.startswith("raise"))
        for sg, what in fails:
            rep.fail(sg, "%s / %s: %s" % (sig_name, behaviour, what), {"callback": sig_name, "behaviour": behaviour})
    ctx.done(exhaustive=True, note=rep.note())

    ctx.check("late_listeners",
              "pre-handle listeners (pass / handle with status 7 / raise) registered after the application and its commands were "
              "built, on a dispatcher without any pre-handle listener at that time, before the first run or after one: the "
              "listener takes part in the next run, the handler runs exactly when no listener handled the command")
    for when, kind, fails in late_listener_cases():
        ctx.case([when, kind], nontrivial=True)
        for sg, what in fails:
            rep.fail(sg, "%s / %s: %s" % (when, kind, what), {"late_listener": when, "kind": kind})
    ctx.done(exhaustive=True, note=rep.note())

    ctx.check("stream_kinds",
              "one application, a handler that raises from one source line, runs on real text streams of different encodings in "
              "every order of length 2 over {UTF-8, ASCII} x verbosity {0, 1, 3}: each run returns a non-zero status without "
              "raising and its report can be written to ITS stream (an ASCII stream rejects the UTF-8 gutter symbols)")
    for order, verbosity, fails in stream_kind_cases():
        ctx.case([order, verbosity], nontrivial=len(set(order)) > 1)
        for sg, what in fails:
            rep.fail(sg, "%s at verbosity %d: %s" % ("+".join(order), verbosity, what), {"stream_order": list(order), "verbosity": verbosity})
    ctx.done(exhaustive=True, note=rep.note())


def stream_kind_cases(only=None):
    import io as _io
    import itertools

    from clikit import ConsoleApplication
    from clikit.args import ArgvArgs
    from clikit.config import DefaultApplicationConfig
    from clikit.io.input_stream import StringInputStream
    from clikit.io.output_stream import StreamOutputStream

    def failing(args, io_, command=None):
        raise Boom("stream kinds " + MARK)

    class H(object):
        def handle(self, a, io_, c):
            return failing(a, io_, c)

    for order in itertools.product(("utf-8", "ascii"), repeat=2):
        for verbosity in (0, 1, 3):
            if only is not None and (list(order), verbosity) != only:
                continue
            fails = []
            cfg = DefaultApplicationConfig("app", "1.0")
            cfg.set_terminate_after_run(False)
            cfg.create_command("go").set_handler(H())
            app = ConsoleApplication(cfg)
            for k, enc in enumerate(order):
                raw_out, raw_err = _io.BytesIO(), _io.BytesIO()
                out = _io.TextIOWrapper(raw_out, encoding=enc, write_through=True)
                err = _io.TextIOWrapper(raw_err, encoding=enc, write_through=True)
                argv = ["app", "go"] + (["-" + "v" * verbosity] if verbosity else [])
                try:
                    st = app.run(ArgvArgs(argv), StringInputStream(""), StreamOutputStream(out), StreamOutputStream(err))
                except BaseException as e:  # the call under test
                    fails.append(("stream-kinds|run-raises|%s|%s-stream-%s" % (type(e).__name__, enc, "first" if k == 0 else "after-" + order[0]),
                                  "run %d on %s streams raised %r" % (k + 1, enc, e)))
                    break
                text = raw_err.getvalue().decode(enc) + raw_out.getvalue().decode(enc)
                if not (isinstance(st, int) and not isinstance(st, bool) and 1 <= st <= 255):
                    fails.append(("stream-kinds|status", "run %d on %s streams returned %r" % (k + 1, enc, st)))
                if MARK not in text:
                    fails.append(("stream-kinds|no-report", "run %d on %s streams printed %r" % (k + 1, enc, text[:120])))
            yield order, verbosity, fails


def late_listener_cases():
    """pre-handle listeners registered AFTER the application (and its commands) were built, on a dispatcher that had no
    pre-handle listener then: they take part in the next run like any other"""
    from clikit import ConsoleApplication
    from clikit.api.event import EventDispatcher, PRE_HANDLE
    from clikit.args import ArgvArgs
    from clikit.config import DefaultApplicationConfig
    from clikit.io.input_stream import StringInputStream
    from clikit.io.output_stream import BufferedOutputStream

    class Cfg(DefaultApplicationConfig):
        def configure(self):
            super(Cfg, self).configure()
            self.set_event_dispatcher(EventDispatcher())  # nothing registered on it yet
            self.set_terminate_after_run(False)

    for when in ("before-first-run", "after-a-run"):
        for kind in ("passes", "handles-7", "raises"):
            calls = []
            fails = []
            try:
                cfg = Cfg("app", "1.0")

                class H(object):
                    def handle(self, a, io, c):
                        calls.append("handler")
                        return 0
                cfg.create_command("go").set_handler(H())
                app = ConsoleApplication(cfg)

                def run():
                    out, err = BufferedOutputStream(), BufferedOutputStream()
                    return app.run(ArgvArgs(["app", "go"]), StringInputStream(""), out, err), err.fetch() + out.fetch()
                if when == "after-a-run":
                    st, _ = run()
                    if st != 0 or calls != ["handler"]:
                        fails.append(("late-listener|first-run", "first run: status %r, calls %r" % (st, calls)))
                    del calls[:]

                def listener(event, name, disp):
                    calls.append("listener")
                    if kind == "handles-7":
                        event.handled(True)
                        event.set_status_code(7)
                    elif kind == "raises":
                        raise ValueError("listener " + MARK)
                cfg.dispatcher.add_listener(PRE_HANDLE, listener)
                st, text = run()
            except BaseException as e:  # the calls under test
                yield when, kind, [("late-listener|run-raises", "%r" % (e,))]
                continue
            want_calls = {"passes": ["listener", "handler"], "handles-7": ["listener"], "raises": ["listener"]}[kind]
            if calls != want_calls:
                fails.append(("late-listener|calls", "calls %r, expected %r" % (calls, want_calls)))
            if kind == "passes" and st != 0 or kind == "handles-7" and st != 7 or kind == "raises" and not (isinstance(st, int) and 1 <= st <= 255):
                fails.append(("late-listener|status", "status %r for a listener that %s" % (st, kind)))
            if kind == "raises" and MARK not in text:
                fails.append(("late-listener|report", "no report of the listener's exception: %r" % (text[-160:],)))
            yield when, kind, fails


def callback_cases():
    from clikit import ConsoleApplication
    from clikit.api.exceptions import CliKitException
    from clikit.args import ArgvArgs
    from clikit.config import DefaultApplicationConfig
    from clikit.handler.callback_handler import CallbackHandler
    from clikit.io.input_stream import StringInputStream
    from clikit.io.output_stream import BufferedOutputStream

    def nested():
        return len(5)

    behaviours = {
        "return-0": lambda: 0, "return-3": lambda: 3, "return-None": lambda: None,
        "raise-TypeError": lambda: (_ for _ in ()).throw(TypeError("wrong type " + MARK)),
        "raise-ValueError": lambda: (_ for _ in ()).throw(ValueError("bad value " + MARK)),
        "raise-library": lambda: (_ for _ in ()).throw(CliKitException("library " + MARK)),
        "raise-nested-TypeError": nested,
    }
    for sig_name in ("two", "two-and-rest", "optional-third", "anything"):
        for bname, act in behaviours.items():
            calls = []

            def body(act=act, calls=calls):
                calls.append(1)
                return act()
            if sig_name == "two":
                cb = lambda args, io: body()  # noqa: E731
            elif sig_name == "two-and-rest":
                cb = lambda args, io, *rest: body()  # noqa: E731
            elif sig_name == "optional-third":
                cb = lambda args, io, command=None: body()  # noqa: E731
            else:
                cb = lambda *everything: body()  # noqa: E731
            fails = []
            try:
                cfg = DefaultApplicationConfig("app", "1.0")
                cfg.set_terminate_after_run(False)
                cfg.create_command("go").set_handler(CallbackHandler(cb))
                out, err = BufferedOutputStream(), BufferedOutputStream()
                status = ConsoleApplication(cfg).run(ArgvArgs(["app", "go"]), StringInputStream(""), out, err)
            except BaseException as e:  # the call under test
                yield sig_name, bname, [("callback|run-raises", "run() raised %r" % (e,))]
                continue
            if len(calls) != 1:
                fails.append(("callback|invocations", "the callable ran %d times" % len(calls)))
            if bname.startswith("return"):
                want = {"return-0": 0, "return-3": 3, "return-None": 0}[bname]
                if status != want:
                    fails.append(("callback|status", "status %r, expected %r" % (status, want)))
            else:
                text = err.fetch() + out.fetch()
                if not isinstance(status, int) or isinstance(status, bool) or not (1 <= status <= 255):
                    fails.append(("callback|status", "status %r after an exception" % (status,)))
                shown = MARK if bname != "raise-nested-TypeError" else "has no len"
                if shown not in text:
                    fails.append(("callback|report", "the error report does not show the exception's message: %r" % (text[-200:],)))
            yield sig_name, bname, fails


# ------------------------------------------------------------------------------ replay
def replay_bounded(check_id, failure):
    w = failure.get("witness") or {}
    verbs = dict(VERBOSITY)
    if "stream_order" in w:
        fails = [f for _o, _v, fl in stream_kind_cases(only=(list(w["stream_order"]), w["verbosity"])) for f in fl]
    elif "late_listener" in w:
        fails = [f for wh, kd, fl in late_listener_cases() if wh == w["late_listener"] and kd == w["kind"] for f in fl]
    elif "callback" in w:
        fails = [f for sn, bh, fl in callback_cases() if sn == w["callback"] and bh == w["behaviour"] for f in fl]
    elif "tokens" in w:
        fails = run_line_case(w.get("line_class", "line"), w["tokens"], (w["verbosity"], verbs[w["verbosity"]]))
    else:
        route = [r for r in ROUTES if r[0] == w["route"]][0]
        with ScratchModules() as scratch:
            outs = dict((o["id"], o) for o in outcomes(True, scratch))
            fails = run_case(outs[w["outcome"]], route, (w["verbosity"], verbs[w["verbosity"]]), w["listener"], _library_types())
    return {"fails": bool(fails), "detail": "; ".join("%s: %s" % f for f in fails) or "behaves as specified"}
