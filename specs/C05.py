"""C05 -- see DESIGN.md section 5.  Deductive targets are added below the bounded import."""
PROP = "C05"
LEVEL = 'proof'
EXPLANATION = ("Deductive: frame / read-set obligations of DefaultArgsParser decided on the AST of the working tree -- the parser's methods touch no attribute of the parser object other than the two scratch maps, parse() re-initialises both before any other use of the object, the token list is copied before it is consumed; ArgvArgs.__init__ works on fresh copies and leaves the caller's argv list unchanged (SMT).  Hence a parse is a function of (tokens, format, mode) for any history.  Bounded: sequences of parse requests on one parser vs fresh parsers (also through Command.parse with a shared configured parser), argv list / raw args / format listings compared before and after.")
LEVEL_NOTE = ("assumes: the format's query methods do not modify the format (bounded: listings compared); the history lemma (init + re-initialisation => every parse starts from the same state) is the standard induction over these frames, not a machine-checked lemma")
from .C05_structural import structural  # noqa: F401
from . import token_contracts as tc
from . import C05_contracts as c5
TARGETS = [tc.M_ARGV + ":ArgvArgs.__init__", tc.ARGV_EMPTY, {"qual": c5.M_CMD + ":Command.parse", "tag": "mode"}]
LEMMAS = []
try:
    from .C05_bounded import bounded, BOUNDED_RULE  # noqa: F401
    try:
        from .C05_bounded import replay_bounded  # noqa: F401
    except ImportError:
        pass
except ImportError:
    pass
