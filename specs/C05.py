"""C05 -- see DESIGN.md section 5.  Deductive targets are added below the bounded import."""
PROP = "C05"
LEVEL = "other"
EXPLANATION = 'bounded stand-in: sequences of parse requests on one parser vs fresh parsers; argv list, raw args and format listings compared before/after'
from .C05_structural import structural  # noqa: F401
from . import token_contracts as tc
TARGETS = [tc.M_ARGV + ":ArgvArgs.__init__"]
LEMMAS = []
try:
    from .C05_bounded import bounded, BOUNDED_RULE  # noqa: F401
    try:
        from .C05_bounded import replay_bounded  # noqa: F401
    except ImportError:
        pass
except ImportError:
    pass
