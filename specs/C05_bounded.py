"""C05 bounded tier -- parsing is a pure function of the command line, the format and the mode.

Oracle (property statement + DESIGN 5/C05): for every sequence of parse requests (tokens, format, lenient) issued to ONE
parser object, the i-th outcome (the four views of the result, or the exception class and message) equals the outcome a
brand-new parser gives for the i-th request alone; results handed out earlier do not change afterwards; the argv list
wrapped by ArgvArgs, the tokens of the RawArgs and the listings of the format (and of its base formats) are the same
before and after.  The same through Command.parse when one parser object is set on the configs of several commands.
"""
import itertools

from . import args_gen as G

BOUNDED_RULE = (
    "requests are drawn from a seeded pool: random C01 formats (which share option / argument names, so that values of one "
    "parse are meaningful to the next) x {valid spelled lines of random assignments, single-fault mutations of them, token soup "
    "over the format's own names and the C02 alphabet} x {strict, lenient}; a case is one history (sequence of 1-6 requests) run "
    "on one DefaultArgsParser -- directly, or through Command.parse of commands whose configs share the parser -- and compared "
    "request by request with fresh parsers; distinct by the sequence of request ids of the pool; non-trivial when the history has "
    "at least 2 requests and at least one of them sets an option or an argument."
)


def _build_pool(rng, nfmt, per_fmt, for_commands=False):
    """list of request dicts: {spec, fmt, tokens, lenient, fresh(outcome key), sets(bool)}"""
    ch = G.RandomChooser(rng)
    pool = []
    formats = []
    tries = 0
    while len(formats) < nfmt:
        tries += 1
        spec = G.random_format(rng)
        if for_commands:
            if not spec["names"]:
                continue
            if len(spec["names"]) == 2:
                spec["base"] = [1, rng.randint(0, len(spec["opts"])), rng.randint(0, len(spec["args"]))]
            else:
                spec["base"] = None
        if not spec["opts"] and tries % 4:
            continue  # favour formats with options: they are what can leak from one parse to the next
        formats.append(spec)
    for fi, spec in enumerate(formats):
        fmt = G.build_format(spec)
        al = G.derived_alphabet(spec, rng) + G.SOUP_ALPHABET
        lines = []
        while len(lines) < per_fmt:
            A = G.random_assignment(rng, spec, p_given=0.8)
            items, _ = G.some_spellings(spec, A, rng, 1)[0]
            lines.append(G.flat(items))
            muts = G.mutations(spec, A, items, ch)
            if muts:
                lines.append(rng.choice(muts)[2])
            lines.append([rng.choice(al) for _ in range(rng.randint(0, 5))])
        for tokens in lines[:per_fmt]:
            for lenient in (False, True):
                pool.append({"fi": fi, "spec": spec, "fmt": fmt, "tokens": tokens, "lenient": lenient})
    return formats, pool


def _fresh(req, fmt=None):
    out = G.parse_outcome(G.new_parser(), fmt or req["fmt"], req["tokens"], req["lenient"])
    return out


def _diff_class(fresh_key, got_key):
    if fresh_key[0] != got_key[0]:
        return "outcome-differs|fresh-%s-shared-%s" % (fresh_key[1] if fresh_key[0] == "exc" else "ok",
                                                       got_key[1] if got_key[0] == "exc" else "ok")
    if fresh_key[0] == "exc":
        return "exception-differs"
    for v, nm in (("o_set", "options"), ("o_all", "options"), ("a_set", "arguments"), ("a_all", "arguments")):
        if fresh_key[1][v] != got_key[1][v]:
            return "result-differs|%s" % nm
    return "result-differs"


def _run_history(reqs, parse_fn, fresh_keys):
    """run the requests through parse_fn (which uses the shared parser); returns list of (class, text, index)"""
    from clikit.args import ArgvArgs
    res = []
    earlier = []
    for i, (req, fk) in enumerate(zip(reqs, fresh_keys)):
        argv = ["prog"] + list(req["tokens"])
        argv_before = list(argv)
        listing_before = G.format_listing(req["fmt"])
        raw = ArgvArgs(argv)
        if argv != argv_before:
            res.append(("frame|argv-changed-by-wrapping", "ArgvArgs(argv) changed argv from %r to %r" % (argv_before, argv), i))
        argv_wrapped = list(argv)
        out = parse_fn(req, raw)
        gk = G.outcome_key(out)
        if gk != fk:
            res.append(("history|" + _diff_class(fk, gk),
                        "request %d %r (%s): shared parser gives %s, a fresh parser gives %s" % (
                            i, req["tokens"], "lenient" if req["lenient"] else "strict", _short(gk, fk), _short(fk, gk)), i))
        if argv != argv_wrapped:
            res.append(("frame|argv-changed-by-parse", "parse changed the argv list from %r to %r" % (argv_wrapped, argv), i))
        if list(raw.tokens) != list(req["tokens"]):
            res.append(("frame|raw-tokens-changed", "parse changed RawArgs.tokens from %r to %r" % (req["tokens"], raw.tokens), i))
        if G.format_listing(req["fmt"]) != listing_before:
            res.append(("frame|format-changed", "parse changed the listings of the format", i))
        if out[0] == "ok":
            earlier.append((i, out[2], out[1]))
    for i, args, v in earlier:
        now = G.views(args)
        if now != v:
            nm = "options" if (now["o_set"] != v["o_set"] or now["o_all"] != v["o_all"]) else "arguments"
            res.append(("history|earlier-result-changed|%s" % nm,
                        "the result of request %d changed after later parses: %s -> %s" % (i, _short(["ok", v], ["ok", now]), _short(["ok", now], ["ok", v])), i))
    return res


def _short(key, other=None):
    """readable form of an outcome key; with `other`, only the entries of the first view in which the two differ"""
    if key[0] == "exc":
        return "%s(%s)" % (key[1], key[2])
    if other is not None and other[0] == "ok":
        for v, nm in (("o_set", "options(False)"), ("o_all", "options(True)"), ("a_set", "arguments(False)"), ("a_all", "arguments(True)")):
            if key[1][v] != other[1][v]:
                ks = [k for k in sorted(set(key[1][v]) | set(other[1][v])) if key[1][v].get(k) != other[1][v].get(k)]
                return "%s %r" % (nm, dict((k, key[1][v].get(k, "<absent>")) for k in ks))
    return repr({"options": key[1]["o_set"], "arguments": key[1]["a_set"]})


def _flat_listing(fmt):
    ls = G.format_listing(fmt)
    return [ls[3][2], sorted(ls[4][2]), ls[5][2]]


def _sets_something(fk):
    return fk[0] == "ok" and bool(fk[1]["o_set"] or fk[1]["a_set"])


def _sequences(ctx, pool, n_pairs_pool, n_triples_pool, n_random):
    """(ids) of histories: all singletons, all ordered pairs over the first n_pairs_pool requests, all ordered triples over the
    first n_triples_pool, and n_random seeded histories of length 3-6 over the whole pool"""
    rng = ctx.rng
    n = len(pool)
    for i in range(n):
        yield (i,)
    for a, b in itertools.product(range(min(n, n_pairs_pool)), repeat=2):
        yield (a, b)
    for t in itertools.product(range(min(n, n_triples_pool)), repeat=3):
        yield t
    for _ in range(n_random):
        ln = rng.randint(3, 6)
        if rng.random() < 0.5:
            # stay within one or two formats: the same names are live across the history
            fis = [rng.choice(pool)["fi"] for _ in range(2)]
            cands = [i for i, r in enumerate(pool) if r["fi"] in fis]
            yield tuple(rng.choice(cands) for _ in range(ln))
        else:
            yield tuple(rng.randrange(n) for _ in range(ln))


def bounded(ctx):
    quick = ctx.quick
    rng = ctx.rng

    # 1 -- one parser object, direct calls
    nfmt, per_fmt, npairs, ntrip, nrand = (8, 6, 96, 14, 6000) if quick else (40, 8, 640, 44, 300000)
    formats, pool = _build_pool(rng, nfmt, per_fmt)
    # shuffle so that the prefixes used for pairs / triples mix formats, modes and kinds of lines
    rng.shuffle(pool)
    ctx.check("history_direct",
              "pool of %d requests (%d seeded formats x %d lines (valid / single-fault / soup) x strict+lenient); all histories of "
              "length 1, all ordered pairs over %d requests, all ordered triples over %d requests, %d seeded histories of length 3-6 "
              "(half of them within two formats); one DefaultArgsParser per history vs a fresh parser per request; earlier results "
              "re-read at the end; argv list, RawArgs.tokens and format listings compared before/after every parse"
              % (len(pool), nfmt, per_fmt, min(npairs, len(pool)), min(ntrip, len(pool)), nrand))
    lim = G.SigLimiter(ctx, per=3)
    fresh = []
    for r in pool:
        k1 = G.outcome_key(_fresh(r))
        k2 = G.outcome_key(_fresh(r))
        if k1 != k2:
            lim.fail("history|fresh-parsers-disagree", "two fresh parsers disagree on %r" % (r["tokens"],),
                     {"route": "direct", "requests": [[r["spec"], r["tokens"], r["lenient"]]]})
        fresh.append(k1)
    sets = [_sets_something(k) for k in fresh]
    stopped = False
    n = 0
    for ids in _sequences(ctx, pool, npairs, ntrip, nrand):
        reqs = [pool[i] for i in ids]
        parser = G.new_parser()
        pr = _run_history(reqs, lambda req, raw: G.parse_outcome(parser, req["fmt"], req["tokens"], req["lenient"], raw),
                          [fresh[i] for i in ids])
        ctx.case(list(ids), nontrivial=len(ids) >= 2 and any(sets[i] for i in ids),
                 sample=[[pool[i]["tokens"], pool[i]["lenient"]] for i in ids] if len(ids) >= 3 else None)
        for sig, what, at in pr:
            lim.fail(sig, what, {"route": "direct", "requests": [[r["spec"], r["tokens"], r["lenient"]] for r in reqs]})
        n += 1
        if n % 2000 == 0 and ctx.out_of_time():
            stopped = True
            break
    ctx.done(exhaustive=False, note=("stopped at the deadline; " if stopped else "") + lim.note())

    # 2 -- one parser object shared by the configs of several commands, Command.parse
    nfmt, per_fmt, npairs, nrand = (6, 5, 60, 3000) if quick else (30, 8, 480, 100000)
    formats, pool = _build_pool(rng, nfmt, per_fmt, for_commands=True)
    rng.shuffle(pool)
    ctx.check("history_commands",
              "%d seeded command configs (1-2 command names: command / sub-command with the parent's format as base) that all "
              "carry ONE DefaultArgsParser via Config.set_args_parser; pool of %d requests issued through Command.parse(raw, "
              "lenient); all histories of length 1, all ordered pairs over %d requests, %d seeded histories of length 3-6; each "
              "outcome vs a fresh parser on the command's own args_format" % (nfmt, len(pool), min(npairs, len(pool)), nrand))
    lim = G.SigLimiter(ctx, per=3)
    shared = G.new_parser()
    commands = [G.build_command(spec, shared) for spec in formats]
    # the format built from the config must be the format of the spec (else the pool's lines would not fit it)
    for spec, cmd in zip(formats, commands):
        if _flat_listing(G.build_format(spec)) != _flat_listing(cmd.args_format):
            raise AssertionError("harness: command format differs from its spec: %r" % (spec,))
    for r in pool:
        r["cmd"] = commands[r["fi"]]
        r["fmt"] = r["cmd"].args_format  # the format the library built from the config
        if r["cmd"].config.args_parser is not shared:
            lim.fail("config|parser-not-shared", "Config.args_parser does not return the parser that was set", None)
    fresh = [G.outcome_key(_fresh(r)) for r in pool]
    sets = [_sets_something(k) for k in fresh]
    def via_command(req, raw):
        try:
            args = req["cmd"].parse(raw, req["lenient"])
        except Exception as e:  # the call under test
            return ("exc", type(e).__name__, str(e), G.exc_site(e), e)
        return ("ok", G.views(args), args)

    stopped = False
    n = 0
    for ids in _sequences(ctx, pool, npairs, 0, nrand):
        reqs = [pool[i] for i in ids]
        # every history starts with a new parser object carried by all the command configs (keeps witnesses replayable)
        shared = G.new_parser()
        for cmd in commands:
            cmd.config.set_args_parser(shared)
        pr = _run_history(reqs, via_command, [fresh[i] for i in ids])
        ctx.case(list(ids), nontrivial=len(ids) >= 2 and any(sets[i] for i in ids))
        for sig, what, at in pr:
            lim.fail(sig.replace("history|", "history-commands|", 1), what,
                     {"route": "commands", "requests": [[r["spec"], r["tokens"], r["lenient"]] for r in reqs]})
        n += 1
        if n % 2000 == 0 and ctx.out_of_time():
            stopped = True
            break
    ctx.done(exhaustive=False, note=("stopped at the deadline; " if stopped else "") + lim.note())

    # 3 -- one RawArgs object parsed repeatedly
    nfmt, per_fmt = (40, 6) if quick else (1500, 8)
    formats, pool = _build_pool(rng, nfmt, per_fmt)
    ctx.check("raw_args_reuse",
              "%d requests (%d seeded formats): ONE ArgvArgs object parsed 3 times (strict, lenient, strict) by one parser and "
              "by fresh parsers; StringArgs of the same tokens where they need no quoting; tokens / option_tokens / argv / format "
              "listings unchanged, every outcome equal to the fresh one" % (len(pool) // 2, nfmt))
    lim = G.SigLimiter(ctx, per=3)
    from clikit.args import ArgvArgs, StringArgs
    for r in pool:
        if r["lenient"]:
            continue
        tokens = r["tokens"]
        simple = all(t and not any(c in t for c in " \t\"'\\") for t in tokens)
        kinds = [("argv", lambda: ArgvArgs(["prog"] + list(tokens)))]
        if simple:
            kinds.append(("string", lambda: StringArgs(" ".join(tokens))))
        for kname, mk in kinds:
            raw = mk()
            if list(raw.tokens) != list(tokens):
                if kname == "string":
                    continue  # tokenisation is C08's subject
                lim.fail("frame|argv-tokens", "ArgvArgs(['prog'] + t).tokens != t for %r" % (tokens,), None)
            opt_before = list(raw.option_tokens)
            listing = G.format_listing(r["fmt"])
            shared = G.new_parser()
            want = {}
            for lenient in (False, True):
                want[lenient] = G.outcome_key(G.parse_outcome(G.new_parser(), r["fmt"], tokens, lenient))
            for step, lenient in enumerate((False, True, False)):
                for pname, parser in (("shared", shared), ("fresh", G.new_parser())):
                    got = G.outcome_key(G.parse_outcome(parser, r["fmt"], tokens, lenient, raw))
                    if got != want[lenient]:
                        lim.fail("reuse|%s-raw-args|%s-parser|%s" % (kname, pname, _diff_class(want[lenient], got)),
                                 "parse %d of one %s raw-args object: %s, expected %s" % (step, kname, _short(got, want[lenient]), _short(want[lenient], got)),
                                 {"route": "reuse", "requests": [[r["spec"], tokens, lenient]]})
            if list(raw.tokens) != list(tokens) or list(raw.option_tokens) != opt_before:
                lim.fail("frame|raw-tokens-changed", "tokens of the %s raw args changed: %r" % (kname, raw.tokens),
                         {"route": "reuse", "requests": [[r["spec"], tokens, False]]})
            if G.format_listing(r["fmt"]) != listing:
                lim.fail("frame|format-changed", "parse changed the listings of the format",
                         {"route": "reuse", "requests": [[r["spec"], tokens, False]]})
            ctx.case([r["fi"], tokens, kname], nontrivial=bool(tokens))
    ctx.done(exhaustive=False, note=lim.note())


def replay_bounded(check_id, failure):
    w = failure.get("witness")
    if not w:
        return {"fails": False, "detail": "no witness recorded"}
    shared = G.new_parser()
    reqs = []
    cmds = {}
    for spec, tokens, lenient in w["requests"]:
        key = repr(spec)
        if w["route"] == "commands":
            if key not in cmds:
                cmds[key] = G.build_command(spec, shared)
            fmt = cmds[key].args_format
        else:
            fmt = cmds.setdefault(key, G.build_format(spec))
        reqs.append({"spec": spec, "fmt": fmt, "tokens": tokens, "lenient": lenient, "cmd": cmds[key]})
    fresh = [G.outcome_key(_fresh(r)) for r in reqs]
    if w["route"] == "commands":
        def fn(req, raw):
            try:
                args = req["cmd"].parse(raw, req["lenient"])
            except Exception as e:  # the call under test
                return ("exc", type(e).__name__, str(e), G.exc_site(e), e)
            return ("ok", G.views(args), args)
    elif w["route"] == "reuse":
        from clikit.args import ArgvArgs
        one = ArgvArgs(["prog"] + list(reqs[0]["tokens"]))
        reqs = [dict(reqs[0], lenient=m) for m in (False, True, False)]
        fresh = [G.outcome_key(_fresh(r)) for r in reqs]

        def fn(req, raw):
            return G.parse_outcome(shared, req["fmt"], req["tokens"], req["lenient"], one)
    else:
        def fn(req, raw):
            return G.parse_outcome(shared, req["fmt"], req["tokens"], req["lenient"], raw)
    pr = _run_history(reqs, fn, fresh)
    return {"fails": bool(pr), "detail": "; ".join(p[1] for p in pr)[:600] or "the history now behaves like fresh parsers"}
