"""More contracts for C05 / C03: mode forwarding of Command.parse, classification flags of CommandConfig."""
from pyvc.contracts import REG as R

M_CMD = "clikit.api.command.command"
M_CC = "clikit.api.config.command_config"

R.shape("ArgsParser", external=True, g_last_lenient="bool", g_last_args="ref RawArgs", g_last_fmt="ref ArgsFormat")
R.shape("CommandConfig", _lenient_args_parsing="bool?", _default="bool", _anonymous="bool", g_default_lenient="bool",
        g_parser="ref ArgsParser")
R.shape("Command", _config="ref CommandConfig", _args_format="ref ArgsFormat")
R.contract(M_CC + ":CommandConfig.args_parser", params={}, returns="ref ArgsParser", ensures=["result is self.g_parser"],
           assumed=True, note="the parser of the configuration (configured or default)").is_property = True
R.contract(M_CC + ":CommandConfig.default_lenient_args_parsing", params={}, returns="bool",
           ensures=["result == self.g_default_lenient"], assumed=True).is_property = True
R.contract("clikit.api.args.args_parser:ArgsParser.parse",
           params={"args": "ref RawArgs", "fmt": "ref ArgsFormat", "lenient": "bool"}, returns="ref Args",
           ensures=["self.g_last_lenient == lenient", "self.g_last_args is args", "self.g_last_fmt is fmt"],
           raises={"Exception": "True"},
           ensures_on_raise={"Exception": ["self.g_last_lenient == lenient", "self.g_last_args is args", "self.g_last_fmt is fmt"]},
           modifies=["self.g_last_lenient", "self.g_last_args", "self.g_last_fmt"], assumed=True,
           note="the parser interface: records what it was asked (ghost)").defaults = {"lenient": False}
MODE = ("(lenient if lenient is not None else (self._config._lenient_args_parsing if self._config._lenient_args_parsing is not None "
        "else self._config.g_default_lenient))")
FWD = ["self._config.g_parser.g_last_lenient == %s" % MODE,
       "self._config.g_parser.g_last_args is args and self._config.g_parser.g_last_fmt is self._args_format"]
R.contract(
    M_CMD + ":Command.parse", variant="mode",
    params={"args": "ref RawArgs", "lenient": "bool?"},
    returns="ref Args",
    # the parser is asked exactly what the caller asked: these raw arguments, this command's format, the explicit mode
    # (or, when none is given, the configured one) -- so the result depends on nothing else (with C05's parser frames)
    ensures=FWD,
    raises={"Exception": "True"},
    ensures_on_raise={"Exception": FWD},
    modifies=["self._config.g_parser.g_last_lenient", "self._config.g_parser.g_last_args", "self._config.g_parser.g_last_fmt"],
).defaults = {"lenient": None}

# ---- C03: how a command is classified (named / default / anonymous) ------------------------------------
R.contract(M_CC + ":CommandConfig.default", params={"default": "bool"}, returns="ref CommandConfig",
           ensures=["self._default == default", "not self._anonymous", "result is self"],
           modifies=["self._default", "self._anonymous"]).defaults = {"default": True}
R.contract(M_CC + ":CommandConfig.anonymous", params={}, returns="ref CommandConfig",
           ensures=["self._default", "self._anonymous", "result is self"], modifies=["self._default", "self._anonymous"])
