"""Frame / read-set obligations of C05 decided on the AST of the working tree.

The parser's result is a function of (tokens, format, mode) if (1) the only state of the parser object its methods
touch is the scratch pair, (2) parse() re-initialises both scratch maps before anything else looks at the object,
(3) the token list of the raw arguments is copied before it is consumed.  These are frame conditions of the
contracts of DefaultArgsParser; they are decided syntactically (every attribute access on `self` is enumerated), not
by the SMT back end, and reported as obligations with back end `ast frame analysis`.
"""
import ast

from pyvc import frontend

PARSER = "clikit.args.default_args_parser"
SCRATCH = {"_arguments", "_options"}
FRESH_CALLS = {"OrderedDict", "dict"}


def _self_attrs(fn):
    out = []
    for n in ast.walk(fn):
        if isinstance(n, ast.Attribute) and isinstance(n.value, ast.Name) and n.value.id == "self":
            out.append(n)
    return out


def structural():
    P = frontend.Program()
    mi = P.module(PARSER)
    ci = mi.classes["DefaultArgsParser"]
    methods = set(ci.methods)
    obls = []
    # (1) read/write set of the parser object
    foreign = []
    for m, fn in ci.methods.items():
        for a in _self_attrs(fn):
            if a.attr not in SCRATCH and a.attr not in methods:
                foreign.append("%s: self.%s (line %d)" % (m, a.attr, a.lineno))
    obls.append({
        "name": "C05.DefaultArgsParser.frame.object_state", "kind": "frame",
        "text": "the methods of the parser read and write no attribute of the parser object other than the scratch maps "
                "_arguments / _options",
        "status": "proved" if not foreign else "failed",
        "note": "; ".join(foreign[:6]),
    })
    # (2) scratch re-initialised first
    parse = ci.methods.get("parse")
    problems = []
    if parse is None:
        problems.append("parse() not found")
    else:
        body = frontend.body_without_docstring(parse)
        seen = set()
        for st in body:
            is_init = (isinstance(st, ast.Assign) and len(st.targets) == 1 and isinstance(st.targets[0], ast.Attribute)
                       and isinstance(st.targets[0].value, ast.Name) and st.targets[0].value.id == "self"
                       and st.targets[0].attr in SCRATCH
                       and ((isinstance(st.value, ast.Call) and isinstance(st.value.func, ast.Name)
                             and st.value.func.id in FRESH_CALLS and not st.value.args and not st.value.keywords)
                            or (isinstance(st.value, ast.Dict) and not st.value.keys)))
            if is_init:
                seen.add(st.targets[0].attr)
                continue
            if seen == SCRATCH:
                break
            # any other statement before both are initialised must not mention self at all
            if any(isinstance(n, ast.Name) and n.id == "self" for n in ast.walk(st)):
                problems.append("line %d uses the parser object before %s is re-initialised" % (
                    st.lineno, ", ".join(sorted(SCRATCH - seen))))
                break
        if seen != SCRATCH and not problems:
            problems.append("parse() does not re-initialise %s" % ", ".join(sorted(SCRATCH - seen)))
        # ... and nowhere else is a scratch map replaced or cleared at the END of a parse only (a parse that raises
        # must not leave state behind for the next one): re-initialisation at entry is what counts, checked above.
    obls.append({
        "name": "C05.DefaultArgsParser.parse.scratch_init", "kind": "frame",
        "text": "parse() assigns fresh empty maps to both scratch attributes before any other use of the parser object",
        "status": "proved" if not problems else "failed",
        "note": "; ".join(problems),
    })
    # (3) token list copied before consumption
    bad = []
    for m, fn in ci.methods.items():
        for n in ast.walk(fn):
            if not isinstance(n, ast.Assign):
                continue
            copied = set()
            for x in ast.walk(n.value):
                # <expr>.tokens[...:...]  /  list(<expr>.tokens)  /  tuple(...)  are copies
                if isinstance(x, ast.Subscript) and isinstance(x.slice, ast.Slice):
                    copied.add(id(x.value))
                if isinstance(x, ast.Call) and isinstance(x.func, ast.Name) and x.func.id in ("list", "tuple"):
                    copied.update(id(a) for a in x.args)
            for x in ast.walk(n.value):
                if isinstance(x, ast.Attribute) and x.attr in ("tokens", "option_tokens") and id(x) not in copied:
                    bad.append("%s line %d binds %s without copying it" % (m, n.lineno, ast.unparse(x)))
    obls.append({
        "name": "C05.DefaultArgsParser.frame.tokens_copied", "kind": "frame",
        "text": "no local is bound to the raw arguments' token list itself (only to a copy) before tokens are consumed",
        "status": "proved" if not bad else "failed",
        "note": "; ".join(bad),
    })
    # (4) nothing is ordered by a set: the iteration order of a set of strings depends on the interpreter's per-process
    # hash seed, which is not one of (tokens, format, mode)
    unordered = []
    set_methods = {"difference", "union", "intersection", "symmetric_difference"}

    def is_set_expr(x, tainted):
        if isinstance(x, (ast.Set, ast.SetComp)):
            return True
        if isinstance(x, ast.Call):
            if isinstance(x.func, ast.Name) and x.func.id in ("set", "frozenset"):
                return True
            if isinstance(x.func, ast.Attribute) and x.func.attr in set_methods:
                return True
        if isinstance(x, ast.Name) and x.id in tainted:
            return True
        if isinstance(x, ast.BinOp) and isinstance(x.op, (ast.BitOr, ast.BitAnd, ast.Sub, ast.BitXor)):
            return is_set_expr(x.left, tainted) or is_set_expr(x.right, tainted)
        return False

    for m, fn in ci.methods.items():
        tainted = set()
        for _round in range(3):
            for n in ast.walk(fn):
                if isinstance(n, ast.Assign) and is_set_expr(n.value, tainted):
                    for t in n.targets:
                        if isinstance(t, ast.Name):
                            tainted.add(t.id)
        for n in ast.walk(fn):
            its = []
            if isinstance(n, ast.For):
                its.append(n.iter)
            if isinstance(n, (ast.ListComp, ast.GeneratorExp, ast.DictComp, ast.SetComp)):
                its.extend(g.iter for g in n.generators)
            if isinstance(n, ast.Call):
                f = n.func
                if isinstance(f, ast.Name) and f.id in ("list", "tuple", "iter", "next", "str", "repr", "enumerate", "zip"):
                    its.extend(n.args)
                if isinstance(f, ast.Attribute) and f.attr in ("join", "format", "extend", "update"):
                    its.extend(n.args)
                if isinstance(f, ast.Attribute) and f.attr == "pop" and is_set_expr(f.value, tainted):
                    its.append(f.value)
            if isinstance(n, ast.Starred):
                its.append(n.value)
            for it in its:
                if is_set_expr(it, tainted):
                    unordered.append("%s line %d: order taken from a set: %s" % (m, it.lineno, ast.unparse(it)[:60]))
    obls.append({
        "name": "C05.DefaultArgsParser.frame.no_hash_order", "kind": "frame",
        "text": "no method of the parser iterates over, joins, formats or converts to a sequence a set (membership tests, "
                "len() and sorted() are fine): results and messages cannot depend on the per-process hash seed",
        "status": "proved" if not unordered else "failed",
        "note": "; ".join(sorted(set(unordered))[:6]),
    })
    from .frame_written import written_only_while_built
    obls += written_only_while_built("C05")
    return obls
