"""Frame / read-set obligations of C05 decided on the AST of the working tree.

The parser's result is a function of (tokens, format, mode) if (1) the only state of the parser object its methods
touch is the scratch pair, (2) parse() re-initialises both scratch maps before anything else looks at the object,
(3) the token list of the raw arguments is copied before it is consumed.  These are frame conditions of the
contracts of DefaultArgsParser; they are decided syntactically (every attribute access on `self` is enumerated), not
by the SMT back end, and reported as obligations with back end `ast frame analysis`.
"""
import ast

from pyvc import frontend

PARSER = "clikit.args.default_args_parser"
SCRATCH = {"_arguments", "_options"}
FRESH_CALLS = {"OrderedDict", "dict"}


def _self_attrs(fn):
    out = []
    for n in ast.walk(fn):
        if isinstance(n, ast.Attribute) and isinstance(n.value, ast.Name) and n.value.id == "self":
            out.append(n)
    return out


def structural():
    P = frontend.Program()
    mi = P.module(PARSER)
    ci = mi.classes["DefaultArgsParser"]
    methods = set(ci.methods)
    obls = []
    # (1) read/write set of the parser object
    foreign = []
    for m, fn in ci.methods.items():
        for a in _self_attrs(fn):
            if a.attr not in SCRATCH and a.attr not in methods:
                foreign.append("%s: self.%s (line %d)" % (m, a.attr, a.lineno))
    obls.append({
        "name": "C05.DefaultArgsParser.frame.object_state", "kind": "frame",
        "text": "the methods of the parser read and write no attribute of the parser object other than the scratch maps "
                "_arguments / _options",
        "status": "proved" if not foreign else "failed",
        "note": "; ".join(foreign[:6]),
    })
    # (2) scratch re-initialised first
    parse = ci.methods.get("parse")
    problems = []
    if parse is None:
        problems.append("parse() not found")
    else:
        body = frontend.body_without_docstring(parse)
        seen = set()
        for st in body:
            is_init = (isinstance(st, ast.Assign) and len(st.targets) == 1 and isinstance(st.targets[0], ast.Attribute)
                       and isinstance(st.targets[0].value, ast.Name) and st.targets[0].value.id == "self"
                       and st.targets[0].attr in SCRATCH
                       and ((isinstance(st.value, ast.Call) and isinstance(st.value.func, ast.Name)
                             and st.value.func.id in FRESH_CALLS and not st.value.args and not st.value.keywords)
                            or (isinstance(st.value, ast.Dict) and not st.value.keys)))
            if is_init:
                seen.add(st.targets[0].attr)
                continue
            if seen == SCRATCH:
                break
            # any other statement before both are initialised must not mention self at all
            if any(isinstance(n, ast.Name) and n.id == "self" for n in ast.walk(st)):
                problems.append("line %d uses the parser object before %s is re-initialised" % (
                    st.lineno, ", ".join(sorted(SCRATCH - seen))))
                break
        if seen != SCRATCH and not problems:
            problems.append("parse() does not re-initialise %s" % ", ".join(sorted(SCRATCH - seen)))
        # ... and nowhere else is a scratch map replaced or cleared at the END of a parse only (a parse that raises
        # must not leave state behind for the next one): re-initialisation at entry is what counts, checked above.
    obls.append({
        "name": "C05.DefaultArgsParser.parse.scratch_init", "kind": "frame",
        "text": "parse() assigns fresh empty maps to both scratch attributes before any other use of the parser object",
        "status": "proved" if not problems else "failed",
        "note": "; ".join(problems),
    })
    # (3) token list copied before consumption
    bad = []
    for m, fn in ci.methods.items():
        for n in ast.walk(fn):
            if isinstance(n, ast.Assign) and isinstance(n.value, ast.Attribute) and n.value.attr in ("tokens", "option_tokens"):
                bad.append("%s line %d binds %s without copying it" % (m, n.lineno, ast.unparse(n.value)))
    obls.append({
        "name": "C05.DefaultArgsParser.frame.tokens_copied", "kind": "frame",
        "text": "no local is bound to the raw arguments' token list itself (only to a copy) before tokens are consumed",
        "status": "proved" if not bad else "failed",
        "note": "; ".join(bad),
    })
    return obls
