"""C06 -- see DESIGN.md section 5.  Deductive targets are added below the bounded import."""
PROP = "C06"
LEVEL = "other"
EXPLANATION = ("Deductive: every insertion into an ArgsFormatBuilder is either rejected with the builder unchanged or extends the name tables by exactly the element: add_option and add_command_option (long name, short name and every long / short alias, four loops with quantified invariants) raise CannotAddOptionException exactly when one of the names is taken by an option or command option of the builder or its base formats and otherwise make every name denote the new element and change nothing else (same_except over the key set); add_argument enforces the ordering rules (no argument after a multi-valued one, no required one after an optional one, no duplicate name) through the two flags it maintains; has_option / has_command_option are the lookups those checks use; get_options / get_arguments hand out a new dict every time (never the builder's own table) that lists every own element, and leave the tables unchanged.  Bounded: operation sequences on real builders compared step by step with an abstract model (view + invariant), mirrored queries of ArgsFormat, the element-list constructor.")
LEVEL_NOTE = ("assumes: the base format is seen through fixed (uninterpreted) has_* views; own argument names as a ghost set; the two tables of a kind are distinct objects; quantified obligations are discharged by z3 or, where z3 answers unknown, by cvc5 on the same SMT-LIB text; the finished ArgsFormat (mirror of the builder) and the get_* queries are bounded only")
from . import builder_contracts as bc
TARGETS = [bc.B + m for m in ("has_option", "has_command_option", "add_option", "add_argument", "add_command_option", "get_options", "get_arguments")]
LEMMAS = []
try:
    from .C06_bounded import bounded, BOUNDED_RULE  # noqa: F401
    try:
        from .C06_bounded import replay_bounded  # noqa: F401
    except ImportError:
        pass
except ImportError:
    pass
