"""C06 -- see DESIGN.md section 5.  Deductive targets are added below the bounded import."""
PROP = "C06"
LEVEL = "other"
EXPLANATION = ("Deductive: every insertion into an ArgsFormatBuilder is either rejected with the builder unchanged or extends the name tables by exactly the element: add_option and add_command_option (long name, short name and every long / short alias, four loops with quantified invariants) raise CannotAddOptionException exactly when one of the names is taken by an option or command option of the builder or its base formats and otherwise make every name denote the new element and change nothing else (same_except over the key set); add_argument enforces the ordering rules (no argument after a multi-valued one, no required one after an optional one, no duplicate name) through the two flags it maintains; has_option / has_command_option are the lookups those checks use; get_options / get_arguments hand out a new dict every time (never the builder's own table) that lists every own element, and leave the tables unchanged; the finished ArgsFormat mirrors the lookups of the builder: has_option / has_command_option / get_option / get_command_option are proved, one level of the base chain at a time, to consult the long-name table, then the short-name table, then (only if asked to include it, and only if there is one) the base format, to return the element of exactly that table, and to raise NoSuchOptionException only for a name none of them knows (variant contracts over the same uninterpreted base views as the builder).  Bounded: operation sequences on real builders compared step by step with an abstract model (view + invariant), mirrored queries of ArgsFormat, the element-list constructor.")
LEVEL_NOTE = ("assumes: the base format is seen through fixed (uninterpreted) has_* views; own argument names as a ghost set; the two tables of a kind are distinct objects; quantified obligations are discharged by z3 or, where z3 answers unknown, by cvc5 on the same SMT-LIB text; well-formed name tables of a finished format (long names two characters or more, short names one: C07) are a precondition of the mirrored get_* lookups; the views of a base format are fixed functions (finite, acyclic base chain: not proved); the constructor of ArgsFormat, the argument-side and listing queries of the finished format are bounded only")
from . import builder_contracts as bc
from . import format_mirror_contracts as fm
TARGETS = [bc.B + m for m in ("has_option", "has_command_option", "add_option", "add_argument", "add_command_option", "get_options", "get_arguments")] + fm.MIRROR
LEMMAS = []
try:
    from .C06_bounded import bounded, BOUNDED_RULE  # noqa: F401
    try:
        from .C06_bounded import replay_bounded  # noqa: F401
    except ImportError:
        pass
except ImportError:
    pass
