"""C06 -- see DESIGN.md section 5.  Deductive targets are added below the bounded import."""
PROP = "C06"
LEVEL = "other"
EXPLANATION = 'bounded stand-in: operation sequences on real builders compared step by step with an abstract model (view + invariant); deductive obligations on the builder are being added'
from . import builder_contracts as bc
TARGETS = [bc.B + m for m in ("has_option", "has_command_option", "add_option", "add_argument")]
LEMMAS = []
try:
    from .C06_bounded import bounded, BOUNDED_RULE  # noqa: F401
    try:
        from .C06_bounded import replay_bounded  # noqa: F401
    except ImportError:
        pass
except ImportError:
    pass
