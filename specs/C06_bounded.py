"""C06 bounded tier: operation sequences on ArgsFormatBuilder / ArgsFormat against an
independent abstract model (the "view" of DESIGN.md section 5, C06).

Oracle (from the property text): every single addition is either rejected with
CannotAddOptionException / CannotAddArgumentException leaving the builder unchanged, or
leaves a state in which every long / short / alias name identifies at most one option
across the format and its bases, at most one multi-valued argument exists and it is
last, no required argument follows an optional one.  After every step all public
queries of the builder and of `builder.format` are compared with what the listed
elements imply; `ArgsFormat(elements, base)` enforces the same rules; commands stack
their format on their parent's.

Interpretation decisions (documented so that the checks do not over-demand):
 * arguments and command names are positional: expected listing = base first, then own,
   in order of addition (args(F) = args(base) ++ own);
 * options and command options are a name space: the relative order of *levels* in a
   listing is not prescribed (only: every element exactly once, order of addition within
   one level, builder and finished format list identically);
 * set_*/add_*s(e1..en) = (clear the own elements of that kind;) then the single additions
   in order, the first rejected one propagating its error (the earlier ones stay);
 * duplicate argument names must be rejected (lookup by name would be ambiguous);
 * has_argument(p) / get_argument(p) for p < 0: no such position (own signature class).
"""
import itertools

BOUNDED_RULE = (
    "a case is (base configuration, operation sequence); the last operation of the sequence is the one "
    "checked (its prefix was checked as an earlier case); distinct = distinct (base, sequence); "
    "non-trivial = length >= 2 with at least one accepted and at least one rejected/replacing operation "
    "(constructor cases: >= 2 elements; config stacks: >= 2 non-empty levels)"
)

# ------------------------------------------------------------------------------------------------
# element pool (descriptors are json-able tuples)
#   ("O", long, short)            Option
#   ("K", long, short, aliases)   CommandOption
#   ("A", name, kind)             Argument, kind in req / opt / multi (optional multi) / reqmulti
#   ("N", string, aliases)        CommandName
O1 = ("O", "aa", "a")
O2 = ("O", "bb", "b")
O3 = ("O", "aa", None)
O4 = ("O", "cc", "a")
O5 = ("O", "dd", None)
K1 = ("K", "aa", None, ())
K2 = ("K", "dd", "b", ("cc", "a"))
K3 = ("K", "ee", None, ("bb",))
K4 = ("K", "cc", "c", ("d",))
A1 = ("A", "xx", "req")
A2 = ("A", "yy", "opt")
A3 = ("A", "xx", "opt")
A4 = ("A", "zz", "multi")
A5 = ("A", "yy", "req")
A6 = ("A", "ww", "reqmulti")
N1 = ("N", "cmd", ())
N2 = ("N", "sub", ("s",))

QNAMES = ["aa", "bb", "cc", "dd", "ee", "kk", "a", "b", "c", "d", "k", "q", "qq"]
ARGNAMES = ["xx", "yy", "zz", "ww", "vv", "qq"]
POSITIONS = list(range(-1, 7))

CORE_OPS = [
    ("add_option", (O1,)), ("add_option", (O2,)), ("add_option", (O3,)), ("add_option", (O4,)),
    ("add_command_option", (K2,)), ("add_command_option", (K3,)), ("add_command_option", (K1,)),
    ("add_argument", (A1,)), ("add_argument", (A2,)), ("add_argument", (A4,)), ("add_argument", (A3,)),
    ("add_command_name", (N1,)),
]
FULL_OPS = CORE_OPS + [
    ("add_option", (O5,)), ("add_command_option", (K4,)), ("add_argument", (A5,)), ("add_argument", (A6,)),
    ("add_command_name", (N2,)),
    ("add_options", (O1, O3)), ("add_options", (O2, O5)),
    ("set_options", ()), ("set_options", (O2,)), ("set_options", (O1, O4)),
    ("add_command_options", (K3, K2)),
    ("set_command_options", ()), ("set_command_options", (K1,)),
    ("add_arguments", (A1, A2)), ("add_arguments", (A2, A1)),
    ("set_arguments", ()), ("set_arguments", (A1,)), ("set_arguments", (A4, A2)),
    ("add_command_names", (N1, N2)),
    ("set_command_names", ()), ("set_command_names", (N2,)),
]

# base configurations: list of levels, root first; every level is a list of descriptors
BASES = {
    "none": [],
    "one": [[("N", "app", ()), ("O", "bb", "b"), ("K", "ee", None, ("cc", "a")), ("A", "xx", "req")]],
    "two": [[("O", "aa", "a"), ("A", "ww", "req")],
            [("N", "cmd", ()), ("K", "dd", "d", ("b",)), ("A", "yy", "opt")]],
    "multi": [[("O", "kk", "k"), ("A", "zz", "multi")]],
    "hollow": [[("O", "cc", "c"), ("K", "kk", "k", ("ee",)), ("A", "vv", "req")], []],
}

_KIND_OF_OP = {
    "add_option": "O", "add_options": "O", "set_options": "O",
    "add_command_option": "K", "add_command_options": "K", "set_command_options": "K",
    "add_argument": "A", "add_arguments": "A", "set_arguments": "A",
    "add_command_name": "N", "add_command_names": "N", "set_command_names": "N",
}


# ------------------------------------------------------------------------------------------------
# abstract model
class M(object):
    """immutable model of one level (builder or format) with its base chain"""
    __slots__ = ("base", "N", "K", "A", "O", "depth")

    def __init__(self, base, N=(), K=(), A=(), O=()):
        self.base = base
        self.N, self.K, self.A, self.O = tuple(N), tuple(K), tuple(A), tuple(O)   # tuples of (label, descriptor)
        self.depth = 0 if base is None else base.depth + 1

    def chain(self):  # root first
        out = []
        m = self
        while m is not None:
            out.append(m)
            m = m.base
        return out[::-1]

    def levels(self, ib):
        return self.chain() if ib else [self]

    def replace(self, **kw):
        d = {"N": self.N, "K": self.K, "A": self.A, "O": self.O}
        d.update(kw)
        return M(self.base, **d)


def _opt_names(d):
    """names by which an option / command option can be addressed"""
    if d[0] == "O":
        return [d[1]] + ([d[2]] if d[2] else [])
    return [d[1]] + ([d[2]] if d[2] else []) + list(d[3])


def _name_owner(m, name):
    """(where, kind) of the element of the whole chain that answers to `name`, or None"""
    for lvl in m.chain():
        where = "own" if lvl is m else "base"
        for _, d in lvl.O:
            if name in _opt_names(d):
                return where, "option"
        for _, d in lvl.K:
            if name in _opt_names(d):
                return where, "command-option"
    return None


def model_add(m, label, d):
    """-> (new model, None) or (m, (exception kind, reason))"""
    k = d[0]
    if k == "N":
        return m.replace(N=m.N + ((label, d),)), None
    if k in ("O", "K"):
        parts = [("long", d[1])] + ([("short", d[2])] if d[2] else [])
        if k == "K":
            parts += [("alias", a) for a in d[3]]
        for what, name in parts:
            own = _name_owner(m, name)
            if own is not None:
                return m, ("option", "%s-name-of-%s-%s" % (what, own[0], own[1]))
        if k == "O":
            return m.replace(O=m.O + ((label, d),)), None
        return m.replace(K=m.K + ((label, d),)), None
    # argument
    allargs = [x for lvl in m.chain() for x in lvl.A]
    if any(x[1][1] == d[1] for x in allargs):
        return m, ("argument", "duplicate-name")
    if any(x[1][2] in ("multi", "reqmulti") for x in allargs):
        return m, ("argument", "after-multi-valued")
    if d[2] in ("req", "reqmulti") and any(x[1][2] in ("opt", "multi") for x in allargs):
        return m, ("argument", "required-after-optional")
    return m.replace(A=m.A + ((label, d),)), None


def model_op(m, op, labels):
    """-> (new model, rejection or None, index of the rejected element)"""
    name, els = op
    if name.startswith("set_"):
        m = m.replace(**{_KIND_OF_OP[name]: ()})
    for i, d in enumerate(els):
        m, rej = model_add(m, labels[i], d)
        if rej is not None:
            return m, rej, i
    return m, None, None


def _is_opt(d):
    return d[2] in ("opt", "multi")


def _is_multi(d):
    return d[2] in ("multi", "reqmulti")


NOSUCH = "!NoSuch"


def model_obs(m):
    o = {}
    for ib in (True, False):
        lv = m.levels(ib)
        cn = [l for x in lv for l, _ in x.N]
        o["has_command_names", ib] = bool(cn)
        o["get_command_names", ib] = cn
        # own level first (canonical form of option listings, see canon())
        ko = [l for x in lv[::-1] for l, _ in x.K]
        o["has_command_options", ib] = bool(ko)
        o["get_command_options", ib] = ko
        oo = [(d[1], l) for x in lv[::-1] for l, d in x.O]
        o["has_options", ib] = bool(oo)
        o["get_options", ib] = oo
        kmap, omap = {}, {}
        for x in lv:
            for l, d in x.K:
                for n in _opt_names(d):
                    kmap.setdefault(n, l)
            for l, d in x.O:
                for n in _opt_names(d):
                    omap.setdefault(n, l)
        for n in QNAMES:
            o["has_command_option", n, ib] = n in kmap
            o["get_command_option", n, ib] = kmap.get(n, NOSUCH)
            o["has_option", n, ib] = n in omap
            o["get_option", n, ib] = omap.get(n, NOSUCH)
        aa = [(d[1], l, d) for x in lv for l, d in x.A]
        o["has_arguments", ib] = bool(aa)
        o["get_arguments", ib] = [(n, l) for n, l, _ in aa]
        amap = dict((n, l) for n, l, _ in aa)
        for n in ARGNAMES:
            o["has_argument", n, ib] = n in amap
            o["get_argument", n, ib] = amap.get(n, NOSUCH)
        for p in POSITIONS:
            ok = 0 <= p < len(aa)
            o["has_argument", p, ib] = ok
            o["get_argument", p, ib] = aa[p][1] if ok else NOSUCH
        o["has_multi_valued_argument", ib] = any(_is_multi(d) for _, _, d in aa)
        o["has_optional_argument", ib] = any(_is_opt(d) for _, _, d in aa)
        o["has_required_argument", ib] = any(not _is_opt(d) for _, _, d in aa)
    return o


# ------------------------------------------------------------------------------------------------
# real side
class Real(object):
    """creates real elements for descriptors and remembers their labels"""

    def __init__(self):
        from clikit.api.args.format import Argument, CommandName, CommandOption, Option
        self._cls = (Argument, CommandName, CommandOption, Option)
        self.lab = {}
        self.keep = []
        self.level_of = {}

    def make(self, d, label, level):
        try:
            return self._make(d, label, level)
        except Exception as ex:  # every descriptor of the pools is a well-formed element
            raise BaseBroken([("element|valid-element-rejected|%s" % {"O": "option", "K": "command-option", "A": "argument"}.get(d[0], "command-name"),
                               "constructing the element %r raised %r" % (d, ex), {"element": list(d)})])

    def _make(self, d, label, level):
        Argument, CommandName, CommandOption, Option = self._cls
        if d[0] == "O":
            e = Option(d[1], d[2])
        elif d[0] == "K":
            e = CommandOption(d[1], d[2], list(d[3]))
        elif d[0] == "A":
            fl = {"req": Argument.REQUIRED, "opt": Argument.OPTIONAL, "multi": Argument.MULTI_VALUED,
                  "reqmulti": Argument.REQUIRED | Argument.MULTI_VALUED}[d[2]]
            e = Argument(d[1], fl)
        else:
            e = CommandName(d[1], list(d[2]))
        self.keep.append(e)
        self.lab[id(e)] = label
        self.level_of[label] = level
        return e

    def L(self, x):
        return self.lab.get(id(x), "?%s" % type(x).__name__)


_NOSUCH_EXC = []


def _nosuch_exc():
    if not _NOSUCH_EXC:
        from clikit.api.args.exceptions import NoSuchArgumentException, NoSuchOptionException
        _NOSUCH_EXC.append((NoSuchOptionException, NoSuchArgumentException))
    return _NOSUCH_EXC[0]


class _Raised(object):
    def __init__(self, s):
        self.s = s


_RAISED_NOSUCH = _Raised(NOSUCH)


def _call(fn, *a):
    try:
        return fn(*a)
    except _nosuch_exc():
        return _RAISED_NOSUCH
    except Exception as e:  # observation of the real code: the type of a foreign error is the observed value
        return _Raised("!" + type(e).__name__)


def _queries():
    """(key, method, args, kind) kind: 0 bool, 1 element, 2 list of elements, 3 dict name -> element"""
    qs = []
    for ib in (True, False):
        qs.append((("has_command_names", ib), "has_command_names", (ib,), 0))
        qs.append((("get_command_names", ib), "get_command_names", (ib,), 2))
        qs.append((("has_command_options", ib), "has_command_options", (ib,), 0))
        qs.append((("get_command_options", ib), "get_command_options", (ib,), 2))
        qs.append((("has_options", ib), "has_options", (ib,), 0))
        qs.append((("get_options", ib), "get_options", (ib,), 3))
        for n in QNAMES:
            qs.append((("has_command_option", n, ib), "has_command_option", (n, ib), 0))
            qs.append((("get_command_option", n, ib), "get_command_option", (n, ib), 1))
            qs.append((("has_option", n, ib), "has_option", (n, ib), 0))
            qs.append((("get_option", n, ib), "get_option", (n, ib), 1))
        qs.append((("has_arguments", ib), "has_arguments", (ib,), 0))
        qs.append((("get_arguments", ib), "get_arguments", (ib,), 3))
        for n in ARGNAMES + POSITIONS:
            qs.append((("has_argument", n, ib), "has_argument", (n, ib), 0))
            qs.append((("get_argument", n, ib), "get_argument", (n, ib), 1))
        qs.append((("has_multi_valued_argument", ib), "has_multi_valued_argument", (ib,), 0))
        qs.append((("has_optional_argument", ib), "has_optional_argument", (ib,), 0))
        qs.append((("has_required_argument", ib), "has_required_argument", (ib,), 0))
    return qs


QUERIES = _queries()


def observe(t, R):
    """all public queries of a builder or format as a dict comparable with model_obs (after canon())"""
    lab = R.lab
    nosuch = _nosuch_exc()
    o = {}
    for key, meth, args, kind in QUERIES:
        try:
            r = getattr(t, meth)(*args)
        except nosuch:
            o[key] = NOSUCH
            continue
        except Exception as e:  # observation of the real code: the type of a foreign error is the observed value
            o[key] = "!" + type(e).__name__
            continue
        if kind == 0:
            o[key] = bool(r)
        elif kind == 1:
            o[key] = lab.get(id(r)) or R.L(r)
        elif kind == 2:
            o[key] = [lab.get(id(x)) or R.L(x) for x in r]
        else:
            o[key] = [(k, lab.get(id(v)) or R.L(v)) for k, v in r.items()]
    return o


def canon(obs, R):
    """option / command-option listings: stable-sort by level, own level first (the order of the levels
    among each other is not prescribed by the property; duplicates and the order inside a level are kept)"""
    out = dict(obs)
    for ib in (True, False):
        v = out["get_command_options", ib]
        if isinstance(v, list):
            out["get_command_options", ib] = sorted(v, key=lambda l: -R.level_of.get(l, -1))
        v = out["get_options", ib]
        if isinstance(v, list):
            out["get_options", ib] = sorted(v, key=lambda kl: -R.level_of.get(kl[1], -1))
    return out


def _diff_class(key, got, exp):
    """coarse, stable class of a mismatch"""
    if isinstance(exp, bool):
        if isinstance(got, bool):
            return "present-but-not-implied" if got else "absent-but-implied"
        return "error-%s" % str(got).lstrip("!")
    if isinstance(exp, list):
        if not isinstance(got, list):
            return "error-%s" % str(got).lstrip("!")
        gl = [x[1] if isinstance(x, tuple) else x for x in got]
        el = [x[1] if isinstance(x, tuple) else x for x in exp]
        if set(gl) - set(el):
            return "present-but-not-implied"
        if set(el) - set(gl):
            return "absent-but-implied"
        if len(gl) != len(set(gl)):
            return "repeated"
        if gl != el:
            return "order"
        return "keys"
    if exp == NOSUCH:
        return "present-but-not-implied" if not str(got).startswith("!") else "error-%s" % got[1:]
    if got == NOSUCH:
        return "absent-but-implied"
    if str(got).startswith("!"):
        return "error-%s" % got[1:]
    return "wrong-element"


def _family(key):
    m = key[0]
    m = m[4:] if m.startswith(("has_", "get_")) else m
    if len(key) == 3 and isinstance(key[1], int):
        return "argument(negative-position)" if key[1] < 0 else "argument(position)"
    if len(key) == 3:
        m += "(name)"
    return m


def _key_class(key):
    return _family(key)


def compare(kind, got, exp):
    """-> list of (signature, what, detail) ; one entry per distinct signature"""
    out = {}
    for key, e in exp.items():
        g = got.get(key)
        if g != e:
            fam = _family(key)
            sig = "%s|%s" % (kind, fam) if "negative" in fam else "%s|%s|%s" % (kind, fam, _diff_class(key, g, e))
            if sig not in out:
                out[sig] = (sig, "%s: %s%r gives %r, the listed elements imply %r" % (
                    kind, key[0], tuple(key[1:]), g, e), {"query": list(key), "got": g, "expected": e})
    return list(out.values())


def snapshot(b):
    s = {}
    for k, v in vars(b).items():
        if isinstance(v, dict):
            s[k] = list(v.items())
        elif isinstance(v, list):
            s[k] = list(v)
        else:
            s[k] = v
    return s


class BaseBroken(Exception):
    """the real code rejected (or failed on) a well-formed base configuration"""

    def __init__(self, fails):
        Exception.__init__(self, fails[0][1])
        self.fails = fails


def build_base(base_id, R):
    """-> (real base format or None, model of it or None)"""
    from clikit.api.args.exceptions import CannotAddArgumentException, CannotAddOptionException
    from clikit.api.args.format.args_format_builder import ArgsFormatBuilder
    real, model = None, None
    for li, level in enumerate(BASES[base_id]):
        b = ArgsFormatBuilder(real)
        m = M(model)
        for ei, d in enumerate(level):
            label = "b%d.%d" % (li, ei)
            e = R.make(d, label, li)
            m, rej = model_add(m, label, d)
            assert rej is None, "base configurations must be well-formed"
            meth = {"O": "add_option", "K": "add_command_option", "A": "add_argument", "N": "add_command_name"}[d[0]]
            try:
                getattr(b, meth)(e)
            except (CannotAddOptionException, CannotAddArgumentException) as ex:
                raise BaseBroken([("op|%s|rejected-a-valid-addition|%s" % (
                    meth, "option" if isinstance(ex, CannotAddOptionException) else "argument"),
                    "building base configuration %r: %s%r raised %r although the result is well-formed" % (
                        base_id, meth, d, ex), {"base_level": li, "element": list(d)})])
        real, model = b.format, m
    return real, model


def apply_real(builder, op, R, step, level):
    """-> (labels, outcome) outcome: None | 'option' | 'argument' | '!<foreign exception type>'"""
    from clikit.api.args.exceptions import CannotAddArgumentException, CannotAddOptionException
    name, els = op
    labels = ["s%d.%d" % (step, i) for i in range(len(els))]
    objs = [R.make(d, labels[i], level) for i, d in enumerate(els)]
    try:
        getattr(builder, name)(*objs)
    except CannotAddOptionException:
        return labels, "option"
    except CannotAddArgumentException:
        return labels, "argument"
    except Exception as e:  # the real operation failed with an error the property does not allow
        return labels, "!" + type(e).__name__
    return labels, None


def _elements_must_construct(on_broken):
    def deco(fn):
        def wrapped(*a, **k):
            try:
                return fn(*a, **k)
            except BaseBroken as e:
                return on_broken(e)
        wrapped.__name__ = fn.__name__
        wrapped.__doc__ = fn.__doc__
        return wrapped
    return deco


@_elements_must_construct(lambda e: (e.fails, True, {"accepted": 0, "rejected_or_replacing": 0}))
def check_last_step(base_id, ops, frozen=False):
    """replays ops[:-1] unchecked, then runs ops[-1] with every check.
    -> (failures [(signature, what, detail)], diverged: bool, info dict)"""
    from clikit.api.args.format.args_format_builder import ArgsFormatBuilder
    R = Real()
    try:
        rbase, mbase = build_base(base_id, R)
    except BaseBroken as e:
        return e.fails, True, {"accepted": 0, "rejected_or_replacing": 0}
    level = 0 if mbase is None else mbase.depth + 1
    b = ArgsFormatBuilder(rbase)
    m = M(mbase)
    n_acc = n_rej = 0
    for i, op in enumerate(ops[:-1]):
        labels, _ = apply_real(b, op, R, i, level)
        m, rej, _ = model_op(m, op, labels)
        if rej is not None or op[0].startswith("set_"):
            n_rej += 1
        else:
            n_acc += 1
    fails = []
    op = ops[-1]
    i = len(ops) - 1
    single = len(op[1]) == 1 and not op[0].startswith("set_")
    plabels = ["s%d.%d" % (i, k) for k in range(len(op[1]))]
    m2, rej, rej_i = model_op(m, op, plabels)
    # the state before is only needed when the model says that this single addition must be rejected
    obs0 = observe(b, R) if (rej is not None and single) else None
    snap0 = snapshot(b)
    f0 = b.format if frozen else None
    fobs0 = observe(f0, R) if frozen else None
    labels, outcome = apply_real(b, op, R, i, level)
    assert labels == plabels
    if rej is not None or op[0].startswith("set_"):
        n_rej += 1
    else:
        n_acc += 1
    info = {"accepted": n_acc, "rejected_or_replacing": n_rej}
    diverged = False
    if outcome is not None and outcome.startswith("!"):
        fails.append(("op|%s|foreign-exception|%s" % (op[0], outcome[1:]),
                      "%s%r raised %s" % (op[0], op[1], outcome[1:]), {}))
        return fails, True, info
    if rej is None and outcome is not None:
        fails.append(("op|%s|rejected-a-valid-addition|%s" % (op[0], outcome),
                      "%s%r raised CannotAdd%sException although the result is well-formed" % (
                          op[0], op[1], outcome.title()), {}))
        diverged = True
    elif rej is not None and outcome is None:
        fails.append(("op|%s|accepted|%s:%s" % (op[0], rej[0], rej[1]),
                      "%s%r was accepted although element %d must be rejected (%s)" % (op[0], op[1], rej_i, rej[1]), {}))
        diverged = True
    elif rej is not None and outcome != rej[0]:
        fails.append(("op|%s|wrong-exception|%s-instead-of-%s" % (op[0], outcome, rej[0]),
                      "%s%r raised the CannotAdd%sException" % (op[0], op[1], outcome.title()), {}))
    obs1 = observe(b, R)
    if rej is not None and outcome is not None and single:
        # a rejected single addition leaves the builder unchanged
        seen = set()
        for key in obs0:
            if obs0[key] != obs1[key] and _family(key) not in seen:
                seen.add(_family(key))
                fails.append(("reject-not-atomic|%s|%s" % (op[0], _family(key)),
                              "rejected %s%r changed %s%r from %r to %r" % (
                                  op[0], op[1], key[0], tuple(key[1:]), obs0[key], obs1[key]), {"query": list(key)}))
        if not seen:
            snap1 = snapshot(b)
            if snap0 != snap1:
                ch = sorted(k for k in set(snap0) | set(snap1) if snap0.get(k) != snap1.get(k))
                fails.append(("reject-not-atomic|%s|private-state" % op[0],
                              "rejected %s%r changed the builder fields %s" % (op[0], op[1], ch), {"fields": ch}))
    if diverged:
        return fails, True, info
    exp = model_obs(m2)
    fails += compare("builder", canon(obs1, R), exp)
    fmt = b.format
    fobs = observe(fmt, R)
    fails += compare("format", canon(fobs, R), exp)
    seen = set()
    for key in obs1:
        if obs1[key] != fobs[key] and _family(key) not in seen:
            seen.add(_family(key))
            fails.append(("agree|%s" % _family(key),
                          "builder and builder.format disagree on %s%r: %r vs %r" % (
                              key[0], tuple(key[1:]), obs1[key], fobs[key]),
                          {"query": list(key), "builder": obs1[key], "format": fobs[key]}))
    if fmt.base_format is not rbase:
        fails.append(("agree|base_format", "builder.format.base_format is not the builder's base format", {}))
    if frozen:
        again = observe(f0, R)
        seen = set()
        for key in fobs0:
            if fobs0[key] != again[key] and _family(key) not in seen:
                seen.add(_family(key))
                fails.append(("frozen|%s" % _family(key),
                              "a format finished before %s%r changed afterwards: %s%r was %r, now %r" % (
                                  op[0], op[1], key[0], tuple(key[1:]), fobs0[key], again[key]), {"query": list(key)}))
    return fails, False, info


@_elements_must_construct(lambda e: e.fails)
def check_ctor(base_id, els):
    """ArgsFormat(list of elements, base) -> failures"""
    from clikit.api.args.exceptions import CannotAddArgumentException, CannotAddOptionException
    from clikit.api.args.format import ArgsFormat
    R = Real()
    try:
        rbase, mbase = build_base(base_id, R)
    except BaseBroken as e:
        return e.fails
    level = 0 if mbase is None else mbase.depth + 1
    labels = ["s0.%d" % i for i in range(len(els))]
    objs = [R.make(d, labels[i], level) for i, d in enumerate(els)]
    m, rej, rej_i = model_op(M(mbase), ("add", els), labels)
    outcome = None
    fmt = None
    try:
        fmt = ArgsFormat(objs, rbase)
    except CannotAddOptionException:
        outcome = "option"
    except CannotAddArgumentException:
        outcome = "argument"
    except Exception as e:  # construction failed with an error the property does not allow
        return [("foreign-exception|%s" % type(e).__name__, "ArgsFormat(%r, base) raised %r" % (els, e), {})]
    if rej is not None and outcome is None:
        return [("accepted|%s:%s" % rej, "ArgsFormat(%r, base=%s) accepted element %d (%s)" % (
            list(els), base_id, rej_i, rej[1]), {})]
    if rej is None and outcome is not None:
        return [("rejected-a-valid-list|%s" % outcome, "ArgsFormat(%r, base=%s) raised" % (list(els), base_id), {})]
    if rej is not None:
        if outcome != rej[0]:
            return [("wrong-exception|%s-instead-of-%s" % (outcome, rej[0]), "ArgsFormat(%r)" % (list(els),), {})]
        return []
    fails = compare("format", canon(observe(fmt, R), R), model_obs(m))
    if fmt.base_format is not rbase:
        fails.append(("base_format", "ArgsFormat(elements, base).base_format is not base", {}))
    return fails


# ------------------------------------------------------------------------------------------------
# command configurations stacked on application / parent
STACK_POOL = [O1, O2, O3, O4, O5, A1, A2, A3, A4, A5]


def check_stack(levels):
    """levels: 3 lists of O/A descriptors: application config, command config 'cmd', sub command config 'sub'
    -> failures"""
    from clikit import ConsoleApplication
    from clikit.api.args.exceptions import CannotAddArgumentException, CannotAddOptionException
    from clikit.api.args.format import Argument
    from clikit.api.config import ApplicationConfig, CommandConfig
    flags = {"req": Argument.REQUIRED, "opt": Argument.OPTIONAL, "multi": Argument.MULTI_VALUED,
             "reqmulti": Argument.REQUIRED | Argument.MULTI_VALUED}

    def fill(cfg, els):
        for d in els:
            if d[0] == "O":
                cfg.add_option(d[1], d[2])
            else:
                cfg.add_argument(d[1], flags[d[2]])

    # model: each config must be well-formed on its own (additions to a config go through a builder without base),
    # then the stack must be well-formed level by level
    expected = None
    models = []
    for li, els in enumerate(levels):
        m = M(None)
        for ei, d in enumerate(els):
            m, rej = model_add(m, "c%d.%d" % (li, ei), d)
            if rej is not None and expected is None:
                expected = ("config", li, rej)
        models.append(m)
    outcome = None
    app = None
    try:
        ac = ApplicationConfig()
        ac.set_catch_exceptions(False)
        fill(ac, levels[0])
        cc = CommandConfig("cmd")
        fill(cc, levels[1])
        sc = CommandConfig("sub")
        fill(sc, levels[2])
        cc.add_sub_command_config(sc)
        ac.add_command_config(cc)
        if expected is None:
            app = ConsoleApplication(ac)
    except CannotAddOptionException:
        outcome = "option"
    except CannotAddArgumentException:
        outcome = "argument"
    if expected is not None:
        # rejected while filling a single config: covered by the builder checks; only the error kind is checked here
        if outcome != expected[2][0]:
            return [("config-level|%s-instead-of-%s" % (outcome, expected[2][0]),
                     "filling config level %d with %r" % (expected[1], levels[expected[1]]), {})]
        return []
    # stacked model: application arguments come before its options in the global format (constructor order),
    # which is irrelevant for the view
    stack = None
    rej_at = None
    for li, els in enumerate(levels):
        m = M(stack)
        if li == 1:
            m, _ = model_add(m, "n1", ("N", "cmd", ()))
        if li == 2:
            m, _ = model_add(m, "n2", ("N", "sub", ()))
        kinds = set()
        for ei, d in enumerate(els):
            m, rej = model_add(m, "c%d.%d" % (li, ei), d)
            if rej is not None:
                kinds.add(rej[0])
                if rej_at is None:
                    rej_at = (li, rej, kinds)
        stack = m
        if rej_at is not None:
            break
    if rej_at is not None:
        if outcome is None:
            return [("accepted|%s:%s" % rej_at[1], "application built although level %d collides with its "
                     "parents (%s): %r" % (rej_at[0], rej_at[1][1], levels), {})]
        if outcome not in rej_at[2]:  # options and arguments of one level may be added in either order
            return [("wrong-exception|%s-instead-of-%s" % (outcome, rej_at[1][0]), "%r" % (levels,), {})]
        return []
    if outcome is not None:
        return [("rejected-a-valid-stack|%s" % outcome, "%r" % (levels,), {})]
    # compare the views by names only (the elements are created inside the configs)
    fmt = app.get_command("cmd").sub_commands.get("sub").args_format
    fails = []
    exp_args = [d[1] for lvl in stack.chain() for _, d in lvl.A]
    got_args = list(fmt.get_arguments().keys())
    if got_args != exp_args:
        fails.append(("arguments-order", "sub command format lists arguments %r, the stack implies %r" % (
            got_args, exp_args), {}))
    for p in range(len(exp_args) + 1):
        g = _call(fmt.get_argument, p)
        g = g.s if isinstance(g, _Raised) else g.name
        e = exp_args[p] if p < len(exp_args) else NOSUCH
        if g != e:
            fails.append(("get_argument(pos)", "get_argument(%d) -> %r, expected %r" % (p, g, e), {}))
            break
    exp_opts = sorted(d[1] for lvl in stack.chain() for _, d in lvl.O)
    if sorted(fmt.get_options().keys()) != exp_opts:
        fails.append(("options", "sub command format lists options %r, the stack implies %r" % (
            sorted(fmt.get_options().keys()), exp_opts), {}))
    for lvl in stack.chain():
        for _, d in lvl.O:
            for n in _opt_names(d):
                g = _call(fmt.get_option, n)
                g = g.s if isinstance(g, _Raised) else g.long_name
                if g != d[1]:
                    fails.append(("get_option", "get_option(%r) -> %r, expected %r" % (n, g, d[1]), {}))
    got_names = [str(x) for x in fmt.get_command_names()]
    if got_names != ["cmd", "sub"]:
        fails.append(("command-names", "command names %r, expected ['cmd', 'sub']" % (got_names,), {}))
    return fails


# ------------------------------------------------------------------------------------------------
class _Reporter(object):
    """at most `per_sig` witnesses per signature, so that one frequent defect cannot hide the others"""

    def __init__(self, ctx, prefix, per_sig=1):
        self.ctx, self.prefix, self.per_sig = ctx, prefix, per_sig
        self.seen = {}

    def report(self, fails, witness):
        for sig, what, detail in fails:
            n = self.seen.get(sig, 0)
            self.seen[sig] = n + 1
            if n < self.per_sig:
                w = dict(witness)
                w.update(detail)
                self.ctx.fail("%s|%s" % (self.prefix, sig), what, w)


def _ops_key(alphabet, idx):
    return [alphabet[i] for i in idx]


def _dfs(ctx, rep, base_id, alphabet, max_len, frozen_upto=0):
    """all sequences of length 1..max_len over alphabet, every node checked once; subtrees below a step on
    which code and model disagree about acceptance are not explored (the model can no longer follow)"""
    stack = [()]
    complete = True
    while stack:
        prefix = stack.pop()
        for oi in range(len(alphabet)):
            seq = prefix + (oi,)
            ops = [alphabet[i] for i in seq]
            fails, diverged, info = check_last_step(base_id, ops, frozen=len(seq) <= frozen_upto)
            ctx.case([base_id, [list(o) for o in ops]],
                     nontrivial=len(seq) >= 2 and info["accepted"] > 0 and info["rejected_or_replacing"] > 0)
            if fails:
                rep.report(fails, {"base": base_id, "ops": [[o[0], [list(d) for d in o[1]]] for o in ops]})
            if len(seq) < max_len and not diverged:
                stack.append(seq)
        if ctx.out_of_time():
            complete = False
            break
    return complete


def bounded(ctx):
    quick = ctx.quick
    rng = ctx.rng

    # ---- exhaustive, full alphabet
    L_full = 2 if quick else 3
    ctx.check("ops_full", "all operation sequences of length <= %d over the %d-operation alphabet (add/set, single and "
              "plural, of 5 options, 4 command options with aliases, 6 arguments, 2 command names from a colliding "
              "name pool) on each of the %d base configurations (0, 1, 2 levels; multi-valued base; empty middle level); "
              "all queries of builder and builder.format after every step; formats finished before a step re-observed "
              "after it" % (L_full, len(FULL_OPS), len(BASES)))
    rep = _Reporter(ctx, "ops")
    ok = True
    for base_id in sorted(BASES):
        ok = _dfs(ctx, rep, base_id, FULL_OPS, L_full, frozen_upto=2) and ok
    ctx.done(exhaustive=ok)

    # ---- exhaustive, core alphabet, deeper
    L_core = 3 if quick else 4
    core_bases = ["none", "one", "two"]
    ctx.check("ops_core", "all sequences of single additions of length <= %d over the %d-operation core alphabet "
              "(4 options, 3 command options, 4 arguments, 1 command name, all colliding) on base configurations %s" % (
                  L_core, len(CORE_OPS), core_bases))
    rep = _Reporter(ctx, "ops")
    ok = True
    for base_id in core_bases:
        ok = _dfs(ctx, rep, base_id, CORE_OPS, L_core) and ok
    ctx.done(exhaustive=ok)

    if not quick:
        deep = [o for o in CORE_OPS if o[1][0] not in (O2, K1)]
        ctx.check("ops_core_deep", "all sequences of single additions of length <= 5 over a %d-operation sub-alphabet of "
                  "the core alphabet (3 options, 2 command options with aliases, 4 arguments, 1 command name) without "
                  "base and on the two-level base" % len(deep))
        rep = _Reporter(ctx, "ops")
        ok = _dfs(ctx, rep, "none", deep, 5)
        ok = _dfs(ctx, rep, "two", deep, 5) and ok
        ctx.done(exhaustive=ok)

    # ---- sampled longer sequences
    n_samples = 1200 if quick else 20000
    lens = (3, 5) if quick else (4, 7)
    ctx.check("ops_sampled", "%d seeded random sequences of length %d..%d over the full alphabet x random base "
              "configuration, every step checked" % (n_samples, lens[0], lens[1]))
    rep = _Reporter(ctx, "ops")
    base_ids = sorted(BASES)
    for _ in range(n_samples):
        base_id = rng.choice(base_ids)
        n = rng.randint(*lens)
        ops = []
        for k in range(n):
            ops.append(FULL_OPS[rng.randrange(len(FULL_OPS))])
            fails, diverged, info = check_last_step(base_id, ops, frozen=(k % 3 == 0))
            ctx.case([base_id, [list(o) for o in ops]],
                     nontrivial=len(ops) >= 2 and info["accepted"] > 0 and info["rejected_or_replacing"] > 0)
            if fails:
                rep.report(fails, {"base": base_id, "ops": [[o[0], [list(d) for d in o[1]]] for o in ops]})
            if diverged:
                break
        if ctx.out_of_time():
            break
    ctx.done(exhaustive=False)

    # ---- constructor from a list of elements
    pool = [O1, O2, O3, O4, K1, K2, K3, A1, A2, A3, A4, A5, N1]
    L_ctor = 2 if quick else 4
    ctx.check("ctor_rules", "ArgsFormat(elements, base) for all element lists of length <= %d over a pool of %d colliding "
              "elements x %d base configurations: raises exactly when folding the additions does, else answers every "
              "query as the list implies" % (L_ctor, len(pool), len(BASES)))
    rep = _Reporter(ctx, "ctor")
    ok = True
    for base_id in sorted(BASES):
        for n in range(0, L_ctor + 1):
            for els in itertools.product(pool, repeat=n):
                fails = check_ctor(base_id, els)
                ctx.case([base_id, [list(d) for d in els]], nontrivial=n >= 2)
                if fails:
                    rep.report(fails, {"base": base_id, "elements": [list(d) for d in els]})
            if ctx.out_of_time():
                ok = False
                break
    ctx.done(exhaustive=ok)

    # ---- configs stacked through Command / ConsoleApplication
    n_stack = 400 if quick else 20000
    ctx.check("config_stack", "%d seeded random triples (application config, command config, sub-command config) of 0-3 "
              "options/arguments each from a colliding pool of %d; building the ConsoleApplication raises CannotAdd* "
              "exactly when a level collides with its parents, else the sub command's format lists base-first" % (
                  n_stack, len(STACK_POOL)))
    rep = _Reporter(ctx, "stack")
    for _ in range(n_stack):
        levels = [[STACK_POOL[rng.randrange(len(STACK_POOL))] for _ in range(rng.randint(0, 3))] for _ in range(3)]
        fails = check_stack(levels)
        ctx.case([[list(d) for d in l] for l in levels], nontrivial=sum(1 for l in levels if l) >= 2)
        if fails:
            rep.report([(s, w, d) for s, w, d in fails], {"levels": [[list(d) for d in l] for l in levels]})
        if ctx.out_of_time():
            break
    ctx.done(exhaustive=False)


def _t(x):
    """json lists -> descriptor tuples"""
    if isinstance(x, list):
        return tuple(_t(y) for y in x)
    return x


def replay_bounded(check_id, failure):
    w = failure.get("witness") or {}
    sig = failure.get("signature", "")
    want = sig.split("|", 1)[1] if "|" in sig else sig
    found = []
    if "ops" in w:
        ops = [(o[0], _t(o[1])) for o in w["ops"]]
        for k in range(1, len(ops) + 1):
            fails, diverged, _ = check_last_step(w["base"], ops[:k], frozen=True)
            found += [f[0] for f in fails]
            if diverged:
                break
    elif "elements" in w:
        found = [f[0] for f in check_ctor(w["base"], _t(w["elements"]))]
    elif "levels" in w:
        found = [f[0] for f in check_stack([list(_t(l)) for l in w["levels"]])]
    return {"fails": want in found, "detail": "signatures on the current tree: %s" % sorted(set(found))}
