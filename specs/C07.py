"""C07 -- option and argument flags are validated and normalised consistently."""
from pyvc.contracts import REG as R
from . import format_contracts as fc

PROP = "C07"
LEVEL = "other"
EXPLANATION = "under construction"
TARGETS = [
    {"qual": fc.M_OPT + ":Option.__init__", "split": True},
    {"qual": fc.M_ARG + ":Argument.__init__", "split": True},
    {"qual": fc.M_STR + ":parse_string"},
    {"qual": fc.M_STR + ":parse_boolean"},
    {"qual": fc.M_STR + ":parse_int"},
    {"qual": fc.M_STR + ":parse_float"},
    {"qual": fc.M_OPT + ":Option.parse"},
    {"qual": fc.M_ARG + ":Argument.parse"},
]
LEMMAS = []
try:
    from .C07_bounded import bounded, BOUNDED_RULE  # noqa
except ImportError:
    pass
