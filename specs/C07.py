"""C07 -- option and argument flags are validated and normalised consistently."""
from pyvc.contracts import REG as R
from . import format_contracts as fc

PROP = "C07"
LEVEL = 'proof'
EXPLANATION = ('Deductive: Option.__init__ and Argument.__init__ are verified for ALL integers `flags` (bit view: 14 boolean bits + an opaque high part), all kinds of names / defaults: they return normally exactly when the combination is free of the documented contradictions and the names are well-formed, raise only ValueError otherwise, and leave the normal form (one type, one name preference, consistent value mode); parse_string/boolean/int/float and Option.parse/Argument.parse return the declared type (None only when nullable) or raise ValueError only. Bounded (exhaustive): all 2^13 / 2^11 flag words x short-name presence x default kinds, all names up to length 3/4, conversions.')
LEVEL_NOTE = ('assumes: str.isalpha is exact on ASCII and an arbitrary fixed predicate elsewhere; int()/float() of text through uninterpreted literal predicates (exact on plain digit strings); floats as reals; the name regex in three-conjunct form; CommandOption alias loop bounded only')
TARGETS = [
    {"qual": fc.M_OPT + ":Option.__init__", "split": True},
    {"qual": fc.M_ARG + ":Argument.__init__", "split": True},
    {"qual": fc.M_STR + ":parse_string"},
    {"qual": fc.M_STR + ":parse_boolean"},
    {"qual": fc.M_STR + ":parse_int"},
    {"qual": fc.M_STR + ":parse_float"},
    {"qual": fc.M_OPT + ":Option.parse"},
    {"qual": fc.M_ARG + ":Argument.parse"},
    fc.SET_DEFAULT,
]
LEMMAS = []
try:
    from .C07_bounded import bounded, BOUNDED_RULE  # noqa
except ImportError:
    pass


def structural():
    """flag validation and normalisation are functions of the constructor arguments alone: the modules of the format
    elements keep no module- or class-level object that any of their code mutates or re-binds (no memo of earlier
    validations shared between instances or between Option and CommandOption) -- decided on the AST"""
    from pyvc import frontend, structural as st
    P = frontend.Program()
    bad = []
    n = 0
    for mod in ("clikit.api.args.format.abstract_option", "clikit.api.args.format.option",
                "clikit.api.args.format.command_option", "clikit.api.args.format.argument"):
        try:
            mi = P.module(mod)
        except Exception as e:  # noqa
            bad.append("%s: %r" % (mod, e))
            continue
        n += 1
        bad += ["%s: %s" % (mod.rsplit(".", 1)[1], f) for f in st.shared_mutable_state(mi)]
    return [{
        "name": "C07.format_elements.frame.no_class_level_state", "kind": "frame",
        "text": "the modules of AbstractOption, Option, CommandOption and Argument hold no module- or class-level object that their "
                "code mutates or re-binds, and declare no global: a constructor call cannot depend on earlier ones",
        "status": "proved" if not bad else "failed",
        "note": "; ".join(bad[:6]) if bad else "%d modules scanned" % n,
    }]
