"""C07 -- option and argument flags are validated and normalised consistently."""
from pyvc.contracts import REG as R
from . import format_contracts as fc

PROP = "C07"
LEVEL = 'proof'
EXPLANATION = ('Deductive: Option.__init__ and Argument.__init__ are verified for ALL integers `flags` (bit view: 14 boolean bits + an opaque high part), all kinds of names / defaults: they return normally exactly when the combination is free of the documented contradictions and the names are well-formed, raise only ValueError otherwise, and leave the normal form (one type, one name preference, consistent value mode); parse_string/boolean/int/float and Option.parse/Argument.parse return the declared type (None only when nullable) or raise ValueError only. Bounded (exhaustive): all 2^13 / 2^11 flag words x short-name presence x default kinds, all names up to length 3/4, conversions.')
LEVEL_NOTE = ('assumes: str.isalpha is exact on ASCII and an arbitrary fixed predicate elsewhere; int()/float() of text through uninterpreted literal predicates (exact on plain digit strings); floats as reals; the name regex in three-conjunct form; CommandOption alias loop bounded only')
TARGETS = [
    {"qual": fc.M_OPT + ":Option.__init__", "split": True},
    {"qual": fc.M_ARG + ":Argument.__init__", "split": True},
    {"qual": fc.M_STR + ":parse_string"},
    {"qual": fc.M_STR + ":parse_boolean"},
    {"qual": fc.M_STR + ":parse_int"},
    {"qual": fc.M_STR + ":parse_float"},
    {"qual": fc.M_OPT + ":Option.parse"},
    {"qual": fc.M_ARG + ":Argument.parse"},
]
LEMMAS = []
try:
    from .C07_bounded import bounded, BOUNDED_RULE  # noqa
except ImportError:
    pass
