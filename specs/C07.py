"""C07 -- option and argument flags are validated and normalised consistently."""
from pyvc.contracts import REG as R
from . import format_contracts as fc

PROP = "C07"
LEVEL = 'proof'
EXPLANATION = ('Deductive: Option.__init__ and Argument.__init__ are verified for ALL integers `flags` (bit view: 14 boolean bits + an opaque high part), all kinds of names / defaults: they return normally exactly when the combination is free of the documented contradictions and the names are well-formed, raise only ValueError otherwise, and leave the normal form (one type, one name preference, consistent value mode); parse_string/boolean/int/float and Option.parse/Argument.parse return the declared type (None only when nullable) or raise ValueError only. Bounded (exhaustive): all 2^13 / 2^11 flag words x short-name presence x default kinds, all names up to length 3/4, conversions.')
LEVEL_NOTE = ('assumes: str.isalpha is exact on ASCII and an arbitrary fixed predicate elsewhere; int()/float() of text through uninterpreted literal predicates (exact on plain digit strings); floats as reals; the name regex in three-conjunct form; CommandOption alias loop bounded only')
TARGETS = [
    {"qual": fc.M_OPT + ":Option.__init__", "split": True},
    {"qual": fc.M_ARG + ":Argument.__init__", "split": True},
    {"qual": fc.M_STR + ":parse_string"},
    {"qual": fc.M_STR + ":parse_boolean"},
    {"qual": fc.M_STR + ":parse_int"},
    {"qual": fc.M_STR + ":parse_float"},
    {"qual": fc.M_OPT + ":Option.parse"},
    {"qual": fc.M_ARG + ":Argument.parse"},
]
LEMMAS = []
try:
    from .C07_bounded import bounded, BOUNDED_RULE  # noqa
except ImportError:
    pass


def structural():
    """flag validation and normalisation are functions of the constructor arguments alone: the element classes keep no
    mutable state at class level (no memo of earlier validations shared between instances or between Option and
    CommandOption) -- decided on the AST"""
    import ast
    from pyvc import frontend
    P = frontend.Program()
    bad = []
    n = 0
    for mod, cname in (("clikit.api.args.format.abstract_option", "AbstractOption"), ("clikit.api.args.format.option", "Option"),
                       ("clikit.api.args.format.command_option", "CommandOption"), ("clikit.api.args.format.argument", "Argument")):
        try:
            ci = P.module(mod).classes[cname]
        except Exception as e:  # noqa
            bad.append("%s: %r" % (cname, e))
            continue
        n += 1
        for name, expr in ci.consts.items():
            for x in ast.walk(expr):
                if isinstance(x, (ast.Call, ast.List, ast.Dict, ast.Set, ast.ListComp, ast.DictComp, ast.SetComp)):
                    bad.append("%s.%s is a mutable class-level object (%s)" % (cname, name, ast.unparse(expr)[:40]))
                    break
        for v in sorted(getattr(ci, "classvars", ())):
            bad.append("%s.%s is re-assigned through the class" % (cname, v))
        for m, fn in ci.methods.items():
            for x in ast.walk(fn):
                if isinstance(x, (ast.Global, ast.Nonlocal)):
                    bad.append("%s.%s declares %s" % (cname, m, ", ".join(x.names)))
    return [{
        "name": "C07.format_elements.frame.no_class_level_state", "kind": "frame",
        "text": "AbstractOption, Option, CommandOption and Argument have only immutable class-level constants and no method "
                "re-assigns a class attribute or declares a global: a constructor call cannot depend on earlier ones",
        "status": "proved" if not bad else "failed",
        "note": "; ".join(bad[:6]) if bad else "%d classes scanned" % n,
    }]
