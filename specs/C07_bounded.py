"""C07 bounded tier: flag validation / normalisation of Option, CommandOption and Argument, name
well-formedness, typed conversion.

Oracle (from the property text and DESIGN.md section 5, C07):
 * construction succeeds exactly when the flag word is free of the documented contradictions
   (option: NO_VALUE with REQUIRED_VALUE / OPTIONAL_VALUE / MULTI_VALUED; OPTIONAL_VALUE with
   MULTI_VALUED; more than one value type; both name preferences; PREFER_SHORT_NAME without a short
   name; argument: REQUIRED with OPTIONAL; more than one value type; REQUIRED with a default), no
   default is given to a value-less option and a multi-valued default is None or a list; otherwise
   ValueError and nothing else.  Undefined bits have no influence.
   (REQUIRED_VALUE together with OPTIONAL_VALUE is *not* in the documented list, so it must be accepted.)
 * a constructed object reports exactly one value type, exactly one name preference, a value mode;
   value-less => takes no value, default None; multi-valued => value required, default a list.
 * names: long = letter then letters/digits/hyphens, at least 2 characters, optional leading "--";
   short = exactly one ASCII letter, optional leading "-"; aliases of a CommandOption follow the same two
   rules; argument names = letter then letters/digits/hyphens (no prefix).
 * parse(value): result of the declared type (None only when nullable) or ValueError, nothing else;
   parse(text form of an int / float / boolean) gives the value back.
"""
import itertools
import math
import re
import struct

BOUNDED_RULE = (
    "flag checks: a case is (flag word, short-name presence, default kind), all enumerated, non-trivial = at least two "
    "bits set or a default given; name checks: a case is (role, string), non-trivial = non-empty string; conversion "
    "checks: a case is (class, declared type, nullable, input value), non-trivial = input not None"
)

# --- Option bits
PL, PS, NV, RV, OV, MV = 1, 2, 4, 8, 16, 32
O_STRING, O_BOOLEAN, O_INTEGER, O_FLOAT, O_NULLABLE = 128, 256, 512, 1024, 2048
O_TYPES = (O_STRING, O_BOOLEAN, O_INTEGER, O_FLOAT)
O_DEFINED = (PL, PS, NV, RV, OV, MV, O_STRING, O_BOOLEAN, O_INTEGER, O_FLOAT, O_NULLABLE)
O_UNDEFINED = (64, 4096)
# --- Argument bits
A_REQ, A_OPT, A_MULTI = 1, 2, 4
A_STRING, A_BOOLEAN, A_INTEGER, A_FLOAT, A_NULLABLE = 16, 32, 64, 128, 256
A_TYPES = (A_STRING, A_BOOLEAN, A_INTEGER, A_FLOAT)
A_DEFINED = (A_REQ, A_OPT, A_MULTI, A_STRING, A_BOOLEAN, A_INTEGER, A_FLOAT, A_NULLABLE)
A_UNDEFINED = (8, 512, 1024)

TYPE_NAMES = {0: "STRING", 1: "BOOLEAN", 2: "INTEGER", 3: "FLOAT"}
DEFAULTS = {"none": None, "scalar": "d", "list": ["d"]}


def _words(bits):
    for r in range(len(bits) + 1):
        for c in itertools.combinations(bits, r):
            yield sum(c)


def _popcount(x):
    return bin(x).count("1")


def _check_bits_match_code():
    """the bit values above are the documented ones; a renumbering of the constants is a checker error, not a verdict"""
    from clikit.api.args.format import Argument, Option
    assert (Option.PREFER_LONG_NAME, Option.PREFER_SHORT_NAME, Option.NO_VALUE, Option.REQUIRED_VALUE,
            Option.OPTIONAL_VALUE, Option.MULTI_VALUED) == (PL, PS, NV, RV, OV, MV)
    assert (Option.STRING, Option.BOOLEAN, Option.INTEGER, Option.FLOAT, Option.NULLABLE) == O_TYPES + (O_NULLABLE,)
    assert (Argument.REQUIRED, Argument.OPTIONAL, Argument.MULTI_VALUED) == (A_REQ, A_OPT, A_MULTI)
    assert (Argument.STRING, Argument.BOOLEAN, Argument.INTEGER, Argument.FLOAT, Argument.NULLABLE) == A_TYPES + (A_NULLABLE,)


# ------------------------------------------------------------------------------------------------
# oracle for flag words
def option_contradictions(flags, short, default):
    bad = []
    if flags & PL and flags & PS:
        bad.append("both-name-preferences")
    if flags & NV and flags & RV:
        bad.append("NO_VALUE+REQUIRED_VALUE")
    if flags & NV and flags & OV:
        bad.append("NO_VALUE+OPTIONAL_VALUE")
    if flags & NV and flags & MV:
        bad.append("NO_VALUE+MULTI_VALUED")
    if flags & OV and flags & MV:
        bad.append("OPTIONAL_VALUE+MULTI_VALUED")
    if _popcount(flags & sum(O_TYPES)) > 1:
        bad.append("several-value-types")
    if flags & PS and short is None:
        bad.append("PREFER_SHORT_NAME-without-short-name")
    valueless = bool(flags & NV) or not flags & (RV | OV | MV)
    if not bad:
        if valueless and default is not None:
            bad.append("default-for-value-less")
        if flags & MV and default is not None and not isinstance(default, list):
            bad.append("scalar-default-for-multi-valued")
    return bad


def argument_contradictions(flags, default):
    bad = []
    if flags & A_REQ and flags & A_OPT:
        bad.append("REQUIRED+OPTIONAL")
    if _popcount(flags & sum(A_TYPES)) > 1:
        bad.append("several-value-types")
    if not bad:
        if flags & A_REQ and default is not None:
            bad.append("default-for-required")
        elif flags & A_MULTI and default is not None and not isinstance(default, list):
            bad.append("scalar-default-for-multi-valued")
    return bad


def _dispatch_failures(obj, tindex, nullable):
    """parse() uses the converter of the single declared type, nullable taken from the flag"""
    out = []
    text, exp1 = {0: ("1", "1"), 1: ("true", True), 2: ("1", 1), 3: ("1.5", 1.5)}[tindex]  # text forms of values of the type
    try:
        r = obj.parse(text)
        if type(r) is not type(exp1) or r != exp1:
            out.append(("dispatch|%s" % TYPE_NAMES[tindex], "parse(%r) -> %r, declared type %s" % (text, r, TYPE_NAMES[tindex])))
    except Exception as e:  # the text form of a value of the declared type must convert
        out.append(("dispatch|%s|%s" % (TYPE_NAMES[tindex], type(e).__name__), "parse(%r) raised %r" % (text, e)))
    try:
        r = obj.parse("null")
        ok = (r is None) if nullable else (tindex == 0 and r == "null")
        if not ok:
            out.append(("dispatch|nullable", "parse('null') -> %r with nullable=%s, type %s" % (r, nullable, TYPE_NAMES[tindex])))
    except ValueError:
        if nullable or tindex == 0:
            out.append(("dispatch|nullable", "parse('null') raised ValueError with nullable=%s, type %s" % (
                nullable, TYPE_NAMES[tindex])))
    except Exception as e:  # only ValueError is allowed
        out.append(("dispatch|nullable|%s" % type(e).__name__, "parse('null') raised %r" % (e,)))
    return out


def case_option(flags, short, dkind):
    """-> (constructed?, [(signature, what)])"""
    from clikit.api.args.format import Option
    default = DEFAULTS[dkind]
    default = list(default) if isinstance(default, list) else default
    bad = option_contradictions(flags, short, default)
    try:
        o = Option("foo", short, flags, None, default)
    except ValueError:
        if not bad:
            return False, [("option|rejected-a-valid-word", "Option('foo', %r, %d, default=%r) raised ValueError although the "
                            "word has none of the documented contradictions" % (short, flags, default))]
        return False, []
    except Exception as e:  # only ValueError is allowed
        return False, [("option|foreign-exception|%s" % type(e).__name__, "Option('foo', %r, %d, default=%r) raised %r" % (
            short, flags, default, e))]
    if bad:
        return True, [("option|accepted|%s" % bad[0], "Option('foo', %r, %d, default=%r) accepted (%s)" % (
            short, flags, default, ", ".join(bad)))]
    out = []

    def need(cond, cls, what):
        if not cond:
            out.append(("option|normal|%s" % cls, "Option('foo', %r, %d, default=%r): %s" % (short, flags, default, what)))

    f = o.flags
    need(isinstance(f, int) and not isinstance(f, bool), "flags-type", "flags is %r" % (f,))
    need((f & flags & sum(O_DEFINED)) == (flags & sum(O_DEFINED)), "flags-kept", "given defined bits are not all in flags %r" % (f,))
    types = [t for t in O_TYPES if f & t]
    need(len(types) == 1, "one-value-type", "reports value types %r" % (types,))
    given_t = [t for t in O_TYPES if flags & t]
    exp_t = given_t[0] if given_t else O_STRING
    need(types == [exp_t], "value-type-kept", "reports value types %r, declared %r" % (types, exp_t))
    pl, ps = o.is_long_name_preferred(), o.is_short_name_preferred()
    need(bool(pl) != bool(ps), "one-name-preference", "long preferred=%r short preferred=%r" % (pl, ps))
    if flags & PL:
        need(pl and not ps, "preference-kept", "PREFER_LONG_NAME given, long preferred=%r" % (pl,))
    elif flags & PS:
        need(ps and not pl, "preference-kept", "PREFER_SHORT_NAME given, short preferred=%r" % (ps,))
    else:
        need(bool(ps) == (short is not None), "preference-default", "no preference given, short name %r, short preferred=%r" % (short, ps))
    valueless = bool(flags & NV) or not flags & (RV | OV | MV)
    acc, req, opt, mul = o.accepts_value(), o.is_value_required(), o.is_value_optional(), o.is_multi_valued()
    if valueless:
        need(not acc and not req and not opt and not mul, "value-less-takes-no-value",
             "value-less option: accepts=%r required=%r optional=%r multi=%r" % (acc, req, opt, mul))
        need(o.default is None, "value-less-default", "value-less option has default %r" % (o.default,))
    else:
        need(acc, "value-mode", "accepts_value() is False although a value flag was given")
        need(req or opt, "value-mode", "takes a value but is neither required nor optional")
        need(bool(req) == bool(flags & (RV | MV)), "value-mode", "is_value_required()=%r" % (req,))
        need(bool(opt) == bool(flags & OV), "value-mode", "is_value_optional()=%r" % (opt,))
        need(bool(mul) == bool(flags & MV), "value-mode", "is_multi_valued()=%r" % (mul,))
        if flags & MV:
            need(req, "multi-valued-requires-value", "multi-valued but is_value_required() is False")
            need(isinstance(o.default, list), "multi-valued-list-default", "multi-valued default is %r" % (o.default,))
            need(o.default == (default if default is not None else []), "default-kept", "default %r, given %r" % (o.default, default))
        else:
            need(o.default == default, "default-kept", "default %r, given %r" % (o.default, default))
    need(o.long_name == "foo" and o.short_name == short, "names-kept", "names %r/%r" % (o.long_name, o.short_name))
    if len(types) == 1:
        for sig, what in _dispatch_failures(o, O_TYPES.index(types[0]), bool(flags & O_NULLABLE)):
            out.append(("option|" + sig, "Option(flags=%d): %s" % (flags, what)))
    return True, out


def case_command_option(flags, short):
    from clikit.api.args.format import CommandOption
    bad = []
    if flags & PL and flags & PS:
        bad.append("both-name-preferences")
    if flags & PS and short is None:
        bad.append("PREFER_SHORT_NAME-without-short-name")
    try:
        o = CommandOption("foo", short, ["bar", "b"], flags)
    except ValueError:
        if not bad:
            return False, [("command-option|rejected-a-valid-word", "CommandOption('foo', %r, flags=%d) raised ValueError" % (short, flags))]
        return False, []
    except Exception as e:  # only ValueError is allowed
        return False, [("command-option|foreign-exception|%s" % type(e).__name__, "CommandOption('foo', %r, flags=%d) raised %r" % (short, flags, e))]
    if bad:
        return True, [("command-option|accepted|%s" % bad[0], "CommandOption('foo', %r, flags=%d) accepted" % (short, flags))]
    out = []
    pl, ps = o.is_long_name_preferred(), o.is_short_name_preferred()
    exp_ps = bool(flags & PS) or (not flags & PL and short is not None)
    if bool(pl) == bool(ps) or bool(ps) != exp_ps:
        out.append(("command-option|normal|name-preference", "CommandOption('foo', %r, flags=%d): long preferred=%r short "
                    "preferred=%r" % (short, flags, pl, ps)))
    if o.long_aliases != ["bar"] or o.short_aliases != ["b"]:
        out.append(("command-option|normal|aliases", "aliases %r / %r" % (o.long_aliases, o.short_aliases)))
    return True, out


def case_argument(flags, dkind):
    from clikit.api.args.format import Argument
    default = DEFAULTS[dkind]
    default = list(default) if isinstance(default, list) else default
    bad = argument_contradictions(flags, default)
    try:
        a = Argument("foo", flags, None, default)
    except ValueError:
        if not bad:
            return False, [("argument|rejected-a-valid-word", "Argument('foo', %d, default=%r) raised ValueError although the "
                            "word has none of the documented contradictions" % (flags, default))]
        return False, []
    except Exception as e:  # only ValueError is allowed
        return False, [("argument|foreign-exception|%s" % type(e).__name__, "Argument('foo', %d, default=%r) raised %r" % (flags, default, e))]
    if bad:
        return True, [("argument|accepted|%s" % bad[0], "Argument('foo', %d, default=%r) accepted (%s)" % (flags, default, ", ".join(bad)))]
    out = []

    def need(cond, cls, what):
        if not cond:
            out.append(("argument|normal|%s" % cls, "Argument('foo', %d, default=%r): %s" % (flags, default, what)))

    f = a.flags
    need((f & flags & sum(A_DEFINED)) == (flags & sum(A_DEFINED)), "flags-kept", "given defined bits are not all in flags %r" % (f,))
    types = [t for t in A_TYPES if f & t]
    need(len(types) == 1, "one-value-type", "reports value types %r" % (types,))
    given_t = [t for t in A_TYPES if flags & t]
    need(types == [given_t[0] if given_t else A_STRING], "value-type-kept", "reports value types %r" % (types,))
    req, opt, mul = a.is_required(), a.is_optional(), a.is_multi_valued()
    need(bool(req) != bool(opt), "required-xor-optional", "required=%r optional=%r" % (req, opt))
    need(bool(req) == bool(flags & A_REQ), "required-kept", "required=%r" % (req,))
    need(bool(mul) == bool(flags & A_MULTI), "multi-kept", "multi=%r" % (mul,))
    if flags & A_MULTI:
        if flags & A_REQ:
            need(a.default is None or a.default == [], "required-has-no-default", "required multi-valued default %r" % (a.default,))
        else:
            need(isinstance(a.default, list), "multi-valued-list-default", "multi-valued default is %r" % (a.default,))
            need(a.default == (default if default is not None else []), "default-kept", "default %r" % (a.default,))
    elif flags & A_REQ:
        need(a.default is None, "required-has-no-default", "required argument has default %r" % (a.default,))
    else:
        need(a.default == default, "default-kept", "default %r, given %r" % (a.default, default))
    need(a.name == "foo", "names-kept", "name %r" % (a.name,))
    if len(types) == 1:
        for sig, what in _dispatch_failures(a, A_TYPES.index(types[0]), bool(flags & A_NULLABLE)):
            out.append(("argument|" + sig, "Argument(flags=%d): %s" % (flags, what)))
    return True, out


# ------------------------------------------------------------------------------------------------
# names
ALPHABET = ["a", "Z", "1", "-", "_", " ", "\n", u"é"]
_LONG = re.compile(r"[A-Za-z][A-Za-z0-9\-]+\Z")
_SHORT = re.compile(r"[A-Za-z]\Z")
_ARG = re.compile(r"[A-Za-z][A-Za-z0-9\-]*\Z")


def long_wellformed(s):
    """-> stripped name or None"""
    t = s[2:] if s.startswith("--") else s
    return t if _LONG.match(t) else None


def short_wellformed(s):
    t = s[1:] if s.startswith("-") else s
    return t if _SHORT.match(t) else None


def _name_class(s, role):
    """stable class of a mis-judged name"""
    if s.endswith("\n"):
        return "trailing-newline"
    if role == "alias" and s.startswith("--"):
        return "double-dash-prefix"
    if role == "alias" and s.startswith("-") and len(s) > 2:
        return "single-dash-before-long-name"
    if any(ord(c) > 127 for c in s):
        return "non-ascii"
    if len(s.lstrip("-")) < 2:
        return "short"
    return "other"


def case_name(role, s):
    """role in long / short / alias / argument  -> [(signature, what)]"""
    from clikit.api.args.format import Argument, CommandOption, Option
    if role == "long":
        exp = long_wellformed(s)
        make = lambda: Option(s).long_name
    elif role == "short":
        exp = short_wellformed(s)
        make = lambda: Option("foo", s).short_name
    elif role == "alias":
        l, sh = long_wellformed(s), short_wellformed(s)
        exp = l if l is not None else sh


        def make():
            o = CommandOption("foo", None, [s])
            return list(o.long_aliases) + list(o.short_aliases), list(o.long_aliases if l is not None else o.short_aliases)
    else:
        exp = s if _ARG.match(s) else None
        make = lambda: Argument(s).name
    try:
        got = make()
    except ValueError:
        if exp is not None:
            return [("names|%s|rejected-well-formed|%s" % (role, _name_class(s, role)), "%s name %r rejected with ValueError although "
                     "well-formed" % (role, s))]
        return []
    except Exception as e:  # only ValueError is allowed
        return [("names|%s|foreign-exception|%s" % (role, type(e).__name__), "%s name %r raised %r" % (role, s, e))]
    if exp is None:
        return [("names|%s|accepted-malformed|%s" % (role, _name_class(s, role)), "%s name %r accepted (stored as %r)" % (role, s, got))]
    if role == "alias":
        allnames, bucket = got
        if allnames != [exp] or bucket != [exp]:
            return [("names|alias|stored-wrongly", "alias %r stored as %r, expected %r in the %s aliases" % (
                s, allnames, exp, "long" if len(exp) > 1 else "short"))]
    elif got != exp:
        return [("names|%s|stored-wrongly" % role, "%s name %r stored as %r, expected %r" % (role, s, got, exp))]
    return []


NONSTRING_NAMES = [None, 5, 1.5, b"ab", ["ab"], True]


def case_nonstring_name(role, idx):
    from clikit.api.args.format import Argument, Option
    v = NONSTRING_NAMES[idx]
    if role == "short" and v is None:
        return []  # None = no short name
    try:
        if role == "long":
            Option(v)
        elif role == "short":
            Option("foo", v)
        else:
            Argument(v)
    except ValueError:
        return []
    except Exception as e:  # only ValueError is allowed
        return [("names|%s|non-string|%s" % (role, type(e).__name__), "%s name %r raised %r" % (role, v, e))]
    return [("names|%s|non-string|accepted" % role, "%s name %r accepted" % (role, v))]


# ------------------------------------------------------------------------------------------------
# conversions
TEXTS = ["", "null", "0", "1", "-1", "+5", " 7 ", "007", "1_000", "12abc", "abc", "1.5", "-0.0", "1e3", "inf", "-inf", "nan",
         ".5", "5.", "true", "false", "yes", "no", "on", "off", "True", "TRUE", "None", u"٣", "1e400",
         "123456789012345678901234567890", "0x10", " ", "\n", "1\n", "--1", u"é", "NULL"]
NONTEXTS = [None, True, False, 0, 1, -7, 2 ** 70, 1.5, -0.0, float("inf"), float("-inf"), float("nan"), 1e308 * 10,
            [], ["1"], [1], [None], 10 ** 400, -10 ** 400, {}, (1,)]


def _make(cls_name, tindex, nullable):
    from clikit.api.args.format import Argument, Option
    if cls_name == "Option":
        return Option("foo", None, RV | O_TYPES[tindex] | (O_NULLABLE if nullable else 0))
    return Argument("foo", A_TYPES[tindex] | (A_NULLABLE if nullable else 0))


def _vrepr(v):
    r = repr(v)
    return r if len(r) <= 40 else r[:20] + "...(%d characters)" % len(r)


def case_parse(cls_name, tindex, nullable, v):
    obj = _make(cls_name, tindex, nullable)
    tname = TYPE_NAMES[tindex]
    try:
        r = obj.parse(v)
    except ValueError:
        return []
    except Exception as e:  # only ValueError is allowed
        return [("parse|%s|%s|input-%s" % (tname, type(e).__name__, type(v).__name__),
                 "%s(%s%s).parse(%s) raised %r" % (cls_name, tname, "|NULLABLE" if nullable else "", _vrepr(v), e))]
    ok_type = {0: type(r) is str, 1: type(r) is bool, 2: type(r) is int, 3: type(r) is float}[tindex]
    if r is None:
        if nullable:
            return []
        return [("parse|%s|None-although-not-nullable" % tname, "%s(%s).parse(%s) -> None" % (cls_name, tname, _vrepr(v)))]
    if not ok_type:
        return [("parse|%s|result-of-type-%s" % (tname, type(r).__name__), "%s(%s).parse(%s) -> %r" % (cls_name, tname, _vrepr(v), r))]
    return []


def case_roundtrip(cls_name, tindex, nullable, value):
    """text form -> value"""
    obj = _make(cls_name, tindex, nullable)
    tname = TYPE_NAMES[tindex]
    if tindex == 1:
        text = _make(cls_name, 0, nullable).parse(value)  # clikit's own text form of a boolean
        if text not in ("true", "false"):
            return [("roundtrip|BOOLEAN|text-form", "text form of %r is %r" % (value, text))]
    elif tindex == 2:
        text = str(value)
    else:
        text = repr(value)
    try:
        r = obj.parse(text)
    except Exception as e:  # the text form of a value of the type must convert
        return [("roundtrip|%s|%s" % (tname, type(e).__name__), "%s(%s).parse(%r) raised %r" % (cls_name, tname, text, e))]
    if tindex == 3:
        same = type(r) is float and ((math.isnan(r) and math.isnan(value)) or (
            r == value and math.copysign(1.0, r) == math.copysign(1.0, value)))
    else:
        same = type(r) is type(value) and r == value
    if not same:
        return [("roundtrip|%s|different-value" % tname, "%s(%s).parse(%r) -> %r, expected %r" % (cls_name, tname, text, r, value))]
    return []


INT_BOUNDARY = [0, 1, -1, 7, -7, 10, 99, 2 ** 31 - 1, 2 ** 31, -2 ** 31, 2 ** 63 - 1, 2 ** 63, -2 ** 63 - 1, 10 ** 30, -10 ** 30,
                2 ** 200]
FLOAT_BOUNDARY = [0.0, -0.0, 1.0, -1.0, 1.5, 0.1, 1.0 / 3, 1e-320, 5e-324, 1.7976931348623157e308, 2.2250738585072014e-308, 1e22,
                  1e23, 123456789.123456789, float("inf"), float("-inf"), float("nan"), 1e16, 9007199254740993.0]


# ------------------------------------------------------------------------------------------------
class _Reporter(object):
    def __init__(self, ctx, per_sig=2):
        self.ctx, self.per_sig, self.seen = ctx, per_sig, {}

    def report(self, fails, witness):
        for sig, what in fails:
            n = self.seen.get(sig, 0)
            self.seen[sig] = n + 1
            if n < self.per_sig:
                self.ctx.fail(sig, what, witness)


def bounded(ctx):
    _check_bits_match_code()
    quick = ctx.quick
    rng = ctx.rng

    # ---- option flag words
    ctx.check("option_flags", "all 2^13 flag words over the 11 defined Option bits and the undefined bits 64, 4096 x short name "
              "in {None, 'f'} x default in {None, 'd', ['d']} (49152 constructions); plus CommandOption over bits {1, 2, 64, 4096} "
              "x short name presence")
    rep = _Reporter(ctx)
    for flags in _words(O_DEFINED + O_UNDEFINED):
        for short in (None, "f"):
            for dkind in ("none", "scalar", "list"):
                made, fails = case_option(flags, short, dkind)
                ctx.case(["O", flags, short, dkind], nontrivial=_popcount(flags) >= 2 or dkind != "none")
                if fails:
                    rep.report(fails, {"kind": "option", "flags": flags, "short": short, "default": dkind})
    for flags in _words((PL, PS) + O_UNDEFINED):
        for short in (None, "f"):
            made, fails = case_command_option(flags, short)
            ctx.case(["K", flags, short], nontrivial=_popcount(flags) >= 2)
            if fails:
                rep.report(fails, {"kind": "command_option", "flags": flags, "short": short})
    ctx.done(exhaustive=True)

    # ---- argument flag words
    ctx.check("argument_flags", "all 2^11 flag words over the 8 defined Argument bits and the undefined bits 8, 512, 1024 x default "
              "in {None, 'd', ['d']} (6144 constructions)")
    rep = _Reporter(ctx)
    for flags in _words(A_DEFINED + A_UNDEFINED):
        for dkind in ("none", "scalar", "list"):
            made, fails = case_argument(flags, dkind)
            ctx.case(["A", flags, dkind], nontrivial=_popcount(flags) >= 2 or dkind != "none")
            if fails:
                rep.report(fails, {"kind": "argument", "flags": flags, "default": dkind})
    ctx.done(exhaustive=True)

    # ---- names
    L = 3 if quick else 4
    ctx.check("names", "all strings of length <= %d over {a, Z, 1, -, _, space, newline, e-acute} as long name (bare and with '--'), "
              "short name (bare and with '-'), CommandOption alias (bare, '-', '--'), argument name; non-string names "
              "(None, int, float, bytes, list, bool)" % L)
    rep = _Reporter(ctx)
    for n in range(0, L + 1):
        for tup in itertools.product(ALPHABET, repeat=n):
            w = "".join(tup)
            for role, forms in (("long", (w, "--" + w)), ("short", (w, "-" + w)), ("alias", (w, "-" + w, "--" + w)),
                                ("argument", (w,))):
                for s in forms:
                    fails = case_name(role, s)
                    ctx.case([role, s], nontrivial=bool(s))
                    if fails:
                        rep.report(fails, {"kind": "name", "role": role, "name": s})
    for role in ("long", "short", "argument"):
        for i in range(len(NONSTRING_NAMES)):
            fails = case_nonstring_name(role, i)
            ctx.case([role, "nonstring", i], nontrivial=True)
            if fails:
                rep.report(fails, {"kind": "nonstring_name", "role": role, "index": i})
    ctx.done(exhaustive=True)

    # ---- conversions: result type / only ValueError
    ctx.check("parse_types", "Option.parse and Argument.parse for each declared type x nullable over %d boundary texts and %d "
              "non-text inputs (None, bool, int incl. 10^400, float incl. inf/nan, lists, dict, tuple)" % (len(TEXTS), len(NONTEXTS)))
    rep = _Reporter(ctx)
    for cls_name in ("Option", "Argument"):
        for tindex in range(4):
            for nullable in (False, True):
                for vi, v in enumerate(TEXTS + NONTEXTS):
                    fails = case_parse(cls_name, tindex, nullable, v)
                    ctx.case([cls_name, tindex, nullable, vi], nontrivial=v is not None)
                    if fails:
                        rep.report(fails, {"kind": "parse", "cls": cls_name, "type": tindex, "nullable": nullable, "input_index": vi,
                                           "input": _vrepr(v)})
    ctx.done(exhaustive=True)

    # ---- conversions: text form -> value
    n_rand = 3000 if quick else 300000
    ctx.check("parse_roundtrip", "text form -> value for both booleans, %d boundary ints, %d boundary floats (signed zero, "
              "denormals, extremes, inf, nan) and %d seeded random ints (up to 2^128) and floats (random bit patterns), "
              "through Option and Argument, nullable and not" % (len(INT_BOUNDARY), len(FLOAT_BOUNDARY), n_rand))
    rep = _Reporter(ctx)

    def rt(tindex, value, key):
        for cls_name in ("Option", "Argument"):
            for nullable in (False, True):
                fails = case_roundtrip(cls_name, tindex, nullable, value)
                ctx.case([cls_name, tindex, nullable, key], nontrivial=True)
                if fails:
                    rep.report(fails, {"kind": "roundtrip", "cls": cls_name, "type": tindex, "nullable": nullable, "value": repr(value)})

    for b in (True, False):
        rt(1, b, repr(b))
    for n in INT_BOUNDARY:
        rt(2, n, str(n))
    for x in FLOAT_BOUNDARY:
        rt(3, x, repr(x))
    opt_i = _make("Option", 2, False)
    arg_f = _make("Argument", 3, True)
    for i in range(n_rand):
        bits = rng.choice((8, 16, 32, 64, 128))
        n = rng.getrandbits(bits) - (1 << (bits - 1))
        x = struct.unpack("<d", struct.pack("<Q", rng.getrandbits(64)))[0]
        if i < 200:
            rt(2, n, str(n))
            rt(3, x, repr(x))
        else:
            # the four (class, nullable) variants share the converter (checked above); one variant each for the bulk
            try:
                r = opt_i.parse(str(n))
            except Exception as e:  # an observation, not a harness failure
                r = e
            ctx.case(["Option", 2, False, str(n)], nontrivial=True)
            if type(r) is not int or r != n:
                rep.report([("roundtrip|INTEGER|different-value", "parse(%r) -> %r" % (str(n), r))],
                           {"kind": "roundtrip", "cls": "Option", "type": 2, "nullable": False, "value": repr(n)})
            try:
                r = arg_f.parse(repr(x))
            except Exception as e:
                r = e
            ctx.case(["Argument", 3, True, repr(x)], nontrivial=True)
            if not (type(r) is float and ((math.isnan(r) and math.isnan(x)) or (r == x and math.copysign(1.0, r) == math.copysign(1.0, x)))):
                rep.report([("roundtrip|FLOAT|different-value", "parse(%r) -> %r" % (repr(x), r))],
                           {"kind": "roundtrip", "cls": "Argument", "type": 3, "nullable": True, "value": repr(x)})
    ctx.done(exhaustive=False)


def replay_bounded(check_id, failure):
    w = failure.get("witness") or {}
    sig = failure.get("signature", "")
    k = w.get("kind")
    if k == "option":
        fails = case_option(w["flags"], w["short"], w["default"])[1]
    elif k == "command_option":
        fails = case_command_option(w["flags"], w["short"])[1]
    elif k == "argument":
        fails = case_argument(w["flags"], w["default"])[1]
    elif k == "name":
        fails = case_name(w["role"], w["name"])
    elif k == "nonstring_name":
        fails = case_nonstring_name(w["role"], w["index"])
    elif k == "parse":
        fails = case_parse(w["cls"], w["type"], w["nullable"], (TEXTS + NONTEXTS)[w["input_index"]])
    elif k == "roundtrip":
        v = eval(w["value"], {"inf": float("inf"), "nan": float("nan")})  # repr of an int / float / bool written by this module
        fails = case_roundtrip(w["cls"], w["type"], w["nullable"], v)
    else:
        return {"fails": False, "detail": "no witness"}
    sigs = [f[0] for f in fails]
    return {"fails": sig in sigs, "detail": "signatures on the current tree: %s" % sorted(set(sigs))}
