"""C08 -- splitting a command string never fails and inverts shell-style quoting."""
from pyvc.contracts import REG as R
from . import token_contracts as tc

PROP = "C08"
LEVEL = 'proof'
EXPLANATION = ("Deductive: the scanner invariant (cursor in range, current/lookahead characters agree with the string) is preserved by every TokenParser method; no method raises for any string (safety obligations, incl. the lookahead at the end of the input); every loop and the recursion of the quoted-string parser decrease len(string) - cursor, so tokenising terminates; ArgvArgs / StringArgs establish option_tokens == tokens before the first '--' and has_option_token is membership in that prefix; StringArgs.__init__ writes nothing but its own two fields and objects it creates (its tokenizer is private to the call: frame obligation); both forms hand out their token and option-token lists themselves, not copies (the help resolver edits the list in place: a form that copied would resolve differently).  Bounded: exhaustive strings up to length 6/7, the quoting inverse law over token lists, str.split equivalence, string-vs-argv indistinguishability.")
LEVEL_NOTE = ('assumes: itertools.takewhile returns the longest prefix satisfying the predicate; str.isspace exact on ASCII; the quoting round trip (induction over a spec lexer) is bounded only and labelled so')
HANG_IS_VIOLATION = True
TARGETS = [tc.TP + m for m in ("_next", "_parse_escape_sequence", "_parse_quoted_string", "_parse_token", "_parse", "parse")]
TARGETS += [tc.M_ARGV + ":ArgvArgs.__init__", tc.M_SARGS + ":StringArgs.__init__",
            tc.M_ARGV + ":ArgvArgs.has_option_token", tc.M_SARGS + ":StringArgs.has_option_token",
            tc.M_ARGV + ":ArgvArgs.has_token", tc.M_SARGS + ":StringArgs.has_token"] + tc.TOKEN_PROPS
LEMMAS = []
try:
    from .C08_bounded import bounded, BOUNDED_RULE  # noqa
    try:
        from .C08_bounded import replay_bounded  # noqa
    except ImportError:
        pass
except ImportError:
    pass


def structural():
    """the raw-argument classes and the tokenizer keep no module- or class-level object that their code mutates: the tokens of
    one command line cannot depend on (or share a list with) the command lines tokenized before"""
    from pyvc import frontend, structural as st
    P = frontend.Program()
    bad = []
    for mod in ("clikit.args.string_args", "clikit.args.argv_args", "clikit.args.token_parser", "clikit.api.args.raw_args"):
        try:
            mi = P.module(mod)
        except Exception as e:  # noqa
            bad.append("%s: cannot be read (%r)" % (mod, e))
            continue
        bad += ["%s: %s" % (mod, f) for f in st.shared_mutable_state(mi)]
    return [{
        "name": "C08.raw_args.frame.no_shared_state", "kind": "frame",
        "text": "string_args, argv_args, token_parser and raw_args hold no module- or class-level object that their code mutates "
                "or re-binds",
        "status": "proved" if not bad else "failed", "note": "; ".join(bad[:6]),
    }]
