"""C08 -- splitting a command string never fails and inverts shell-style quoting."""
from pyvc.contracts import REG as R
from . import token_contracts as tc

PROP = "C08"
LEVEL = "other"
EXPLANATION = "under construction"
HANG_IS_VIOLATION = True
TARGETS = [tc.TP + m for m in ("_next", "_parse_escape_sequence", "_parse_quoted_string", "_parse_token", "_parse", "parse")]
TARGETS += [tc.M_ARGV + ":ArgvArgs.__init__", tc.M_SARGS + ":StringArgs.__init__",
            tc.M_ARGV + ":ArgvArgs.has_option_token", tc.M_SARGS + ":StringArgs.has_option_token",
            tc.M_ARGV + ":ArgvArgs.has_token", tc.M_SARGS + ":StringArgs.has_token"]
LEMMAS = []
try:
    from .C08_bounded import bounded, BOUNDED_RULE  # noqa
    try:
        from .C08_bounded import replay_bounded  # noqa
    except ImportError:
        pass
except ImportError:
    pass
