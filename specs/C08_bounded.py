"""C08 bounded tier: tokenising command strings (TokenParser / StringArgs) and the equivalence of
StringArgs and ArgvArgs.

Oracle (from the property text and DESIGN.md section 5, C08):
 * for every string, StringArgs(s) / TokenParser().parse(s) terminates (step budget) without any error;
 * quoting scheme: a token is written as  q + token with every ' and " preceded by a backslash + q
   (q = ' or "); tokens are joined by any non-empty whitespace; the joined string tokenises back to
   exactly the token list.  The scheme can express a token iff every maximal run of backslashes that
   is followed by a quote character or by the end of the token has even length (a backslash always
   comes out together with the character after it);
 * text without quotes and backslashes splits exactly like str.split();
 * option_tokens == tokens before the first "--" and has_option_token(t) <=> t in that prefix, for
   StringArgs and ArgvArgs alike; StringArgs(" ".join(quoted tokens)) and ArgvArgs([script] + tokens)
   give equal tokens / option_tokens / has_token / has_option_token and equal results (value or error)
   through DefaultArgsParser.parse and through the resolver of a small application.

Extra (not literally in the statement, shell reading of "nested quotes", own check id): inside a quoted
token, balanced quotes of the *other* kind may stay unescaped.
"""
import itertools
import sys

BOUNDED_RULE = (
    "totality: a case is a string, non-trivial = contains a quote or a backslash; round trip: a case is (token list, "
    "quote style per token, separator), non-trivial = some token is empty or contains whitespace, a quote or a "
    "backslash; split: a case is a string, non-trivial = contains whitespace and a non-whitespace character; "
    "string-vs-argv: a case is a token list, non-trivial = at least two tokens one of which starts with '-'"
)


class StepBudgetExceeded(BaseException):
    pass


class _Budget(object):
    """counts profile events (python and C calls/returns) of the code under test; raises beyond the limit"""

    def __init__(self):
        self.steps = 0
        self.limit = 0

    def _prof(self, frame, event, arg):
        self.steps += 1
        if self.steps > self.limit:
            raise StepBudgetExceeded()

    def run(self, limit, fn, *a):
        self.steps = 0
        self.limit = limit
        sys.setprofile(self._prof)
        try:
            return fn(*a)
        finally:
            sys.setprofile(None)


_BUDGET = _Budget()


def _on_alarm(signum, frame):
    raise StepBudgetExceeded()


def _timed(fn, *a):
    """wall-clock guard (2 s for one call that normally takes microseconds) for the checks whose strings are outside the
    domain of the step-budget check; main thread only (the checker runs bounded() in the main thread of a worker process)"""
    import signal
    old = signal.signal(signal.SIGALRM, _on_alarm)
    signal.setitimer(signal.ITIMER_REAL, 2.0)
    try:
        return fn(*a)
    finally:
        signal.setitimer(signal.ITIMER_REAL, 0)
        signal.signal(signal.SIGALRM, old)


def _limit_for(s):
    return 100 * (len(s) + 2)  # the unmodified scanner needs < 25 events per character


def trailing_backslashes(s):
    return len(s) - len(s.rstrip("\\"))


# ------------------------------------------------------------------------------------------------
def case_total(s):
    """-> [(signature, what)]"""
    from clikit.args import StringArgs
    from clikit.args.token_parser import TokenParser
    cls = "ends-in-odd-backslash-run" if trailing_backslashes(s) % 2 else "other-string"
    out = []
    try:
        toks = _BUDGET.run(_limit_for(s), TokenParser().parse, s)
    except StepBudgetExceeded:
        return [("total|step-budget-exceeded|%s" % cls, "TokenParser().parse(%r) did not finish within %d steps" % (s, _limit_for(s)))]
    except Exception as e:  # the property: no error for any string
        return [("total|%s|%s" % (type(e).__name__, cls), "TokenParser().parse(%r) raised %r" % (s, e))]
    if not isinstance(toks, list) or not all(isinstance(t, str) for t in toks):
        out.append(("total|result-not-a-list-of-str", "TokenParser().parse(%r) -> %r" % (s, toks)))
        return out
    try:
        a = StringArgs(s)  # same scanner on the same string: it finished above
    except Exception as e:  # the property: no error for any string
        return [("total|StringArgs-%s|%s" % (type(e).__name__, cls), "StringArgs(%r) raised %r" % (s, e))]
    if a.tokens != toks:
        out.append(("total|StringArgs-tokens-differ", "StringArgs(%r).tokens = %r, TokenParser gives %r" % (s, a.tokens, toks)))
    out += _option_token_failures("StringArgs", a, toks, "StringArgs(%r)" % (s,))
    # the token list handed out belongs to that object: editing it in place (as the help resolver does with a leading
    # 'help') says nothing about the next tokenisation of the same string
    try:
        mine = a.tokens
        mine.append("edited-by-the-caller")
        b = StringArgs(s)
        if b.tokens != toks or b.tokens is mine:
            out.append(("total|second-StringArgs-of-the-same-string-differs", "after an in-place edit of StringArgs(%r).tokens a new "
                        "StringArgs of that string has tokens %r, TokenParser gives %r" % (s, b.tokens, toks)))
    except Exception as e:
        out.append(("total|second-StringArgs-%s" % type(e).__name__, "a second StringArgs(%r) raised %r" % (s, e)))
    return out


def _option_token_failures(kind, a, toks, how):
    exp = toks[:toks.index("--")] if "--" in toks else list(toks)
    out = []
    if a.option_tokens != exp:
        out.append(("option-tokens|%s|prefix" % kind, "%s.option_tokens = %r, tokens before the first '--' are %r" % (
            how, a.option_tokens, exp)))
    for t in set(toks) | {"--", "-h", ""}:
        if bool(a.has_option_token(t)) != (t in exp):
            out.append(("option-tokens|%s|has_option_token" % kind, "%s.has_option_token(%r) = %r, tokens before the first "
                        "'--' are %r" % (how, t, a.has_option_token(t), exp)))
            break
        if bool(a.has_token(t)) != (t in toks):
            out.append(("option-tokens|%s|has_token" % kind, "%s.has_token(%r) = %r, tokens %r" % (how, t, a.has_token(t), toks)))
            break
    return out


# ------------------------------------------------------------------------------------------------
# the quoting scheme
def expressible(tok):
    i, n = 0, len(tok)
    while i < n:
        if tok[i] == "\\":
            j = i
            while j < n and tok[j] == "\\":
                j += 1
            if (j == n or tok[j] in "'\"") and (j - i) % 2:
                return False
            i = j
        else:
            i += 1
    return True


def quote(tok, q):
    return q + tok.replace('"', '\\"').replace("'", "\\'") + q


def nested_applicable(tok, q):
    """the other kind of quote occurs, in pairs, never directly after a backslash"""
    other = "'" if q == '"' else '"'
    if tok.count(other) == 0 or tok.count(other) % 2:
        return False
    return ("\\" + other) not in tok


def quote_nested(tok, q):
    return q + tok.replace(q, "\\" + q) + q


def _special(tok):
    return tok == "" or any(c.isspace() or c in "'\"\\" for c in tok)


def case_roundtrip(tokens, styles, sep, lead="", trail="", nested=False):
    """-> [(signature, what)]"""
    from clikit.args.token_parser import TokenParser
    qf = quote_nested if nested else quote
    s = lead + sep.join(qf(t, q) for t, q in zip(tokens, styles)) + trail
    name = "nested" if nested else "roundtrip"
    try:
        got = _timed(TokenParser().parse, s)
    except StepBudgetExceeded:
        return [("%s|step-budget-exceeded" % name, "TokenParser().parse(%r) did not finish within 2 s" % (s,))]
    except Exception as e:  # no error for any string
        return [("%s|%s" % (name, type(e).__name__), "TokenParser().parse(%r) raised %r" % (s, e))]
    if got != list(tokens):
        cls = "count" if len(got) != len(tokens) else (
            "backslash" if any("\\" in t for t in tokens) else "quote" if any("'" in t or '"' in t for t in tokens) else
            "whitespace" if any(any(c.isspace() for c in t) for t in tokens) else "plain")
        return [("%s|differs|%s" % (name, cls), "tokens %r written as %r tokenise to %r" % (list(tokens), s, got))]
    return []


def case_split(s):
    from clikit.args.token_parser import TokenParser
    try:
        got = _timed(TokenParser().parse, s)
    except StepBudgetExceeded:
        return [("split|step-budget-exceeded", "TokenParser().parse(%r) did not finish within 2 s" % (s,))]
    except Exception as e:  # no error for any string
        return [("split|%s" % type(e).__name__, "TokenParser().parse(%r) raised %r" % (s, e))]
    if got != s.split():
        return [("split|differs", "TokenParser().parse(%r) = %r, str.split gives %r" % (s, got, s.split()))]
    return []


# ------------------------------------------------------------------------------------------------
# StringArgs vs ArgvArgs
_APP = []


def _app():
    if _APP:
        return _APP[0]
    from clikit import ConsoleApplication
    from clikit.api.args.format import Argument, Option
    from clikit.config.default_application_config import DefaultApplicationConfig
    cfg = DefaultApplicationConfig("app", "1.0")
    cfg.set_catch_exceptions(False)
    cfg.set_terminate_after_run(False)
    with cfg.command("server") as c:
        c.add_option("port", "p", Option.REQUIRED_VALUE | Option.INTEGER)
        c.add_option("tag", "t", Option.MULTI_VALUED)
        c.add_option("force", "f", Option.NO_VALUE)
        c.add_option("mode", "m", Option.OPTIONAL_VALUE, None, "fast")
        c.add_argument("host", Argument.OPTIONAL)
        with c.sub_command("add") as s:
            s.add_argument("names", Argument.MULTI_VALUED)
        with c.sub_command("list") as s:
            s.default()
    with cfg.command("echo") as c:
        c.add_alias("say")
        c.add_argument("first", Argument.REQUIRED)
        c.add_argument("words", Argument.MULTI_VALUED)
    _APP.append(ConsoleApplication(cfg))
    return _APP[0]


def _describe(parsed):
    return {"arguments": parsed.arguments(True), "options": parsed.options(True),
            "set": sorted(parsed.options(False))}


def _resolve(app, args):
    try:
        rc = app.resolve_command(args)
    except Exception as e:  # the outcome (value or error) is what is compared between the two forms
        return ["error", type(e).__name__, str(e)]
    return ["ok", rc.command.full_name, _describe(rc.args)]


def _parse(app, args, lenient):
    from clikit.args.default_args_parser import DefaultArgsParser
    fmt = app.get_command("server").args_format
    try:
        r = DefaultArgsParser().parse(args, fmt, lenient)
    except Exception as e:  # the outcome (value or error) is what is compared between the two forms
        return ["error", type(e).__name__, str(e)]
    return ["ok", _describe(r)]


def case_forms(tokens, sep=" "):
    """-> [(signature, what)]"""
    from clikit.args import ArgvArgs, StringArgs
    tokens = list(tokens)
    s = sep.join(quote(t, '"' if i % 2 else "'") for i, t in enumerate(tokens))
    try:
        sa = _timed(StringArgs, s)
    except StepBudgetExceeded:
        return [("forms|step-budget-exceeded", "StringArgs(%r) did not finish within 2 s" % (s,))]
    except Exception as e:  # no error for any string
        return [("forms|StringArgs-%s" % type(e).__name__, "StringArgs(%r) raised %r" % (s, e))]
    av = ArgvArgs(["script"] + tokens)
    out = []
    if sa.tokens != tokens or av.tokens != tokens:
        out.append(("forms|tokens", "tokens %r: StringArgs(%r).tokens = %r, ArgvArgs.tokens = %r" % (tokens, s, sa.tokens, av.tokens)))
        return out
    out += _option_token_failures("StringArgs", sa, tokens, "StringArgs(%r)" % (s,))
    out += _option_token_failures("ArgvArgs", av, tokens, "ArgvArgs(%r)" % (["script"] + tokens,))
    if sa.option_tokens != av.option_tokens:
        out.append(("forms|option_tokens", "%r: StringArgs %r vs ArgvArgs %r" % (tokens, sa.option_tokens, av.option_tokens)))
    if out:
        return out
    app = _app()
    try:
        r1, r2 = _timed(_resolve, app, sa), _timed(_resolve, app, av)
        if r1 != r2:
            out.append(("forms|resolver", "%r resolves to %r as a string and to %r as argv" % (tokens, r1, r2)))
        for lenient in (False, True):
            p1, p2 = _timed(_parse, app, sa, lenient), _timed(_parse, app, av, lenient)
            if p1 != p2:
                out.append(("forms|parser", "%r (lenient=%s) parses to %r as a string and to %r as argv" % (tokens, lenient, p1, p2)))
    except StepBudgetExceeded:
        out.append(("forms|step-budget-exceeded", "parsing / resolving %r did not finish within 2 s" % (tokens,)))
    return out


FORM_TOKENS = ["server", "add", "list", "echo", "--", "-p", "8080", "--port", "--port=80", "-p9", "-f", "-ft", "--tag", "x",
               "a b", "", "--help", "-h", "-vv", "it's", 'say "hi"', "-", "--mode", "=", "a\\nb", u"é", "--quiet", "-m",
               # tokens that END in a line terminator (read from a file, CRLF scripts): part of the token in either form
               "a\n", "--\n", "\r\n"]


# ------------------------------------------------------------------------------------------------
class _Reporter(object):
    def __init__(self, ctx, per_sig=2):
        self.ctx, self.per_sig, self.seen = ctx, per_sig, {}
        self.hangs = 0

    @property
    def hung(self):
        """the code under test keeps spinning: stop enumerating (every further case would burn its whole budget)"""
        return self.hangs >= 3

    def report(self, fails, witness):
        for sig, what in fails:
            if "step-budget-exceeded" in sig:
                self.hangs += 1
            n = self.seen.get(sig, 0)
            self.seen[sig] = n + 1
            if n < self.per_sig:
                self.ctx.fail(sig, what, witness)


SEPARATORS = [" ", "\t", "  ", "\n", " \t "]
TOKEN_ALPHABET = ["a", "b", " ", "\t", "'", '"', "\\", "-", "=", u"é", "\r", "\n"]  # (line breaks inside a quoted token are data)


def _strings(alphabet, max_len, min_len=0):
    for n in range(min_len, max_len + 1):
        for tup in itertools.product(alphabet, repeat=n):
            yield "".join(tup)


def _drive(ctx, rep, gen):
    """gen yields (key, nontrivial, failures, witness); stops when the code under test keeps hanging or time is up.
    -> True if gen was consumed completely"""
    n = 0
    for key, nontrivial, fails, witness in gen:
        ctx.case(key, nontrivial=nontrivial)
        if fails:
            rep.report(fails, witness)
            if rep.hung:
                return False
        n += 1
        if n % 2000 == 0 and ctx.out_of_time():
            return False
    return True


def _gen_total(L):
    for s in _strings(["a", " ", "\t", "'", '"', "\\", "-"], L):
        yield s, any(c in s for c in "'\"\\"), case_total(s), {"kind": "total", "string": s}


def _gen_singles(singles):
    for t in singles:
        for q in ("'", '"'):
            for lead, trail in (("", ""), (" ", "\t"), ("\n ", "  ")):
                yield ([[t], q, lead, trail], _special(t), case_roundtrip([t], [q], " ", lead, trail),
                       {"kind": "roundtrip", "tokens": [t], "styles": [q], "seps": [" "], "lead": lead, "trail": trail})
    yield ([[], "", "", ""], False, case_roundtrip([], [], " "),
           {"kind": "roundtrip", "tokens": [], "styles": [], "seps": [" "], "lead": "", "trail": ""})


def _gen_pairs(shorts):
    for t1 in shorts:
        for t2 in shorts:
            for q1, q2 in (("'", "'"), ("'", '"'), ('"', "'"), ('"', '"')):
                for sep in SEPARATORS:
                    yield ([[t1, t2], q1 + q2, sep], _special(t1) or _special(t2), case_roundtrip([t1, t2], [q1, q2], sep),
                           {"kind": "roundtrip", "tokens": [t1, t2], "styles": [q1, q2], "seps": [sep], "lead": "", "trail": ""})


def _gen_random_lists(rng, n_rand):
    for _ in range(n_rand):
        n = rng.randint(0, 4)
        toks = []
        while len(toks) < n:
            t = "".join(rng.choice(TOKEN_ALPHABET) for _ in range(rng.randint(0, 5)))
            if expressible(t):
                toks.append(t)
        styles = [rng.choice("'\"") for _ in toks]
        seps = [rng.choice(SEPARATORS) for _ in toks[1:]]
        lead, trail = rng.choice(["", " ", "\t\n"]), rng.choice(["", " ", "\t\n"])
        yield ([toks, "".join(styles), seps, lead, trail], any(_special(t) for t in toks),
               _case_roundtrip_seps(toks, styles, seps, lead, trail),
               {"kind": "roundtrip", "tokens": toks, "styles": styles, "seps": seps, "lead": lead, "trail": trail})


def _gen_nested(L):
    for t in _strings(TOKEN_ALPHABET, L, 2):
        if ("'" not in t and '"' not in t) or not expressible(t):
            continue
        for q in ("'", '"'):
            if nested_applicable(t, q):
                yield [t, q], True, case_roundtrip([t], [q], " ", nested=True), {"kind": "nested", "tokens": [t], "styles": [q]}


WHITESPACE_ALPHABET = ["a", "b", "-", "=", u"\u00e9", " ", "\t", "\n", "\r", "\x0b", "\x0c", u"\xa0", u"\u2003", "\x1c", u"\x85"]


def _gen_split(L):
    for s in _strings(WHITESPACE_ALPHABET, L):
        yield s, bool(s.strip()) and s.split() != [s], case_split(s), {"kind": "split", "string": s}


def _gen_forms(rng, Lf, n_rand):
    def one(toks):
        return toks, len(toks) >= 2 and any(t.startswith("-") for t in toks), case_forms(toks), {"kind": "forms", "tokens": list(toks)}

    for n in range(0, Lf + 1):
        for toks in itertools.product(FORM_TOKENS, repeat=n):
            yield one(list(toks))
    for _ in range(n_rand):
        yield one([rng.choice(FORM_TOKENS) for _ in range(rng.randint(Lf + 1, 6))])


def bounded(ctx):
    quick = ctx.quick
    rng = ctx.rng

    # ---- totality and termination
    L = 6 if quick else 7
    ctx.check("total", "all strings of length <= %d over {a, space, tab, ', \", backslash, -}: TokenParser().parse and StringArgs "
              "finish within 100*(len+2) profile events without error; option_tokens is the prefix before the first '--'" % L)
    ok = _drive(ctx, _Reporter(ctx), _gen_total(L))
    ctx.done(exhaustive=ok, note="" if ok else "stopped early: the scanner keeps exceeding its step budget")

    # ---- quoting round trip
    L1 = 3 if quick else 5
    L2 = 2
    n_rand = 4000 if quick else 1000000
    ctx.check("quote_roundtrip", "expressible token lists over {a, b, space, tab, ', \", backslash, -, =, e-acute}: every single token of "
              "length <= %d x {single, double} x 3 paddings; every pair of tokens of length <= %d x 4 style combinations x %d "
              "separators; %d seeded random lists of 0-4 tokens of 0-5 characters with random style per token, random "
              "separator per joint and random padding" % (L1, L2, len(SEPARATORS), n_rand))
    rep = _Reporter(ctx)
    singles = [t for t in _strings(TOKEN_ALPHABET, L1) if expressible(t)]
    ok = _drive(ctx, rep, _gen_singles(singles))
    ok = ok and _drive(ctx, rep, _gen_pairs([t for t in singles if len(t) <= L2]))
    ok = ok and _drive(ctx, rep, _gen_random_lists(rng, n_rand))
    ctx.done(exhaustive=False, note="single tokens and pairs enumerated completely: %s; longer lists sampled" % ok)

    # ---- nested quotes (extra)
    Ln = 4 if quick else 5
    ctx.check("quote_nested", "extra, shell reading of nested quotes: every expressible token of length <= %d in which the other kind "
              "of quote occurs in pairs and never after a backslash, written with only the enclosing quote escaped, x {single, "
              "double}" % Ln)
    ok = _drive(ctx, _Reporter(ctx), _gen_nested(Ln))
    ctx.done(exhaustive=ok)

    # ---- unquoted text
    Ls = 4 if quick else 5
    ctx.check("unquoted_split", "all strings of length <= %d over {a, b, -, =, e-acute} and 10 whitespace characters (space, tab, LF, CR, "
              "VT, FF, NBSP, EM SPACE, FS, NEL): tokens == str.split()" % Ls)
    ok = _drive(ctx, _Reporter(ctx), _gen_split(Ls))
    ctx.done(exhaustive=ok)

    # ---- StringArgs vs ArgvArgs
    Lf = 2 if quick else 3
    n_rand = 3000 if quick else 300000
    ctx.check("string_vs_argv", "token lists over %d command-line tokens (command names, '--', short/long options with and without "
              "values, empty, spaced, quoted, backslashed, non-ASCII): all lists of length <= %d and %d seeded random lists of "
              "length %d-6; StringArgs(joined quoted) vs ArgvArgs: tokens, option_tokens, has_token, has_option_token, "
              "DefaultArgsParser.parse (strict and lenient) on the 'server' format, resolver of a 3-command application with "
              "the default configuration" % (len(FORM_TOKENS), Lf, n_rand, Lf + 1))
    ok = _drive(ctx, _Reporter(ctx), _gen_forms(rng, Lf, n_rand))
    ctx.done(exhaustive=False, note="lists of length <= %d enumerated completely: %s" % (Lf, ok))


def _case_roundtrip_seps(toks, styles, seps, lead, trail):
    """round trip with one separator per joint"""
    from clikit.args.token_parser import TokenParser
    parts = []
    for i, (t, q) in enumerate(zip(toks, styles)):
        if i:
            parts.append(seps[i - 1])
        parts.append(quote(t, q))
    s = lead + "".join(parts) + trail
    try:
        got = _timed(TokenParser().parse, s)
    except StepBudgetExceeded:
        return [("roundtrip|step-budget-exceeded", "TokenParser().parse(%r) did not finish within 2 s" % (s,))]
    except Exception as e:  # no error for any string
        return [("roundtrip|%s" % type(e).__name__, "TokenParser().parse(%r) raised %r" % (s, e))]
    if got != list(toks):
        cls = "count" if len(got) != len(toks) else (
            "backslash" if any("\\" in t for t in toks) else "quote" if any("'" in t or '"' in t for t in toks) else
            "whitespace" if any(any(c.isspace() for c in t) for t in toks) else "plain")
        return [("roundtrip|differs|%s" % cls, "tokens %r written as %r tokenise to %r" % (list(toks), s, got))]
    return []


def replay_bounded(check_id, failure):
    w = failure.get("witness") or {}
    sig = failure.get("signature", "")
    k = w.get("kind")
    if k == "total":
        fails = case_total(w["string"])
    elif k == "roundtrip":
        seps = w.get("seps") or [" "]
        toks = w["tokens"]
        seps = (seps * max(1, len(toks)))[:max(0, len(toks) - 1)] if len(seps) == 1 else seps
        fails = _case_roundtrip_seps(toks, w["styles"], seps, w.get("lead", ""), w.get("trail", ""))
    elif k == "nested":
        fails = case_roundtrip(w["tokens"], w["styles"], " ", nested=True)
    elif k == "split":
        fails = case_split(w["string"])
    elif k == "forms":
        fails = case_forms(w["tokens"])
    else:
        return {"fails": False, "detail": "no witness"}
    sigs = [f[0] for f in fails]
    return {"fails": sig in sigs, "detail": "signatures on the current tree: %s" % sorted(set(sigs))}
