"""C09 -- global switches act the same wherever they appear and whatever command runs."""
from pyvc.contracts import REG as R
from . import io_contracts as ioc
from . import token_contracts as tc  # noqa: F401

PROP = "C09"
LEVEL = 'proof'
EXPLANATION = ("Deductive: DefaultApplicationConfig.create_io is verified against a post stated over the SET of option tokens: quiet, verbosity level, interaction and decoration of both outputs are functions of membership of the switches in the tokens before the first '--' (C08 contract), hence independent of placement and inert after '--'.  Bounded: all subsets/orders of the seven switches x insertion positions x generated trees x handler behaviours through the real run(): quiet suppresses reports, escape bytes, question defaults, help/version pages.")
LEVEL_NOTE = ('assumes: RawArgs.has_option_token is membership in the option tokens (proved for ArgvArgs/StringArgs under C08); formatter constructors set force/disable flags as named; streams given explicitly; help and version listeners are bounded only')

M_DCFG = "clikit.config.default_application_config"
M_ACFG = "clikit.api.config.application_config"
M_RAW = "clikit.api.args.raw_args"

# the abstract raw arguments: option tokens = tokens before the first "--" (proved for both implementations in C08)
R.shape("RawArgs", external=True, _option_tokens="list[str]", _tokens="list[str]")
R.contract(M_RAW + ":RawArgs.has_option_token", params={"token": "str"}, returns="bool",
           ensures=["result == (token in self._option_tokens)"], assumed=True,
           note="proved for ArgvArgs and StringArgs under C08 (has_option_token.post, __init__.post before_dd)")
R.shape("InputStream", external=True)
R.shape("Input", _stream="ref InputStream", _interactive="bool")
R.shape("StyleSet", external=True)
R.shape("Application", external=True, g_style_set="ref StyleSet")
R.shape("ApplicationConfig", _debug="bool")
R.shape("DefaultApplicationConfig", base="ApplicationConfig")
R.shape("ConsoleIO", base="IO")
R.contract("clikit.api.application.application:Application.config", params={}, returns="ref ApplicationConfig",
           assumed=True).is_property = True
R.contract(M_ACFG + ":ApplicationConfig.style_set", params={}, returns="ref StyleSet", assumed=True).is_property = True
R.contract("clikit.formatter.plain_formatter:PlainFormatter.__init__", params={"style_set": "ref StyleSet?"},
           ensures=["self.g_disable", "not self.g_force"], modifies=["self.g_disable", "self.g_force"], assumed=True,
           note="a plain formatter: disable_ansi() is True, force_ansi() is False").defaults = {"style_set": None}
R.contract("clikit.formatter.ansi_formatter:AnsiFormatter.__init__", params={"style_set": "ref StyleSet?", "forced": "bool"},
           ensures=["not self.g_disable", "self.g_force == forced"], modifies=["self.g_disable", "self.g_force"],
           assumed=True, note="an ANSI formatter: disable_ansi() is False, force_ansi() is the `forced` argument"
           ).defaults = {"style_set": None, "forced": False}
R.shape("PlainFormatter", base="Formatter", external=True)
R.shape("AnsiFormatter", base="Formatter", external=True)
R.shape("NullFormatter", base="Formatter", external=True)

OPT = "args._option_tokens"
QUIET = "('--quiet' in %s or '-q' in %s)" % (OPT, OPT)
VERB = "(4 if ('-vvv' in %s or self._debug) else (2 if '-vv' in %s else (1 if '-v' in %s else 0)))" % (OPT, OPT, OPT)
NOINT = "('--no-interaction' in %s or '-n' in %s)" % (OPT, OPT)

c = R.contract(
    M_DCFG + ":DefaultApplicationConfig.create_io",
    params={"application": "ref Application", "args": "ref RawArgs", "input_stream": "ref InputStream",
            "output_stream": "ref OutputStream", "error_stream": "ref OutputStream"},
    returns="ref IO",
    ensures=[
        "fresh(result)",
        # quiet / verbosity / interaction depend on the command line only through the set of option tokens
        "result._output._quiet == %s and result._error_output._quiet == %s" % (QUIET, QUIET),
        "result._output._verbosity == %s and result._error_output._verbosity == %s" % (VERB, VERB),
        "result._input._interactive == (not %s)" % NOINT,
        # --no-ansi removes decoration from both outputs, --ansi (without --no-ansi) forces it on any stream
        "implies('--no-ansi' in %s, (not result._output._format_output) and (not result._error_output._format_output))" % OPT,
        "implies('--ansi' in %s and '--no-ansi' not in %s, result._output._format_output and result._error_output._format_output)" % (OPT, OPT),
        "implies('--ansi' not in %s and '--no-ansi' not in %s, result._output._format_output == output_stream.g_ansi "
        "and result._error_output._format_output == error_stream.g_ansi)" % (OPT, OPT),
        "result._output._stream is output_stream and result._error_output._stream is error_stream",
    ],
    modifies=[],
)
TARGETS = [M_DCFG + ":DefaultApplicationConfig.create_io"]
LEMMAS = []

try:
    from .C09_bounded import bounded, BOUNDED_RULE  # noqa
    try:
        from .C09_bounded import replay_bounded  # noqa
    except ImportError:
        pass
except ImportError:
    pass
R.contract(M_RAW + ":RawArgs.has_token", params={"token": "str"}, returns="bool",
           ensures=["result == (token in self._tokens)"], assumed=True,
           note="proved for ArgvArgs and StringArgs under C08")
