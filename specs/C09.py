"""C09 -- global switches act the same wherever they appear and whatever command runs."""
from pyvc.contracts import REG as R
from . import io_contracts as ioc
from . import token_contracts as tc  # noqa: F401

PROP = "C09"
LEVEL = 'proof'
EXPLANATION = ("Deductive: DefaultApplicationConfig.create_io is verified against a post stated over the SET of option tokens: quiet, verbosity level, interaction and decoration of both outputs are functions of membership of the switches in the tokens before the first '--' (C08 contract), hence independent of placement and inert after '--'; Question.ask on a non-interactive input returns the default without asking, validating or printing; the help/version listeners are verified to print and return status 0 without the handler.  Bounded: all subsets/orders of the seven switches x insertion positions x generated trees x handler behaviours through the real run(): quiet suppresses reports, escape bytes, question defaults, help/version pages.")
LEVEL_NOTE = ('assumes: RawArgs.has_option_token is membership in the option tokens (proved for ArgvArgs/StringArgs under C08); formatter constructors set force/disable flags as named; streams given explicitly; the quiet / verbosity gate itself is C10 (its targets are re-verified here); end-to-end runs through run() are bounded')

M_DCFG = "clikit.config.default_application_config"
M_ACFG = "clikit.api.config.application_config"
M_RAW = "clikit.api.args.raw_args"

# the abstract raw arguments: option tokens = tokens before the first "--" (proved for both implementations in C08)
R.shape("RawArgs", external=True, _option_tokens="list[str]", _tokens="list[str]")
R.contract(M_RAW + ":RawArgs.has_option_token", params={"token": "str"}, returns="bool",
           ensures=["result == (token in self._option_tokens)"], assumed=True,
           note="proved for ArgvArgs and StringArgs under C08 (has_option_token.post, __init__.post before_dd)")
R.shape("InputStream", external=True)
R.shape("Input", _stream="ref InputStream", _interactive="bool")
R.shape("StyleSet", external=True)
R.shape("Application", external=True, g_style_set="ref StyleSet")
R.shape("ApplicationConfig", _debug="bool")
R.shape("DefaultApplicationConfig", base="ApplicationConfig")
R.shape("ConsoleIO", base="IO")
R.contract("clikit.api.application.application:Application.config", params={}, returns="ref ApplicationConfig",
           assumed=True).is_property = True
R.contract(M_ACFG + ":ApplicationConfig.style_set", params={}, returns="ref StyleSet", assumed=True).is_property = True
R.contract("clikit.formatter.plain_formatter:PlainFormatter.__init__", params={"style_set": "ref StyleSet?"},
           ensures=["self.g_disable", "not self.g_force"], modifies=["self.g_disable", "self.g_force"], assumed=True,
           note="a plain formatter: disable_ansi() is True, force_ansi() is False").defaults = {"style_set": None}
R.contract("clikit.formatter.ansi_formatter:AnsiFormatter.__init__", params={"style_set": "ref StyleSet?", "forced": "bool"},
           ensures=["not self.g_disable", "self.g_force == forced"], modifies=["self.g_disable", "self.g_force"],
           assumed=True, note="an ANSI formatter: disable_ansi() is False, force_ansi() is the `forced` argument"
           ).defaults = {"style_set": None, "forced": False}
R.shape("PlainFormatter", base="Formatter", external=True)
R.shape("AnsiFormatter", base="Formatter", external=True)
R.shape("NullFormatter", base="Formatter", external=True)

OPT = "args._option_tokens"
QUIET = "('--quiet' in %s or '-q' in %s)" % (OPT, OPT)
VERB = "(4 if ('-vvv' in %s or self._debug) else (2 if '-vv' in %s else (1 if '-v' in %s else 0)))" % (OPT, OPT, OPT)
NOINT = "('--no-interaction' in %s or '-n' in %s)" % (OPT, OPT)

c = R.contract(
    M_DCFG + ":DefaultApplicationConfig.create_io",
    params={"application": "ref Application", "args": "ref RawArgs", "input_stream": "ref InputStream",
            "output_stream": "ref OutputStream", "error_stream": "ref OutputStream"},
    returns="ref IO",
    ensures=[
        "fresh(result)",
        # quiet / verbosity / interaction depend on the command line only through the set of option tokens
        "result._output._quiet == %s and result._error_output._quiet == %s" % (QUIET, QUIET),
        "result._output._verbosity == %s and result._error_output._verbosity == %s" % (VERB, VERB),
        "result._input._interactive == (not %s)" % NOINT,
        # --no-ansi removes decoration from both outputs, --ansi (without --no-ansi) forces it on any stream
        "implies('--no-ansi' in %s, (not result._output._format_output) and (not result._error_output._format_output))" % OPT,
        "implies('--ansi' in %s and '--no-ansi' not in %s, result._output._format_output and result._error_output._format_output)" % (OPT, OPT),
        "implies('--ansi' not in %s and '--no-ansi' not in %s, result._output._format_output == output_stream.g_ansi "
        "and result._error_output._format_output == error_stream.g_ansi)" % (OPT, OPT),
        "result._output._stream is output_stream and result._error_output._stream is error_stream",
    ],
    modifies=[],
)
TARGETS = [M_DCFG + ":DefaultApplicationConfig.create_io"]
LEMMAS = []

try:
    from .C09_bounded import bounded, BOUNDED_RULE  # noqa
    try:
        from .C09_bounded import replay_bounded  # noqa
    except ImportError:
        pass
except ImportError:
    pass
R.contract(M_RAW + ":RawArgs.has_token", params={"token": "str"}, returns="bool",
           ensures=["result == (token in self._tokens)"], assumed=True,
           note="proved for ArgvArgs and StringArgs under C08")

# ---------------------------------------------------------------- the help and version listeners
from . import args_contracts as acx  # noqa: E402  (Args.is_option_set)
from . import app_contracts as ac  # noqa: E402,F401
from . import resolver_contracts as rcx  # noqa: E402,F401  (Command.parse)

R.shape("PreResolveEvent", base="Event", _raw_args="ref RawArgs", _application="ref Application",
        _resolved_command="ref ResolvedCommand?", _propagation_stopped="bool")
R.shape("Event", _propagation_stopped="bool")
R.shape("PreHandleEvent", base="Event", _args="ref Args", _io="ref IO", _command="ref Command", _handled="bool",
        _propagation_stopped="bool")
R.shape("Command", g_last_parse_lenient="bool?", g_app="ref Application")
R.uf("app_command", ["ref Application", "str"], "ref Command")
R.contract("clikit.api.application.application:Application.get_command", params={"name": "str"}, returns="ref Command",
           ensures=["result is app_command(self, name)"], raises={"Exception": "True"}, assumed=True,
           note="command lookup of the application (C03)")
R.contracts[ac.M_CMD + ":Command.parse"].ensures = ["[C09] self.g_last_parse_lenient is lenient or self.g_last_parse_lenient == lenient"]
R.contracts[ac.M_CMD + ":Command.parse"].modifies = ["self.g_last_parse_lenient"]
R.contract("clikit.api.command.command:Command.application", params={}, returns="ref Application",
           ensures=["result is self.g_app"], assumed=True).is_property = True
R.shape("NameVersion", external=True)
R.contract("clikit.ui.components.name_version:NameVersion.__init__", params={"config": "ref ApplicationConfig"}, assumed=True)
R.contract("clikit.ui.components.name_version:NameVersion.render", params={"io": "ref IO", "indentation": "int"},
           assumed=True, note="prints name and version (content: bounded tier)").defaults = {"indentation": 0}

HELP = "('-h' in event._raw_args._option_tokens or '--help' in event._raw_args._option_tokens)"
HC = "app_command(event._application, 'help')"
R.contract(
    M_DCFG + ":DefaultApplicationConfig.resolve_help_command",
    params={"event": "ref PreResolveEvent", "event_name": "str", "dispatcher": "none"},
    ensures=[
        # the help switch among the option tokens (anywhere before '--') selects the help command, parsed
        # leniently, and ends the resolution; otherwise the event is left alone
        "implies(%s, event._propagation_stopped and event._resolved_command is not None and "
        "event._resolved_command._command is %s and %s.g_last_parse_lenient == True)" % (HELP, HC, HC),
        "implies(not %s, event._resolved_command is old(event._resolved_command) and "
        "event._propagation_stopped == old(event._propagation_stopped))" % HELP,
    ],
    raises={"Exception": HELP},
    modifies=["event._resolved_command", "event._propagation_stopped", "ANY.g_last_parse_lenient"],
)
VSET = "(base_has_option(event._args._fmt, 'version') and fmt_opt(event._args._fmt, 'version')._long_name in event._args._options)"
R.contract(
    M_DCFG + ":DefaultApplicationConfig.print_version",
    params={"event": "ref PreHandleEvent", "event_name": "str", "dispatcher": "none"},
    ensures=[
        # the PARSED version option (so: not a token after '--') marks the event handled: the handler is skipped
        "implies(%s, event._handled)" % VSET,
        "implies(not %s, event._handled == old(event._handled))" % VSET,
    ],
    modifies=["event._handled"],
)
TARGETS += [M_DCFG + ":DefaultApplicationConfig.resolve_help_command", M_DCFG + ":DefaultApplicationConfig.print_version"]

# "--no-interaction makes questions return their defaults": create_io.post sets Input._interactive from the switch (above);
# Question.ask on a non-interactive input returns the default, asking, validating and printing nothing
from . import question_contracts as qc  # noqa: E402
TARGETS += [qc.M_Q + ":Question.ask"]
R.opaque_hook = qc.opaque_question  # the validator / interviewer of a question are arbitrary callables (as under C18)

# "the quiet switch suppresses all output of the run including error reports; -v/-vv/-vvv select the verbosity levels":
# create_io.post sets the quiet flag and the verbosity of both outputs from the switches (above); that a quiet output
# then passes nothing -- on every write path of Output / SectionOutput / IO -- is the gate of C10, whose contracts are
# re-verified here as part of this property
from . import C10 as _c10  # noqa: E402
TARGETS += [t for t in _c10.TARGETS if t not in TARGETS]
