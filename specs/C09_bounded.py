# -*- coding: utf-8 -*-
"""C09 bounded tier -- global switches act the same wherever they appear and whatever command runs.

Applications are built on DefaultApplicationConfig (catching on, no termination) over generated command trees in
which every command accepts any number of arguments (so that a switch inserted anywhere leaves a line that still
parses); every run goes through ConsoleApplication.run on buffered, non-tty streams with COLUMNS=120.

Oracle, computed from the final token list only (S = switches having a spelling among the tokens before the
first '--'; tokens after '--' are never looked at):
  no exception leaves run, the status is an int in 0..255;
  quiet in S            -> both streams stay empty: handler output, prompts, help, version, error report;
  '-v' / '-vv' / '-vvv' -> the handler sees verbosity 1 / 2 / 4 and exactly the lines of the levels up to it reach
                           each stream (several verbosity spellings at once: the highest one; DESIGN C09.create_io);
  '--no-ansi' in S      -> no ESC byte in either stream; else '--ansi' in S -> every stream that received text has
                           escape sequences (everything the harness writes is styled); neither -> no ESC byte
                           (buffered streams are no terminal); both -> '--no-ansi' wins (DESIGN C09.create_io);
  no-interaction in S   -> the handler sees a non-interactive I/O, its questions return their defaults and print no
                           prompt; otherwise they return the typed answers;
  help in S             -> status 0, no handler of the tree runs; if the switch stands after the complete command path
                           the output is the help page of the command that path selects (its marker is shown, no
                           marker of a command outside its sub-tree); with a version switch as well: help or version;
  version in S (no help)-> status 0, no handler of the tree runs, stdout shows display name and version;
  otherwise             -> exactly the handler of the command selected by the C03 rule (leading tokens up to the first
                           option; app_gen.select) runs, once; its behaviour decides the rest: 'write' status 0,
                           'ask' status 0, 'raise' status in 1..255 and a report showing the message unless quiet.
Which command is selected when a switch cuts the command path short is C03's rule (options end the path), not a
claim of C09; the effects above are checked on whatever command that rule selects, including the built-in help
command when a switch stands first.

Not demanded (stated): what '-v' immediately followed by a word does to that word (the option is declared with an
optional value, so `cmd -v word` hands `word` to it -- an effect on the parsed arguments, which C09 does not speak
about; all generated commands take optional arguments only, so the run itself stays valid); '--verbose' (the
property names the short spellings only); the slot between a value option and its value (the lines use --val=V).
"""
import itertools
import os

from . import app_gen as G

BOUNDED_RULE = (
    "case = (tree, final token list, intended command path, handler behaviour); distinct by canonical JSON; trivial = "
    "no switch token anywhere in the line (baseline runs)")

ESC = "\x1b"
SWITCHES = (
    ("quiet", ("-q", "--quiet")),
    ("verbose", ("-v", "-vv", "-vvv")),
    ("ansi", ("--ansi",)),
    ("no-ansi", ("--no-ansi",)),
    ("no-interaction", ("-n", "--no-interaction")),
    ("help", ("-h", "--help")),
    ("version", ("-V", "--version")),
)
SPELLING_OF = dict((sp, name) for name, sps in SWITCHES for sp in sps)
ALL_SPELLINGS = tuple(sp for _, sps in SWITCHES for sp in sps)
LEVEL = {"-v": 1, "-vv": 2, "-vvv": 4}
BEHAVIOURS = ("write", "ask", "raise")
BOOM = "HANDLER-BOOM"
STDIN = "typed\nyes\n"
APP_NAME, DISPLAY_NAME, VERSION = "my-app", "My App", "1.2.3"


class HandlerBoom(Exception):
    pass


def styled(text):
    return G.tags("[info]%s[/info]" % text)


def level_lines(prefix, level):
    names = ["N"] + (["V"] if level >= 1 else []) + (["VV"] if level >= 2 else []) + (["D"] if level >= 4 else [])
    return ["%s-%s" % (prefix, n) for n in names]


def make_behaviour(kind):
    from clikit.api.io import flags
    from clikit.ui.components.confirmation_question import ConfirmationQuestion
    from clikit.ui.components.question import Question

    def behave(inv):
        io = inv.io
        inv.seen.update(quiet=io.is_quiet(), verbosity=io.verbosity, interactive=io.is_interactive(),
                        verbose=io.is_verbose(), very_verbose=io.is_very_verbose(), debug=io.is_debug())
        if kind == "ask":
            inv.seen["answer"] = Question("Name?", "DFLT").ask(io)
            inv.seen["confirmed"] = ConfirmationQuestion("Sure?", False).ask(io)
            return 0
        for n, fl in (("N", None), ("V", flags.VERBOSE), ("VV", flags.VERY_VERBOSE), ("D", flags.DEBUG)):
            io.write_line(styled("OUT-" + n), fl)
            io.error_line(styled("ERR-" + n), fl)
        if kind == "raise":
            raise HandlerBoom(BOOM)
        return 0
    return behave


def decorate(node, config):
    config.set_help("HELPMARK-%s-END" % node.id)


def strip_escapes(s):
    import re
    return re.sub(r"\x1b\[[0-9;]*m", "", s)


# ------------------------------------------------------------------------------ one evaluation
def dangling_value_option(before):
    """an option that requires a value stands last or directly in front of another dash token"""
    return any((t in ("--val", "-w") and (i + 1 == len(before) or before[i + 1].startswith("-")))
               or t.startswith("--opt=")  # ... or a flag is written with a value: no command can parse that either
               for i, t in enumerate(before))


def evaluate(tree_json, line, path, behaviour, warm=False):
    """-> (info, [(signature, what)]).  tree_json: tree without the built-in help; line: final tokens; path: the
    command path the base line spelled (names/aliases); warm: the application has already served the same line without
    any switch on a terminal (streams with ANSI support) - the switches of a run are that run's business"""
    tree = G.Tree.from_json(tree_json).with_builtin_help()
    rec = G.Recorder(make_behaviour(behaviour))
    app, rec, cfgs = G.build_app(tree, "default", recorder=rec, catch=True, decorate=decorate)
    if warm:
        cut = line.index("--") if "--" in line else len(line)
        G.run_buffered(app, [t for t in line[:cut] if t not in SPELLING_OF] + line[cut:], stdin=STDIN, catch=BaseException,
                       terminal=True)
        del rec.calls[:]
    r = G.run_buffered(app, line, stdin=STDIN, catch=BaseException)

    before = list(itertools.takewhile(lambda t: t != "--", line))
    after = line[len(before) + 1:]
    S = set(SPELLING_OF[t] for t in before if t in SPELLING_OF)
    levels = [LEVEL[t] for t in before if t in LEVEL]
    level = max(levels) if levels else 0
    quiet = "quiet" in S
    outcome, node, sinfo = G.select(tree, line)
    info = {"switches": sorted(S), "selected": node.id if node is not None else outcome,
            "tail_switches": [t for t in after if t in SPELLING_OF]}
    fails = []
    prefix = "" if S or not info["tail_switches"] else "after-dashdash|"

    def fail(sig, what):
        fails.append((prefix + sig, what))

    if r.raised is not None:
        if isinstance(r.raised, G.ReadBudgetExceeded):
            fail("hang|input-read-for-ever", "run kept reading the input: %r" % (r.raised,))
        else:
            fail("leak|%s|%s" % (type(r.raised).__name__, "+".join(sorted(S)) or "no-switch"), "run raised %r" % (r.raised,))
        return info, fails
    if not (isinstance(r.status, int) and not isinstance(r.status, bool) and 0 <= r.status <= 255):
        fail("status-range", "run returned %r" % (r.status,))
        return info, fails
    if outcome != "command" and "help" not in S:
        raise AssertionError("harness: generated line is not valid for its tree: %r %r %r" % (line, outcome, sinfo))

    printed = r.out + r.err
    calls = rec.ids()

    # ---- quiet
    if quiet and printed != "":
        what = ("help" if "help" in S else "version" if "version" in S else
                "error-report" if behaviour == "raise" and BOOM in printed else
                "prompt" if behaviour == "ask" else "handler-output")
        fail("quiet|output-not-suppressed|%s|%s" % (what, "stdout" if r.out else "stderr"),
             "quiet run printed %r / %r" % (r.out[:120], r.err[:120]))

    # ---- ANSI
    if "no-ansi" in S or "ansi" not in S:
        if ESC in printed:
            fail("ansi|escape-%s" % ("under-no-ansi" if "no-ansi" in S else "without-switch"),
                 "escape sequence in the output: %r" % (printed[:160],))
    elif not quiet:
        for sname, text in (("stdout", r.out), ("stderr", r.err)):
            if text.strip() and ESC + "[" not in text:
                fail("ansi|no-decoration-under-ansi|%s" % sname, "--ansi given, %s has no escape sequence: %r" % (sname, text[:160]))

    # ---- help / version
    if "help" in S:
        if calls:
            fail("help|handler-invoked", "help switch given, handlers %r ran" % (calls,))
        if r.status != 0:
            fail("help|status", "help switch given, status %r" % (r.status,))
        if not quiet:
            shows_version = DISPLAY_NAME in r.out and VERSION in r.out and "USAGE" not in r.out
            if "version" in S and shows_version:
                pass
            elif "USAGE" not in strip_escapes(r.out):
                fail("help|no-help-printed", "help switch given, stdout is %r" % (r.out[:200],))
            elif outcome != "command" or node is None or dangling_value_option(before):
                # (the line could not run as it stands -- a required argument, or the value of an option that requires
                #  one, is missing: which default sub-command "can parse the line" is then moot, any help page will do)
                pass
            elif sinfo["followed"] == len(path) and not node.builtin:
                text = strip_escapes(r.out)
                if "HELPMARK-%s-END" % node.id not in text:
                    fail("help|not-the-commands-help", "help switch after the path %r: the page does not describe %s: %r"
                         % (path, node.full_name(), text[:300]))
                else:
                    foreign = [n.id for n in tree.walk_nodes() if not n.builtin and ("HELPMARK-%s-END" % n.id) in text
                               and node not in n.chain()]
                    if foreign:
                        fail("help|other-commands-help", "help page for %s also describes %r" % (node.full_name(), foreign))
        return info, fails
    if "version" in S:
        if calls:
            fail("version|handler-invoked", "version switch given, handlers %r ran" % (calls,))
        if r.status != 0:
            fail("version|status", "version switch given, status %r" % (r.status,))
        if not quiet and not (DISPLAY_NAME in r.out and VERSION in r.out):
            fail("version|not-printed", "version switch given, stdout is %r" % (r.out[:200],))
        return info, fails

    # ---- an ordinary run: who ran, what it saw
    want = [] if node.builtin else [node.id]
    if calls != want:
        fail("calls|%s" % ("none" if not calls else "other" if len(calls) == 1 else "several"),
             "handlers invoked %r, expected %r (%s)" % (calls, want, node.full_name()))
        return info, fails
    if node.builtin:
        if r.status != 0:
            fail("builtin-help|status", "the default (help) command returned %r" % (r.status,))
        return info, fails
    seen = rec.calls[0].seen
    if seen["quiet"] != quiet:
        fail("quiet|io-state", "handler saw is_quiet()=%r with switches %r" % (seen["quiet"], sorted(S)))
    if seen["verbosity"] != level or (seen["verbose"], seen["very_verbose"], seen["debug"]) != (level >= 1, level >= 2, level >= 4):
        fail("verbosity|io-state|%s" % "+".join(t for t in before if t in LEVEL),
             "handler saw verbosity %r, expected %r" % (seen["verbosity"], level))
    if seen["interactive"] != ("no-interaction" not in S):
        fail("interaction|io-state", "handler saw is_interactive()=%r with switches %r" % (seen["interactive"], sorted(S)))
    if behaviour == "ask" and ("answer" not in seen or "confirmed" not in seen):
        # the handler did not get as far as recording its answers (a question raised): an observation, not a harness error
        fail("interaction|question-failed", "the asking handler recorded no answers (status %r, stderr %r)" % (r.status, r.err[-160:]))
    elif behaviour == "ask":
        if "no-interaction" in S:
            if (seen["answer"], seen["confirmed"]) != ("DFLT", False):
                fail("interaction|question-not-default", "non-interactive run: answers %r, %r" % (seen["answer"], seen["confirmed"]))
            if not r.err == "" and not quiet:
                fail("interaction|prompt-printed", "non-interactive run printed a prompt: %r" % (r.err[:120],))
        elif (seen["answer"], seen["confirmed"]) != ("typed", True):
            fail("interaction|typed-answer-lost", "interactive run: answers %r, %r" % (seen["answer"], seen["confirmed"]))
        if r.status != 0:
            fail("status|ask", "status %r" % (r.status,))
    else:
        if not quiet:
            out_lines = [l for l in strip_escapes(r.out).split("\n")]
            err_lines = [l for l in strip_escapes(r.err).split("\n") if l != ""]
            want_err = level_lines("ERR", level)
            want_out = level_lines("OUT", level)
            if err_lines != want_err:
                fail("verbosity|lines|stderr|%s" % "+".join(t for t in before if t in LEVEL),
                     "stderr lines %r, expected %r" % (err_lines, want_err))
            got_out = [l for l in out_lines if l.startswith("OUT-")]
            if got_out != want_out:
                fail("verbosity|lines|stdout|%s" % "+".join(t for t in before if t in LEVEL),
                     "stdout lines %r, expected %r" % (got_out, want_out))
            if behaviour == "write" and [l for l in out_lines if l != ""] != want_out:
                fail("output|extra-lines", "stdout %r, expected exactly %r" % (out_lines, want_out))
        if behaviour == "write" and r.status != 0:
            fail("status|write", "status %r" % (r.status,))
        if behaviour == "raise":
            if r.status == 0:
                fail("status|raise", "handler raised, status 0")
            if not quiet and BOOM not in printed:
                fail("report|missing", "handler raised, no report: %r" % (printed[:200],))
    return info, fails


def evaluate_invalid(tree_json, line):
    """lines that end in a library error (unknown command / option): only the clauses about what is printed"""
    tree = G.Tree.from_json(tree_json).with_builtin_help()
    app, rec, cfgs = G.build_app(tree, "default", catch=True, decorate=decorate)
    r = G.run_buffered(app, line, stdin=STDIN, catch=BaseException)
    before = list(itertools.takewhile(lambda t: t != "--", line))
    S = set(SPELLING_OF[t] for t in before if t in SPELLING_OF)
    fails = []
    if r.raised is not None:
        return [("leak|%s|invalid-line" % type(r.raised).__name__, "run raised %r" % (r.raised,))]
    printed = r.out + r.err
    if rec.ids():
        fails.append(("calls|invalid-line", "handlers %r ran" % (rec.ids(),)))
    if "quiet" in S:
        if printed != "":
            fails.append(("quiet|output-not-suppressed|library-error-report|%s" % ("stdout" if r.out else "stderr"),
                          "quiet run printed %r / %r" % (r.out[:120], r.err[:120])))
    elif printed.strip() == "":
        fails.append(("report|missing|invalid-line", "nothing printed, status %r" % (r.status,)))
    elif "no-ansi" in S or "ansi" not in S:
        if ESC in printed:
            fails.append(("ansi|escape-%s|library-error-report" % ("under-no-ansi" if "no-ansi" in S else "without-switch"),
                          "escape sequence in %r" % (printed[:160],)))
    elif ESC + "[" not in printed:
        fails.append(("ansi|no-decoration-under-ansi|library-error-report", "--ansi given, no escape sequence in %r" % (printed[:160],)))
    return fails


# ------------------------------------------------------------------------------ generators
def base_lines(rng, tree, limit):
    """valid command lines of `tree`: (path tokens, rest tokens before '--', tail tokens or None); the first one is
    the empty line"""
    nodes = [n for n in tree.walk_nodes() if n.enabled() and not any(a.anonymous for a in n.chain())]
    rng.shuffle(nodes)
    out = [([], [], None)]  # no command at all: the application's default command
    rests = ([], ["x"], ["--opt"], ["x", "--val=1", "zz"], ["-o", "x"])
    tails = (None, None, [], ["x"], ["zz", "x"])
    for i, n in enumerate(nodes[:limit]):
        path = [rng.choice(m.spellings()) if i % 2 else m.name for m in n.chain()]
        out.append((path, list(rests[i % len(rests)]), tails[i % len(tails)]))
    return out


def assemble(path, rest, tail, inserts, tail_inserts=()):
    """inserts: [(slot, token)] with slot in 0..len(path+rest), applied in the given order: a later insert at the same
    slot stands after the earlier one; tail_inserts: [(slot, token)] into the tail (creates the '--' if absent)"""
    before = list(path) + list(rest)
    slots = [[] for _ in range(len(before) + 1)]
    for slot, tok in inserts:
        slots[slot].append(tok)
    line = []
    for i in range(len(before) + 1):
        line.extend(slots[i])
        if i < len(before):
            line.append(before[i])
    if tail is not None or tail_inserts:
        t = list(tail or [])
        tslots = [[] for _ in range(len(t) + 1)]
        for slot, tok in tail_inserts:
            tslots[min(slot, len(t))].append(tok)
        line.append("--")
        for i in range(len(t) + 1):
            line.extend(tslots[i])
            if i < len(t):
                line.append(t[i])
    return line


def spelled_subsets():
    """every subset of the seven switches, each member in each of its spellings: 3*4*2*2*3*3*3 = 1296"""
    choices = [(None,) + sps for _, sps in SWITCHES]
    for combo in itertools.product(*choices):
        yield [sp for sp in combo if sp is not None]


# ------------------------------------------------------------------------------ the checks
def bounded(ctx):
    old_columns = os.environ.get("COLUMNS")
    os.environ["COLUMNS"] = "120"
    from clikit.ui.components.question import Question
    old_stty = Question.__dict__.get("_has_stty_available")
    Question._has_stty_available = lambda self: False
    try:
        _bounded(ctx)
    finally:
        if old_columns is None:
            os.environ.pop("COLUMNS", None)
        else:
            os.environ["COLUMNS"] = old_columns
        if old_stty is not None:
            Question._has_stty_available = old_stty


def _bounded(ctx):
    rng = ctx.rng
    rep = G.Reporter(ctx)

    def trees(n):
        out = []
        while len(out) < n:
            t = G.random_tree(rng, permissive=True, p_disabled=0.1)
            if any(m.enabled() and not any(a.anonymous for a in m.chain()) and len(m.chain()) >= 2 for m in t.walk_nodes()):
                out.append(t)
        return out

    def run_case(tree, line, path, behaviour, warm=False):
        info, fails = evaluate(tree.to_json(), line, path, behaviour, warm)
        has_switch = any(t in SPELLING_OF for t in line)
        ctx.case([tree.to_json(), line, path, behaviour, warm], nontrivial=has_switch,
                 sample={"line": line, "behaviour": behaviour, "switches": info["switches"]})
        for sig, what in fails:
            rep.fail(("after-a-run-on-a-terminal|" if warm else "") + sig, "%s [%s]: %s" % (" ".join(line), behaviour, what),
                     {"tree": tree.to_json(), "line": line, "path": path, "behaviour": behaviour, "warm": warm})

    # ---- 1. one switch, every spelling, every slot (before '--' and in the tail), every behaviour
    n_trees, n_lines = (3, 4) if ctx.quick else (40, 8)
    ctx.check("single_switch_every_slot",
              "%d seeded trees (depth<=3, fan-out<=3, aliases, default/anonymous/hidden/disabled; every command takes any "
              "number of arguments) x up to %d valid lines each (path by names or aliases + words / --opt / --val=1 + "
              "optional '--' tail) x the 13 spellings of the 7 switches x every insertion slot among the tokens before "
              "'--' and every slot of the tail x 3 handler behaviours (write at 4 levels to both streams / ask 2 "
              "questions / write and raise); plus the switch-free baseline of every line" % (n_trees, n_lines))
    for tree in trees(n_trees):
        for path, rest, tail in base_lines(rng, tree, n_lines):
            for behaviour in BEHAVIOURS:
                run_case(tree, assemble(path, rest, tail, []), path, behaviour)
                for sp in ALL_SPELLINGS:
                    for slot in range(len(path) + len(rest) + 1):
                        run_case(tree, assemble(path, rest, tail, [(slot, sp)]), path, behaviour)
                    for slot in range(len(tail or []) + 1):
                        run_case(tree, assemble(path, rest, tail, [], [(slot, sp)]), path, behaviour)
        if ctx.out_of_time():
            break
    ctx.done(exhaustive=True, note=("all spellings x all slots for the sampled trees/lines. " + rep.note()).strip())

    # ---- 1b. the help switch after a command path that could not be run as it stands (a required argument is missing,
    #          on the command or on its default sub-command): still that command's help page and status 0
    n_req = 12 if ctx.quick else 120
    ctx.check("help_switch_missing_arguments",
              "%d seeded trees whose commands take required / typed arguments (not permissive) x every enabled named command x "
              "the path alone (names or aliases) followed by -h / --help, also with another switch in front: status 0, no "
              "handler runs, the page of the command the path selects" % n_req)
    done = 0
    while done < n_req and not ctx.out_of_time():
        t = G.random_tree(rng, permissive=False, p_default=0.6, p_disabled=0.05)
        nodes = [n for n in t.walk_nodes() if n.enabled() and not any(a.anonymous for a in n.chain())]
        if not any(n.arity in ("1", "+") or any(c.default and c.arity in ("1", "+") for c in n.children) for n in nodes):
            continue
        done += 1
        for i, n in enumerate(nodes[:6]):
            path = [rng.choice(m.spellings()) if i % 2 else m.name for m in n.chain()]
            # (also: the help switch directly behind an option that requires a value, and behind a flag written with a value)
            for extra in ([], ["-v"], ["--no-ansi"], ["--val"], ["-w"], ["--opt=1"]):
                for sp in ("-h", "--help"):
                    run_case(t, path + extra + [sp], path, "write")
    ctx.done(exhaustive=False, note=rep.note())

    # ---- 2. ordered pairs of spellings of different switches
    pairs = [(a, b) for a in ALL_SPELLINGS for b in ALL_SPELLINGS if SPELLING_OF[a] != SPELLING_OF[b]]
    n_trees = 2 if ctx.quick else 6
    ctx.check("switch_pairs",
              "all %d ordered pairs of spellings of two different switches x %d trees x 2 lines x %s x "
              "behaviour rotating; additionally each pair with the first member before and the second after '--'"
              % (len(pairs), n_trees, "3 seeded slot pairs" if ctx.quick else "all slot pairs (slot1 <= slot2)"))
    k = 0
    for tree in trees(n_trees):
        for path, rest, tail in base_lines(rng, tree, 2):
            nslots = len(path) + len(rest) + 1
            all_slot_pairs = [(i, j) for i in range(nslots) for j in range(i, nslots)]
            for a, b in pairs:
                slot_pairs = all_slot_pairs if not ctx.quick else rng.sample(all_slot_pairs, min(3, len(all_slot_pairs)))
                for i, j in slot_pairs:
                    k += 1
                    run_case(tree, assemble(path, rest, tail, [(i, a), (j, b)]), path, BEHAVIOURS[k % 3])
                k += 1
                run_case(tree, assemble(path, rest, tail, [(rng.randrange(nslots), a)], [(0, b)]), path, BEHAVIOURS[k % 3])
        if ctx.out_of_time():
            break
    ctx.done(exhaustive=not ctx.quick, note=rep.note())

    # ---- 2b. one switch on an application that has served a switch-free run on a terminal before
    ctx.check("single_switch_after_a_terminal_run",
              "2 seeded trees x up to 3 valid lines x the 13 spellings at one seeded slot x 3 behaviours, on an application "
              "object that has just run the same line without switches on streams with ANSI support: the switches of the "
              "second run (on plain buffers) act as on a new application")
    for tree in trees(2):
        for path, rest, tail in base_lines(rng, tree, 3):
            for bi, behaviour in enumerate(BEHAVIOURS):
                for sp in ALL_SPELLINGS:
                    run_case(tree, assemble(path, rest, tail, [(rng.randrange(len(path) + len(rest) + 1), sp)]), path, behaviour, warm=True)
        if ctx.out_of_time():
            break
    ctx.done(exhaustive=False, note=rep.note())

    # ---- 3. all spelled subsets, orders and positions
    subsets = list(spelled_subsets())
    n_orders = 2 if ctx.quick else 16
    pool = trees(3 if ctx.quick else 12)
    lines_pool = [(t, bl) for t in pool for bl in base_lines(rng, t, 4)]
    ctx.check("switch_subsets_orders",
              "all 1296 subsets of the 7 switches in every combination of spellings x %d seeded (order, slots) "
              "arrangements each%s, on %d (tree, line) pairs and the 3 behaviours in rotation; in every 3rd arrangement a "
              "random further set of switch tokens is placed after '--' as well"
              % (n_orders, "" if ctx.quick else " + every order of every subset of size <= 3 at one seeded slot assignment", len(lines_pool)))
    k = 0
    for sub in subsets:
        arrangements = []
        for _ in range(n_orders):
            order = list(sub)
            rng.shuffle(order)
            arrangements.append(order)
        if not ctx.quick and 2 <= len(sub) <= 3:
            arrangements.extend(list(p) for p in itertools.permutations(sub))
        for order in arrangements:
            k += 1
            tree, (path, rest, tail) = lines_pool[k % len(lines_pool)]
            nslots = len(path) + len(rest) + 1
            slots = sorted(rng.randrange(nslots) for _ in order)
            tail_ins = []
            if k % 3 == 0:
                tail_ins = [(rng.randrange(3), sp) for sp in rng.sample(ALL_SPELLINGS, rng.randint(1, 4))]
            run_case(tree, assemble(path, rest, tail, list(zip(slots, order)), tail_ins), path, BEHAVIOURS[k % 3])
        if ctx.out_of_time():
            break
    ctx.done(exhaustive=False, note=("every spelled subset is visited; orders and slots are seeded samples. " + rep.note()).strip())

    # ---- 4. the same tokens after '--' only
    ctx.check("inert_after_double_dash",
              "all 1296 spelled subsets placed (seeded order and slots) only after '--' x 1 (tree, line) pair each "
              "(rotating over %d) x behaviour rotating: the run must be the switch-free run" % len(lines_pool))
    k = 0
    for sub in subsets:
        if not sub:
            continue
        k += 1
        order = list(sub)
        rng.shuffle(order)
        tree, (path, rest, tail) = lines_pool[k % len(lines_pool)]
        tail_ins = [(rng.randrange(len(tail or []) + 1), sp) for sp in order]
        run_case(tree, assemble(path, rest, tail, [], tail_ins), path, BEHAVIOURS[k % 3])
    ctx.done(exhaustive=True, note=rep.note())

    # ---- 5. several verbosity spellings at once
    combos = [list(p) for n in (1, 2, 3) for p in itertools.permutations(("-v", "-vv", "-vvv"), n)]
    ctx.check("verbosity_combinations",
              "all 15 ordered selections of 1..3 of '-v', '-vv', '-vvv' x %d (tree, line) pairs x 3 seeded slot assignments "
              "x behaviours write/raise: the highest level given applies (DESIGN C09.create_io.post)" % min(6, len(lines_pool)))
    for tree, (path, rest, tail) in lines_pool[:6]:
        nslots = len(path) + len(rest) + 1
        for combo in combos:
            for rnd in range(3):
                slots = sorted(rng.randrange(len(path), nslots) for _ in combo)
                run_case(tree, assemble(path, rest, tail, list(zip(slots, combo))), path, ("write", "raise")[rnd % 2])
    ctx.done(exhaustive=False, note=rep.note())


    # ---- 6. reports of the library's own errors obey quiet / ansi too
    ctx.check("switches_on_library_error_reports",
              "%d (tree, line) pairs x 3 ways of making the line invalid (unknown first word, unknown word then the path, "
              "unknown option after the path) x {-q, --quiet, --ansi, --no-ansi, none} x every slot after the offending "
              "token and before '--', and once after '--': quiet leaves both streams empty, --no-ansi / no switch print "
              "a report without escape bytes, --ansi one with" % min(8, len(lines_pool)))
    for tree, (path, rest, tail) in lines_pool[:8]:
        if not path:
            continue
        for bad, first in ((["zz"] + rest, 1), (["zz"] + path + rest, 1), (path + ["--nope"] + rest, len(path) + 1)):
            for sp in ("-q", "--quiet", "--ansi", "--no-ansi", None):
                variants = []
                if sp is None:
                    variants.append(assemble(bad, [], tail, []))
                else:
                    variants.extend(assemble(bad, [], tail, [(slot, sp)]) for slot in range(first, len(bad) + 1))
                    variants.append(assemble(bad, [], tail, [], [(0, sp)]))
                for line in variants:
                    ctx.case([tree.to_json(), line], nontrivial=sp is not None)
                    for sig, what in evaluate_invalid(tree.to_json(), line):
                        rep.fail(sig, "%s: %s" % (" ".join(line), what), {"tree": tree.to_json(), "line": line, "invalid": True})
    ctx.done(exhaustive=True, note=rep.note())


# ------------------------------------------------------------------------------ replay
def replay_bounded(check_id, failure):
    w = failure.get("witness") or {}
    old_columns = os.environ.get("COLUMNS")
    os.environ["COLUMNS"] = "120"
    try:
        if w.get("invalid"):
            info, fails = {}, evaluate_invalid(w["tree"], w["line"])
        else:
            info, fails = evaluate(w["tree"], w["line"], w["path"], w["behaviour"], bool(w.get("warm")))
    finally:
        if old_columns is None:
            os.environ.pop("COLUMNS", None)
        else:
            os.environ["COLUMNS"] = old_columns
    return {"fails": bool(fails), "detail": "; ".join("%s: %s" % f for f in fails) or "behaves as specified: %r" % (info,)}
