"""C10 -- quiet and verbosity gate every write path identically."""
import ast

from pyvc import frontend
from pyvc.contracts import REG as R
from . import io_contracts as ioc

PROP = "C10"
LEVEL = "proof"
EXPLANATION = (
    "Every method of Output / SectionOutput / IO from which the stream's write() is reachable (found by AST "
    "reflection on the working tree) is verified against the gate contract `wrote <=> not quiet and verbosity >= "
    "min_level(flags)` for ALL integers flags (and None), all verbosities of the type invariant and both values of "
    "quiet; the monotonicity consequence is a lemma over those contracts.  The exhaustive table of the property "
    "(methods x verbosity x flags 0..7/None x quiet x ANSI/plain x stream kinds) runs on the real objects as the "
    "bounded companion."
)

WRITE_CLASSES = {
    "Output": ioc.M_OUT,
    "SectionOutput": ioc.M_SEC,
    "IO": ioc.M_IO,
}


KNOWN_WRITE_METHODS = {
    "Output": ["write", "write_line", "write_line_raw", "write_raw"],
    "SectionOutput": ["_pop_stream_content_until_current_section", "clear", "overwrite", "write"],
    "IO": ["error", "error_line", "error_line_raw", "error_raw", "write", "write_line", "write_line_raw", "write_raw"],
}


def reflect_write_methods(P=None):
    """methods from which self._stream.write is reachable through self-calls / delegation to an output"""
    P = P or frontend.Program()
    found = {}
    for cname, mod in WRITE_CLASSES.items():
        ci = P.module(mod).classes.get(cname)
        if ci is None:
            continue
        direct = set()
        calls = {}
        for m, fn in ci.methods.items():
            calls[m] = set()
            for node in ast.walk(fn):
                if isinstance(node, ast.Call) and isinstance(node.func, ast.Attribute):
                    tgt = ast.unparse(node.func)
                    if tgt == "self._stream.write":
                        direct.add(m)
                    elif tgt.startswith("self._output.") or tgt.startswith("self._error_output."):
                        if node.func.attr in ("write", "write_line", "write_raw", "write_line_raw"):
                            direct.add(m)
                    elif tgt.startswith("self.") and tgt.count(".") == 1:
                        calls[m].add(node.func.attr)
                    elif isinstance(node.func.value, ast.Call) and getattr(node.func.value.func, "id", "") == "super":
                        if node.func.attr in ("write", "write_line", "write_raw", "write_line_raw", "clear"):
                            direct.add(m)
        reach = set(direct)
        changed = True
        while changed:
            changed = False
            for m, cs in calls.items():
                if m not in reach and cs & reach:
                    reach.add(m)
                    changed = True
        # the write methods known on the reference tree stay in the set whatever their bodies call now: a method that
        # no longer reaches the stream is exactly what the gate contract ("the text reaches the stream iff ...") must see
        reach |= set(m for m in KNOWN_WRITE_METHODS.get(cname, ()) if m in ci.methods)
        found[cname] = sorted(reach)
    return found


def _targets():
    ts = []
    refl = reflect_write_methods()
    for cname, meths in refl.items():
        for m in meths:
            q = "%s:%s.%s" % (WRITE_CLASSES[cname], cname, m)
            ts.append({"qual": q})
    # inherited line methods on a section output dispatch to SectionOutput.write
    for m in ("write_line",):
        ts.append({"qual": "%s:Output.%s" % (ioc.M_OUT, m), "self_cls": "SectionOutput"})
    ts.append({"qual": ioc.M_OUT + ":Output._may_write"})
    return ts


TARGETS = _targets()

R.lemma(
    "monotone",
    [("q1", "bool"), ("q2", "bool"), ("v1", "int"), ("v2", "int"), ("flags", "int")],
    ["v1 in (0, 1, 2, 4)", "v2 in (0, 1, 2, 4)", "v2 >= v1", "implies(q2, q1)"],
    "implies(gate(q1, v1, flags), gate(q2, v2, flags))",
    note="raising the verbosity or leaving quiet mode never removes anything that was shown",
)
LEMMAS = ["monotone"]

# ------------------------------------------------------------------ bounded companion (exhaustive table)
BOUNDED_RULE = ("exhaustive table: reflected write methods x verbosity {0,1,2,4} x flags {None,0..7} x quiet x "
                "{ANSI forced, plain} x {output, error output, section output, section error output, IO, section IO}; "
                "a case is non-trivial when the gate depends on verbosity or quiet (flags & 7 != 0 or quiet)")


def _min_level(flags):
    if not flags:
        return 0
    if flags & 1:
        return 1
    if flags & 2:
        return 2
    if flags & 4:
        return 4
    return 0


def _expected(quiet, verbosity, flags):
    return (not quiet) and verbosity >= _min_level(flags)


FLAGS_SECOND_POSITIONAL = {"write", "write_line", "write_raw", "write_line_raw", "error", "error_line", "error_raw", "error_line_raw"}


def bounded(ctx):
    import inspect
    from clikit.api.io import IO, Output
    from clikit.api.io.section_output import SectionOutput
    from clikit.formatter import AnsiFormatter, PlainFormatter
    from clikit.io import BufferedIO
    from clikit.io.output_stream import BufferedOutputStream

    refl = reflect_write_methods()
    ctx.check("gate_table", "all reflected write methods x verbosity x flags None,0..7 x quiet x ANSI/plain x object kinds x the order in which verbosity and quiet were set")
    TEXT = "MARK"

    def make(kind, ansi):
        fmt = AnsiFormatter(forced=True) if ansi else PlainFormatter()
        io = BufferedIO(formatter=fmt)
        if kind == "output":
            return io.output, [io.output.stream]
        if kind == "error_output":
            return io.error_output, [io.error_output.stream]
        if kind == "section":
            io.output.section()  # an older section above
            s = io.output.section()
            return s, [io.output.stream]
        if kind == "section_of_quiet_output":
            # a section has a gate of its own: created while its output is quiet (and left quiet), it still writes to the
            # stream of that output whenever ITS gate is open
            io.output.section()
            io.output.set_quiet(True)
            s = io.output.section()
            return s, [io.output.stream]
        if kind == "io":
            return io, [io.output.stream, io.error_output.stream]
        if kind == "section_io":
            s = io.section()
            return s, [io.output.stream, io.error_output.stream]
        raise ValueError(kind)

    def methods_of(obj):
        names = set()
        for cname, ms in refl.items():
            cls = {"Output": Output, "SectionOutput": SectionOutput, "IO": IO}[cname]
            if isinstance(obj, cls):
                names.update(ms)
        return sorted(n for n in names if n != "_may_write")

    for kind in ("output", "error_output", "section", "section_of_quiet_output", "io", "section_io"):
        for ansi in (False, True):
            probe, _ = make(kind, ansi)
            for m in methods_of(probe):
                sig = inspect.signature(getattr(probe, m))
                has_flags = "flags" in sig.parameters
                text_param = [p for p in sig.parameters if p in ("string", "message")]
                for verbosity in (0, 1, 2, 4):
                    for quiet in (False, True):
                        for flags in ([None] + list(range(8))) if has_flags else [None]:
                          for order in ("vq", "qv"):
                            obj, streams = make(kind, ansi)
                            # (the state is reached by the setters in either order: verbosity then quiet, quiet then verbosity)
                            if order == "vq":
                                obj.set_verbosity(verbosity)
                                obj.set_quiet(quiet)
                            else:
                                obj.set_quiet(quiet)
                                obj.set_verbosity(verbosity)
                            # something to erase for the control-only paths
                            if isinstance(obj, SectionOutput):
                                was_q = obj.is_quiet()
                                obj.set_quiet(False)
                                obj.write_line("prior")
                                obj.set_quiet(was_q)
                            for s in streams:
                                s.clear()
                            kwargs = {}
                            args = []
                            if text_param:
                                args.append(TEXT)
                            if m == "_pop_stream_content_until_current_section":
                                args = [1]
                            if has_flags:
                                # every text-carrying write method takes the flag word as its SECOND parameter (the signature
                                # on the reference tree): callers pass it by position as well as by keyword
                                if order == "qv" and text_param and m in FLAGS_SECOND_POSITIONAL:
                                    args.append(flags)
                                else:
                                    kwargs["flags"] = flags
                            key = [kind, ansi, m, verbosity, quiet, flags, order]
                            try:
                                getattr(obj, m)(*args, **kwargs)
                            except Exception as e:  # a write path must not fail
                                ctx.case(key)
                                ctx.fail("gate_table|%s.%s|raises" % (kind, m), "write method raised %r" % (e,), key)
                                continue
                            wrote = any(s.fetch() != "" for s in streams)
                            exp = _expected(quiet, verbosity, flags)
                            ctx.case(key, nontrivial=bool(quiet or (flags or 0) & 7))
                            if text_param:
                                if wrote != exp:
                                    ctx.fail("gate_table|%s.%s" % (kind, m),
                                             "%s.%s(flags=%r) at verbosity %d quiet=%s ansi=%s: wrote=%s, gate says %s" % (
                                                 kind, m, flags, verbosity, quiet, ansi, wrote, exp), key)
                            else:
                                if wrote and quiet:
                                    ctx.fail("gate_table|%s.%s" % (kind, m),
                                             "%s.%s wrote on a quiet output (ansi=%s)" % (kind, m, ansi), key)
    ctx.done(exhaustive=True)

LEVEL_TEXT = ("proof: every reflected write method is verified against the gate contract for all integers `flags` (and "
              "None), all valid verbosities and both quiet values; the exhaustive table of the property runs as bounded companion")
LEVEL_NOTE = ("assumes: abstract OutputStream.write appends to a ghost log and raises nothing; Formatter.format/"
              "remove_format are functions of (formatter, text); SectionOutput.add_content only through its frame; "
              "the indentation expression of Output.write is an arbitrary string; type invariant verbosity in {0,1,2,4}")
