"""C11 -- see DESIGN.md section 5.  Deductive targets are added below the bounded import."""
PROP = "C11"
LEVEL = 'proof'
EXPLANATION = ('Deductive: every line-writing method of Output / IO / SectionOutput emits a payload ending in exactly the newline asked for (raw variants: exactly one), decorated outputs go through format and undecorated ones through remove_format, a plain section degrades to a plain write of the same kind (overwrite included) -- for all flags, verbosities and texts; whenever an indentation is in force and asked for, the text that is formatted is indented(width, text) (the indentation expression as an uninterpreted function of width and text); the constructor of Output classifies an output as undecorated whenever its formatter disables ANSI or neither stream nor formatter provide it, and as decorated otherwise; AnsiFormatter.format leaves the style stack of pastel at the depth it found, add_style (re)defines the style of its tag.  Bounded: message grammar x three renderings (decorated stripped == plain == tag-stripped), exhaustive style codes through the three ways of supplying a style, indent scope nestings with normal and exceptional exits.')
LEVEL_NOTE = ('assumes: abstract stream and formatter contracts (write appends, format/remove_format are functions of formatter and text); the indentation expression of Output.write is an uninterpreted function of width and text (what it prepends is bounded); the post-processing of decorated text by a compiled pattern is an arbitrary string computed from that text; pastel is external: decorated == plain and SGR codes are bounded only; indent scopes bounded only')
from . import io_contracts as ioc
TARGETS = [ioc.M_OUT + ":Output." + m for m in ("write", "write_line", "write_raw", "write_line_raw")]
TARGETS += [ioc.M_IO + ":IO." + m for m in ("write_line", "write_line_raw", "error_line", "error_line_raw")]
TARGETS += [ioc.M_SEC + ":SectionOutput.write", ioc.M_SEC + ":SectionOutput.clear", {"qual": ioc.M_OUT + ":Output.write_line", "self_cls": "SectionOutput"}]
from . import style_contracts as sc
TARGETS += [sc.M_SC + ":StyleConverter.convert", sc.ANSI_FORMAT_STACK, sc.ADD_STYLE]
TARGETS += [ioc.OUTPUT_INIT, ioc.M_SEC + ":SectionOutput.overwrite"]
for _n in (1, 2):
    TARGETS += [{"qual": ioc.M_IND + ":Indent.__init__", "tag": "n%d" % _n},
                {"qual": ioc.M_IND + ":Indent.__exit__", "tag": "n%d" % _n}]
LEMMAS = []
try:
    from .C11_bounded import bounded, BOUNDED_RULE  # noqa: F401
    try:
        from .C11_bounded import replay_bounded  # noqa: F401
    except ImportError:
        pass
except ImportError:
    pass


def structural():
    """the formatters, the style classes and the converter to pastel styles keep no module- or class-level object that their
    code mutates: how a style is rendered cannot depend on what was rendered (or converted) before"""
    from pyvc import frontend, structural as st
    P = frontend.Program()
    bad = []
    for mod in ("clikit.adapter.style_converter", "clikit.formatter.ansi_formatter", "clikit.formatter.plain_formatter",
                "clikit.formatter.null_formatter", "clikit.formatter.default_style_set", "clikit.api.formatter.style",
                "clikit.api.formatter.style_set", "clikit.api.formatter.formatter"):
        try:
            mi = P.module(mod)
        except Exception as e:  # noqa
            bad.append("%s: cannot be read (%r)" % (mod, e))
            continue
        bad += ["%s: %s" % (mod, f) for f in st.shared_mutable_state(mi)]
    return [{
        "name": "C11.formatters.frame.no_shared_state", "kind": "frame",
        "text": "the formatter, style and style-converter modules hold no module- or class-level object that their code mutates "
                "or re-binds",
        "status": "proved" if not bad else "failed", "note": "; ".join(bad[:6]),
    }]
