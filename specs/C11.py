"""C11 -- see DESIGN.md section 5.  Deductive targets are added below the bounded import."""
PROP = "C11"
LEVEL = "other"
EXPLANATION = 'bounded stand-in: message grammar x three renderings, exhaustive style codes, line methods, indent scope nestings; newline/branch obligations of the write methods are proved under the shared I/O contracts'
from . import io_contracts as ioc
TARGETS = [ioc.M_OUT + ":Output." + m for m in ("write", "write_line", "write_raw", "write_line_raw")]
TARGETS += [ioc.M_IO + ":IO." + m for m in ("write_line", "write_line_raw", "error_line", "error_line_raw")]
TARGETS += [ioc.M_SEC + ":SectionOutput.write", {"qual": ioc.M_OUT + ":Output.write_line", "self_cls": "SectionOutput"}]
LEMMAS = []
try:
    from .C11_bounded import bounded, BOUNDED_RULE  # noqa: F401
    try:
        from .C11_bounded import replay_bounded  # noqa: F401
    except ImportError:
        pass
except ImportError:
    pass
