# -*- coding: utf-8 -*-
"""C11 bounded tier: decoration changes only the look.

Four checks on the real code (pastel is external and used as shipped):

  renderings     messages from a tag grammar: ANSI rendering minus SGR == plain rendering == remove_format ==
                 the text of the message with its style tags taken out; undecorated outputs emit neither an
                 escape byte nor style markup
  style_codes    every style (10 fg x 10 bg x 2^7 attribute sets) through the three ways of supplying a style:
                 the emitted SGR parameters are exactly the expected code list
  line_newline   every line-writing method in ANSI and plain mode: payload == text + exactly one newline
  indent_scopes  all nestings of indent / increment_indent scopes at I/O and output level, left normally or by an
                 exception: every non-empty line carries exactly the indentation in force, the old indentation is
                 back after each scope

Oracles are written from the property statement (properties.jsonl C11, DESIGN.md section 5 "C11"):
  * the tag-stripped text of a message is computed from the AST the message was generated from (text leaves and
    unknown tags are text, registered and inline style tags are markup) -- no clikit/pastel code is involved;
  * expected SGR codes are the ECMA-48 numbers named in the property: foreground 30..37 (black, red, green,
    yellow, blue, magenta, cyan, white/light grey) and 39 (default), background 40..47 and 49, bold 1, dark 2,
    italic 3, underline 4, blink 5, reverse 7, conceal 8.  The colour *names* are the ones the underlying pastel
    package accepts ("light_gray" is its name of colour 7); the table below is compared once with pastel's own
    tables when the check starts (a mismatch is reported as `style_codes|pastel-table`).
"""
import itertools
import re

BOUNDED_RULE = (
    "renderings: a case is one message (markup string); generated from an AST of depth <= 3 with <= 4 segments per "
    "level over named styles of the default style set (closed by </tag> or </>, lower or upper case), inline styles "
    "(<fg=..;bg=..;options=..> closed by </> or the same spec), unknown tags (kept as text), text leaves with bare "
    "'<' '>' , newlines, tabs and non-ASCII; no backslash escapes; a generated string whose tag tokens (found by an "
    "independent tokenizer) are not exactly the generated tags is discarded; non-trivial = contains a registered or "
    "inline style tag around non-empty text.  style_codes: a case is (way, fg, bg, attribute set); non-trivial = the "
    "style has at least one colour or attribute.  line_newline: a case is (mode, method, text); non-trivial = "
    "non-empty text.  indent_scopes: a case is (mode, scope nesting) with scope = (kind in io.indent, "
    "io.increment_indent, output.indent, output.increment_indent; width; exit normal/exception); non-trivial = at "
    "least one scope with a width > 0."
)

ESC = "\x1b"
SGR_RE = re.compile(r"\x1b\[([0-9;]*)m")
_PER_SIG = 3


class _Recorder(object):
    """caps the failures recorded per signature so that one defect cannot crowd out the others"""

    def __init__(self, ctx):
        self.ctx = ctx
        self.counts = {}

    def fail(self, sig, what, witness):
        n = self.counts.get(sig, 0)
        self.counts[sig] = n + 1
        if n < _PER_SIG:
            self.ctx.fail(sig, what, witness)

    def note(self):
        return ("failing cases per signature: %r" % (self.counts,)) if self.counts else ""


class _Raised(object):
    """result of a call into the code under test that raised"""

    def __init__(self, exc):
        self.exc = exc

    def __repr__(self):
        return "raised %r" % (self.exc,)


def _real(fn, *a, **k):
    """call into clikit; an exception of the code under test is a finding of the check, not a checker crash"""
    try:
        return fn(*a, **k)
    except Exception as e:  # the property admits no failure of a rendering / write path
        return _Raised(e)


def strip_sgr(s):
    return SGR_RE.sub("", s)


def _mk_io(kind):
    """'plain' | 'ansi' (forced) | 'unforced' -> BufferedIO, or _Raised when the code under test cannot build it"""
    def build():
        from clikit.formatter import AnsiFormatter, PlainFormatter
        from clikit.io import BufferedIO

        if kind == "plain":
            return BufferedIO(formatter=PlainFormatter())
        if kind == "ansi":
            return BufferedIO(formatter=AnsiFormatter(forced=True))
        return BufferedIO(formatter=AnsiFormatter())

    return _real(build)


# =============================================================================== (a) messages
NAMED = ("info", "comment", "question", "error", "b", "u", "c1", "c2")  # DefaultStyleSet of clikit
INLINE = (
    "fg=red",
    "bg=blue",
    "fg=red;options=bold",
    "fg=white;bg=black;options=bold,underline",
    "options=italic",
    "fg=default;bg=default",
    "options=reverse,conceal",
    "fg=light_gray;options=blink",
)
UNKNOWN = ("foo", "h1", "fg", "infos", "b2", "options=wavy", "x=y")
TEXTS = (
    "foo", "bar baz", u"é ü 日本語", "a < b", "x > y", "1<2", ">>", "<<", "<>", "< >",
    "l1\nl2", "\n", " ", "tab\tx", "100%", "->", "<-", "<=>", u"€", "a<", ">b", "</ b>", "<1>",
)
# independent tokenizer of the documented tag syntax: <name-or-spec>, </name-or-spec>, </>
TAG_TOKEN = re.compile(r"(?<!\\)(?:</?[A-Za-z][A-Za-z0-9,_=;-]*>|</>)")
# escaped tags: a backslash makes the tag text (the backslash itself is markup)
ESCAPED = ("<b>", "</b>", "<info>", "</info>", "</>", "<fg=red>", "<foo>", "</error>")
MARKUP_LEAK = re.compile(r"(?i)</?(?:%s)>|</>|<(?:fg|bg|options)=[^<>]*>" % "|".join(NAMED))


def n_text(s):
    return ("t", s)


def n_esc(tag):
    return ("x", tag)


def n_tag(kind, name, closer, children):
    """kind: 'named' | 'inline' | 'unknown'; closer: text of the closing tag"""
    return ("g", kind, name, closer, children)


def render(nodes):
    """-> (markup, plain text, [tag tokens in order], has_styled_text)"""
    mk, pl, toks, styled = [], [], [], False
    for n in nodes:
        if n[0] == "t":
            mk.append(n[1])
            pl.append(n[1])
        elif n[0] == "x":
            mk.append("\\" + n[1])
            pl.append(n[1])
        else:
            _g, kind, name, closer, children = n
            cm, cp, ct, cs = render(children)
            opener = "<%s>" % name
            mk.append(opener + cm + closer)
            toks.append(opener)
            toks.extend(ct)
            toks.append(closer)
            if kind == "unknown":
                pl.append(opener + cp + closer)
                styled = styled or cs
            else:
                pl.append(cp)
                styled = styled or bool(cp) or cs
    return "".join(mk), "".join(pl), toks, styled


def well_formed(markup, toks):
    return TAG_TOKEN.findall(markup) == toks


def closers_of(kind, name):
    if kind == "named":
        return ["</%s>" % name, "</>"]
    if kind == "inline":
        return ["</>", "</%s>" % name]
    return ["</%s>" % name]


def gen_nodes(rng, depth):
    out = []
    for _ in range(rng.randint(1, 4)):
        if depth >= 3 or rng.random() < 0.45:
            if rng.random() < 0.12:
                out.append(n_esc(rng.choice(ESCAPED)))
            else:
                out.append(n_text(rng.choice(TEXTS)))
        else:
            x = rng.random()
            if x < 0.5:
                kind, name = "named", rng.choice(NAMED)
                if rng.random() < 0.15:
                    name = name.upper()
            elif x < 0.8:
                kind, name = "inline", rng.choice(INLINE)
            else:
                kind, name = "unknown", rng.choice(UNKNOWN)
            closer = rng.choice(closers_of(kind, name))
            children = gen_nodes(rng, depth + 1) if rng.random() < 0.92 else []
            out.append(n_tag(kind, name, closer, children))
    return out


def core_messages():
    """small exhaustive core: every tag form x every text leaf, and all named x named nestings"""
    forms = []
    for t in NAMED:
        for nm in (t, t.upper()):
            for c in closers_of("named", nm):
                forms.append(("named", nm, c))
    for s in INLINE:
        for c in closers_of("inline", s):
            forms.append(("inline", s, c))
    for u in UNKNOWN:
        forms.append(("unknown", u, "</%s>" % u))
    for kind, nm, c in forms:
        for tx in TEXTS:
            yield [n_tag(kind, nm, c, [n_text(tx)])]
            yield [n_text(tx), n_tag(kind, nm, c, [n_text("mid")]), n_text(tx)]
    for a in NAMED:
        for b in NAMED:
            yield [n_tag("named", a, "</%s>" % a, [n_text("x"), n_tag("named", b, "</%s>" % b, [n_text("y")]), n_text("z")])]
            yield [n_tag("named", a, "</>", [n_tag("named", b, "</>", [n_text("y")])])]
    for tx in TEXTS:
        yield [n_text(tx)]
    # escaped tags alone, inside every tag form, and next to text
    for e in ESCAPED:
        yield [n_esc(e)]
        yield [n_text("a "), n_esc(e), n_text(" b")]
        for kind, nm, c in forms:
            yield [n_tag(kind, nm, c, [n_text("a "), n_esc(e), n_text(" b")])]
            yield [n_tag(kind, nm, c, [n_esc(e)])]


def check_message(markup, plain):
    """-> list of (signature, what); runs the real formatters and outputs on one message"""
    from clikit.formatter import AnsiFormatter, PlainFormatter
    from clikit.api.formatter import Style

    fails = []

    def cmp(label, got, strip):
        if isinstance(got, _Raised):
            fails.append(("renderings|%s|raises" % label, "%s raised %r" % (label, got.exc)))
            return
        shown = strip_sgr(got) if strip else got
        if shown != plain:
            fails.append(("renderings|%s|text-differs" % label,
                          "%s gives %r, tag-stripped text is %r" % (label, got, plain)))
        if not strip:
            if ESC in got:
                fails.append(("renderings|%s|escape-byte" % label, "%s emitted an escape byte: %r" % (label, got)))
            if len(MARKUP_LEAK.findall(got)) > len(MARKUP_LEAK.findall(plain)):  # unknown tags are text and stay
                fails.append(("renderings|%s|markup-leak" % label, "%s emitted style markup: %r" % (label, got)))

    ansi = _real(AnsiFormatter, forced=True)
    if isinstance(ansi, _Raised):
        return [("renderings|AnsiFormatter()|raises", "constructor raised %r" % (ansi.exc,))]
    plainf = _real(PlainFormatter)
    if isinstance(plainf, _Raised):
        return [("renderings|PlainFormatter()|raises", "constructor raised %r" % (plainf.exc,))]
    first = _real(ansi.format, markup)
    cmp("AnsiFormatter.format", first, True)
    cmp("PlainFormatter.format", _real(plainf.format, markup), False)
    cmp("AnsiFormatter.remove_format", _real(ansi.remove_format, markup), False)
    cmp("PlainFormatter.remove_format", _real(plainf.remove_format, markup), False)
    # decorating again after remove_format (the colour switch must be back on)
    second = _real(ansi.format, markup)
    cmp("AnsiFormatter.format-after-remove_format", second, True)
    if not isinstance(first, _Raised) and not isinstance(second, _Raised) and first != second:
        fails.append(("renderings|AnsiFormatter.format|changes-after-remove_format",
                      "format gave %r before and %r after a remove_format call on the same formatter" % (first, second)))
    cmp("AnsiFormatter.format(style=)", _real(ansi.format, markup, Style().fg("red").bold()), True)
    # through outputs
    for label, kind, meth, fetch, strip in (
        ("plain-output.write", "plain", "write", "fetch_output", False),
        ("ansi-formatter-on-plain-stream.write", "unforced", "error", "fetch_error", False),
        ("ansi-output.write", "ansi", "write", "fetch_output", True),
    ):
        io = _mk_io(kind)
        if isinstance(io, _Raised):
            fails.append(("renderings|%s|raises" % label, "cannot build the I/O: %r" % (io,)))
            continue
        r = _real(getattr(io, meth), markup)
        cmp(label, r if isinstance(r, _Raised) else getattr(io, fetch)(), strip)
    return fails


def _bounded_renderings(ctx):
    n_random = 2000 if ctx.quick else 40000
    ctx.check("renderings",
              "exhaustive core (every tag form of the 8 named styles [2 cases x 2 closers], 8 inline styles [2 closers], 7 "
              "unknown tags x %d text leaves in 2 shapes; all 8x8 two-level named nestings in 2 shapes; every leaf alone) + %d "
              "seeded random messages of the grammar (depth <= 3, <= 4 segments per level); 9 renderings per message: "
              "AnsiFormatter.format / format after remove_format / format(style=) / ANSI output (SGR stripped), "
              "PlainFormatter.format / remove_format, AnsiFormatter.remove_format, plain output, unforced ANSI formatter on a "
              "non-ANSI stream (no escape byte, no style markup)" % (len(TEXTS), n_random))
    rec = _Recorder(ctx)
    discarded = 0

    def one(nodes):
        markup, plain, toks, styled = render(nodes)
        if not well_formed(markup, toks):
            return False
        ctx.case(markup, nontrivial=styled)
        for sig, what in check_message(markup, plain):
            rec.fail(sig, what, {"markup": markup, "plain": plain})
        return True

    for nodes in core_messages():
        if not one(nodes):
            discarded += 1
    done = 0
    tries = 0
    while done < n_random and tries < 5 * n_random:
        tries += 1
        if one(gen_nodes(ctx.rng, 1)):
            done += 1
        else:
            discarded += 1
        if (tries & 0xFF) == 0 and ctx.out_of_time():
            break
    note = "%d generated strings discarded as ambiguous (adjacent leaves formed a tag)" % discarded
    if rec.counts:
        note += "; " + rec.note()
    ctx.done(exhaustive=False, note=note)


# =============================================================================== (b) styles
COLOURS = (None, "default", "black", "red", "green", "yellow", "blue", "magenta", "cyan", "light_gray")
FG_CODE = {"black": 30, "red": 31, "green": 32, "yellow": 33, "blue": 34, "magenta": 35, "cyan": 36, "light_gray": 37,
           "default": 39}
BG_CODE = dict((k, v + 10) for k, v in FG_CODE.items())
# clikit Style setter -> SGR code named in the property
ATTRS = (("bold", 1), ("dark", 2), ("italic", 3), ("underlined", 4), ("blinking", 5), ("inverse", 7), ("hidden", 8))
WAYS = ("registered", "added", "per-call")


def expected_codes(fg, bg, attrs):
    codes = []
    if fg is not None:
        codes.append(FG_CODE[fg])
    if bg is not None:
        codes.append(BG_CODE[bg])
    for name, code in ATTRS:
        if name in attrs:
            codes.append(code)
    return sorted(codes)


def make_style(tag, fg, bg, attrs):
    from clikit.api.formatter import Style

    s = Style(tag)
    if fg is not None:
        s.fg(fg)
    if bg is not None:
        s.bg(bg)
    for name, _code in ATTRS:
        if name in attrs:
            getattr(s, name)()
    return s


def parse_styled(out, text):
    """out is the rendering of `text` under one style; -> (sorted SGR params before the text, reset_ok) or None"""
    i = out.find(text)
    if i < 0 or out.count(text) != 1:
        return None
    before, after = out[:i], out[i + len(text):]
    if SGR_RE.sub("", before) != "" or SGR_RE.sub("", after) != "":
        return None
    codes = []
    for m in SGR_RE.finditer(before):
        for p in m.group(1).split(";"):
            codes.append(int(p) if p else 0)
    resets = []
    for m in SGR_RE.finditer(after):
        for p in m.group(1).split(";"):
            resets.append(int(p) if p else 0)
    return sorted(codes), resets


def style_case(way, fg, bg, attrs):
    """-> list of (signature, what)"""
    from clikit.api.formatter import StyleSet
    from clikit.formatter import AnsiFormatter, PlainFormatter

    exp = expected_codes(fg, bg, attrs)
    fails = []
    TAG = "zz"
    X = "X"

    def judge(label, out, text=X):
        if isinstance(out, _Raised):
            fails.append(("style_codes|%s|raises" % label, "%r" % (out,)))
            return
        p = parse_styled(out, text)
        if p is None:
            fails.append(("style_codes|%s|unparsable" % label, "rendering %r of %r" % (out, text)))
            return
        codes, resets = p
        if codes != exp:
            missing = [c for c in exp if c not in codes]
            extra = [c for c in codes if c not in exp]
            if not codes:
                cls = "no-codes-at-all"
            elif missing and not extra:
                cls = "codes-missing"
            elif extra and not missing:
                cls = "codes-extra"
            else:
                cls = "codes-differ"
            fails.append(("style_codes|%s|%s" % (label, cls),
                          "emitted SGR %r, expected %r (rendering %r)" % (codes, exp, out)))
        elif exp and not resets:
            fails.append(("style_codes|%s|no-reset" % label, "style is not reset after the text: %r" % (out,)))
        elif not exp and ESC in out:
            fails.append(("style_codes|%s|escape-for-empty-style" % label, "%r" % (out,)))

    if way == "registered":
        f = _real(lambda: AnsiFormatter(StyleSet([make_style(TAG, fg, bg, attrs)]), forced=True))
        if isinstance(f, _Raised):
            return [("style_codes|registered|raises", "AnsiFormatter(StyleSet([style])) %r" % (f,))]
        judge("registered", _real(f.format, "<%s>%s</%s>" % (TAG, X, TAG)))
        pf = _real(lambda: PlainFormatter(StyleSet([make_style(TAG, fg, bg, attrs)])))
        if isinstance(pf, _Raised):
            fails.append(("style_codes|registered-plain|raises", "PlainFormatter(StyleSet([style])) %r" % (pf,)))
        else:
            o = _real(pf.format, "<%s>%s</%s>" % (TAG, X, TAG))
            if o != X:
                fails.append(("style_codes|registered-plain|not-plain", "PlainFormatter gives %r" % (o,)))
    elif way == "added":
        f = _real(lambda: AnsiFormatter(forced=True))
        if isinstance(f, _Raised):
            return [("style_codes|added|raises", "AnsiFormatter() %r" % (f,))]
        r = _real(f.add_style, make_style(TAG, fg, bg, attrs))
        if isinstance(r, _Raised):
            return [("style_codes|added|raises", "add_style %r" % (r,))]
        judge("added", _real(f.format, "<%s>%s</%s>" % (TAG, X, TAG)))
        # "added later" also means: under a tag the formatter already knows -- one of the default style set, and the tag
        # that has just been added (re-defined with the complementary attribute set): the later style is what is rendered
        for label, tag, st in (("added|default-tag-redefined", "info", make_style("info", fg, bg, attrs)),
                               ("added|own-tag-redefined", TAG, None)):
            if st is None:
                other = make_style(TAG, bg if bg not in (None, "default") else "red", fg if fg not in (None, "default") else "blue",
                                   [name for name, _c in ATTRS if name not in attrs][:2])
                r0 = _real(f.add_style, other)
                if isinstance(r0, _Raised):
                    fails.append(("style_codes|%s|raises" % label, "add_style %r" % (r0,)))
                    continue
                st = make_style(TAG, fg, bg, attrs)
            r2 = _real(f.add_style, st)
            if isinstance(r2, _Raised):
                fails.append(("style_codes|%s|raises" % label, "add_style %r" % (r2,)))
                continue
            judge(label, _real(f.format, "<%s>%s</%s>" % (tag, X, tag)))
        pf = _real(PlainFormatter)
        if isinstance(pf, _Raised):
            fails.append(("style_codes|added-plain|raises", "PlainFormatter() %r" % (pf,)))
        else:
            r = _real(pf.add_style, make_style(TAG, fg, bg, attrs))
            o = r if isinstance(r, _Raised) else _real(pf.format, "<%s>%s</%s>" % (TAG, X, TAG))
            if o != X:
                fails.append(("style_codes|added-plain|not-plain", "PlainFormatter with add_style gives %r" % (o,)))
    else:
        f = _real(lambda: AnsiFormatter(forced=True))
        if isinstance(f, _Raised):
            return [("style_codes|per-call|raises", "AnsiFormatter() %r" % (f,))]
        # message without any tag
        judge("per-call|message-without-tags", _real(f.format, X, make_style(None, fg, bg, attrs)))
        # tag-free text with '<' / '>' as plain characters ("'<'/'>' as plain characters" is in the quantifier)
        judge("per-call|message-with-plain-angle-brackets",
              _real(f.format, "if a < b then c > d", make_style(None, fg, bg, attrs)), "if a < b then c > d")
        # message that also carries a tagged part: the per-call style applies to the untagged part
        out = _real(f.format, "%s<b>y</b>" % X, make_style(None, fg, bg, attrs))
        if isinstance(out, _Raised):
            fails.append(("style_codes|per-call|message-with-tags|raises", "%r" % (out,)))
        else:
            cut = out.find("y")
            # the part before the first SGR that opens the <b> segment: split at the last SGR sequence before 'y'
            ms = [m for m in SGR_RE.finditer(out) if m.end() <= cut]
            head = out[: ms[-1].start()] if ms else out
            judge("per-call|message-with-tags", head)
        # the per-call style must be gone afterwards: untagged parts of the next message are unstyled
        again = _real(f.format, "Y<b>z</b>W")
        if isinstance(again, _Raised):
            fails.append(("style_codes|per-call|next-call-raises", "%r" % (again,)))
        else:
            mid = SGR_RE.sub("", again)
            body = again[1:-1] if len(again) > 2 else ""
            pz = parse_styled(body, "z") if body else None
            if not (again.startswith("Y") and again.endswith("W") and mid == "YzW" and pz is not None and pz[0] == [1]):
                fails.append(("style_codes|per-call|style-leaks-into-next-call",
                              "format('Y<b>z</b>W') after a format(..., style=s) call gives %r" % (again,)))
    return fails


def pastel_table_mismatch():
    from pastel.style import Style as PS

    bad = []
    for k, v in FG_CODE.items():
        if PS.FOREGROUND_COLORS.get(k) != v:
            bad.append(("fg", k, v, PS.FOREGROUND_COLORS.get(k)))
    for k, v in BG_CODE.items():
        if PS.BACKGROUND_COLORS.get(k) != v:
            bad.append(("bg", k, v, PS.BACKGROUND_COLORS.get(k)))
    names = {"bold": "bold", "dark": "dark", "italic": "italic", "underlined": "underline", "blinking": "blink",
             "inverse": "reverse", "hidden": "conceal"}
    for k, v in ATTRS:
        if PS.OPTIONS.get(names[k]) != v:
            bad.append(("option", k, v, PS.OPTIONS.get(names[k])))
    return bad


def attr_sets(quick):
    names = [a for a, _ in ATTRS]
    allsets = []
    for r in range(len(names) + 1):
        for c in itertools.combinations(names, r):
            allsets.append(tuple(c))
    if not quick:
        return allsets, allsets
    small = [()] + [(n,) for n in names]  # 8 sets: none and every single attribute
    return small, allsets


def _bounded_styles(ctx):
    grid_sets, all_sets = attr_sets(ctx.quick)
    if ctx.quick:
        bound = ("10 fg x 10 bg x 8 attribute sets (none, each single attribute) x 3 ways = 2400, plus all 2^7 attribute sets "
                 "with fg in {None, red} and bg None x 3 ways")
    else:
        bound = "all 10 fg x 10 bg x 2^7 attribute sets x 3 ways (registered in the style set, add_style, format(style=)) = 38400"
    bound += ("; colours = none, default, and pastel's eight names for SGR 30..37; expected codes from ECMA-48 as listed in "
              "the property, cross-checked against pastel.style.Style tables at start; per-call way probed with a message "
              "without tags and one with tags, and for style leakage into the next call; PlainFormatter must render the same "
              "registered / added style as plain text")
    ctx.check("style_codes", bound)
    rec = _Recorder(ctx)
    bad = pastel_table_mismatch()
    if bad:
        rec.fail("style_codes|pastel-table", "expected code table differs from the installed pastel: %r" % (bad,), bad)
    cases = []
    for fg in COLOURS:
        for bg in COLOURS:
            for at in grid_sets:
                cases.append((fg, bg, at))
    if ctx.quick:
        seen = set(cases)
        for at in all_sets:
            for fg in (None, "red"):
                if (fg, None, at) not in seen:
                    cases.append((fg, None, at))
    complete = True
    n = 0
    for fg, bg, at in cases:
        for way in WAYS:
            ctx.case([way, fg, bg, list(at)], nontrivial=bool(fg or bg or at))
            for sig, what in style_case(way, fg, bg, at):
                rec.fail(sig, what, {"way": way, "fg": fg, "bg": bg, "attrs": list(at)})
        n += 1
        if (n & 0xFF) == 0 and ctx.out_of_time():
            complete = False
            break
    # one Style object handed over, changed through its setters, and handed over again: the second rendering shows the
    # style as it is now (a style is converted every time it is used)
    for way in ("per-call", "add_style"):
        ctx.case([way, "changed-style-object"], nontrivial=True)
        for sig, what in changed_style_case(way):
            rec.fail(sig, what, {"way": way, "changed_style": True})
    ctx.done(exhaustive=complete and not ctx.quick, note=rec.note())


def changed_style_case(way):
    from clikit.api.formatter import Style
    from clikit.formatter import AnsiFormatter

    try:
        st = Style("zz9").fg("red")
        f1 = AnsiFormatter(forced=True)
        if way == "per-call":
            first = f1.format("text", st)
        else:
            f1.add_style(st)
            first = f1.format("<zz9>text</zz9>")
        st.fg("blue").bold()
        f2 = AnsiFormatter(forced=True)
        if way == "per-call":
            second = f2.format("text", st)
        else:
            f2.add_style(st)
            second = f2.format("<zz9>text</zz9>")
    except Exception as e:
        return [("style_codes|changed-style-object|raises", "%s: %r" % (way, e))]
    fails = []
    if "31" not in first.split("m")[0] or "34" in first.split("m")[0]:
        fails.append(("style_codes|changed-style-object|first-rendering", "%s: red style rendered as %r" % (way, first)))
    codes = second.split("m")[0].replace(ESC + "[", "").split(";")
    if sorted(codes) != ["1", "34"]:
        fails.append(("style_codes|changed-style-object|stale-codes", "%s: after fg('blue').bold() the style renders as %r (codes %r), "
                      "expected 34;1" % (way, second, codes)))
    return fails


# =============================================================================== (c) line-writing methods
LINE_TEXTS = (
    # (text, its tag-stripped form)
    ("", ""),
    ("abc", "abc"),
    ("<info>abc</info>", "abc"),
    ("a <b>bold</b> <fg=red;options=underline>word</>", "a bold word"),
    ("two\nlines", "two\nlines"),
    (u"été 日本", u"été 日本"),
    ("a < b > c", "a < b > c"),
    ("ends with newline\n", "ends with newline\n"),
    ("<error>x</error>\n\n", "x\n\n"),
    ("   ", "   "),
)
LINE_METHODS = (
    # (label, how to get the bound method from a BufferedIO, which stream, raw?)
    ("Output.write_line", lambda io: io.output.write_line, "out", False),
    ("Output.write_line_raw", lambda io: io.output.write_line_raw, "out", True),
    ("Output(error).write_line", lambda io: io.error_output.write_line, "err", False),
    ("Output(error).write_line_raw", lambda io: io.error_output.write_line_raw, "err", True),
    ("IO.write_line", lambda io: io.write_line, "out", False),
    ("IO.write_line_raw", lambda io: io.write_line_raw, "out", True),
    ("IO.error_line", lambda io: io.error_line, "err", False),
    ("IO.error_line_raw", lambda io: io.error_line_raw, "err", True),
    ("SectionOutput.write_line", lambda io: io.output.section().write_line, "out", False),
    ("SectionOutput.write_line_raw", lambda io: io.output.section().write_line_raw, "out", True),
    ("SectionOutput(second).write_line", lambda io: (io.output.section(), io.output.section())[1].write_line, "out", False),
    ("IO.section().write_line", lambda io: io.section().write_line, "out", False),
    ("IO.section().error_line", lambda io: io.section().error_line, "err", False),
    ("IO.section().write_line_raw", lambda io: io.section().write_line_raw, "out", True),
    ("IO.section().error_line_raw", lambda io: io.section().error_line_raw, "err", True),
)


def line_case(mode, label, text):
    getter, which, raw = [(g, w, r) for (l, g, w, r) in LINE_METHODS if l == label][0]
    plain = [p for (t, p) in LINE_TEXTS if t == text][0]
    io = _mk_io(mode)
    if isinstance(io, _Raised):
        return [("line_newline|%s|raises" % mode, "cannot build the I/O: %r" % (io,))]
    m = _real(getter, io)
    if isinstance(m, _Raised):
        return [("line_newline|%s|%s|raises" % (label, mode), "cannot obtain the method: %r" % (m,))]
    r = _real(m, text)
    if isinstance(r, _Raised):
        return [("line_newline|%s|%s|raises" % (label, mode), "%s(%r) %r" % (label, text, r))]
    payload = io.fetch_output() if which == "out" else io.fetch_error()
    other = io.fetch_error() if which == "out" else io.fetch_output()
    fails = []
    if other != "":
        fails.append(("line_newline|%s|%s|wrong-stream" % (label, mode), "wrote %r to the other stream" % (other,)))
    if raw:
        # raw: the text as it is, trailing newlines trimmed, then exactly one (DESIGN.md C11.line_methods.newline)
        want = text.rstrip("\n") + "\n"
        shown = payload
    else:
        want = plain + "\n"
        shown = strip_sgr(payload) if mode == "ansi" else payload
    if shown != want:
        if shown == want[:-1] or shown.rstrip("\n") == want.rstrip("\n") and not shown.endswith("\n"):
            cls = "no-newline"
        elif shown.rstrip("\n") == want.rstrip("\n"):
            cls = "newline-count"
        else:
            cls = "text-differs"
        fails.append(("line_newline|%s|%s|%s" % (label, mode, cls),
                      "%s(%r) in %s mode wrote %r, expected %r" % (label, text, mode, payload, want)))
    if mode == "plain" and ESC in payload:
        fails.append(("line_newline|%s|plain|escape-byte" % label, "%r" % (payload,)))
    return fails


def _bounded_lines(ctx):
    ctx.check("line_newline",
              "%d line-writing methods (Output / error Output / IO / SectionOutput [first and second section] / section IO; "
              "formatted and raw variants) x {ANSI forced, plain} x %d texts (empty, plain, tagged, two lines, non-ASCII, bare "
              "'<' '>', trailing newline(s), blanks): payload == rendering(text) + one newline; raw variants: text with "
              "trailing newlines trimmed + one newline" % (len(LINE_METHODS), len(LINE_TEXTS)))
    rec = _Recorder(ctx)
    for mode in ("ansi", "plain"):
        for (label, _g, _w, _r) in LINE_METHODS:
            for text, _p in LINE_TEXTS:
                ctx.case([mode, label, text], nontrivial=bool(text))
                for sig, what in line_case(mode, label, text):
                    rec.fail(sig, what, {"mode": mode, "method": label, "text": text})
    ctx.done(exhaustive=True, note=rec.note())


# =============================================================================== (d) indentation scopes
SCOPE_KINDS = ("io.indent", "io.increment_indent", "output.indent", "output.increment_indent")
PROBE_TEXT = "<info>ab</info>\n\n  cd"  # a tagged line, an empty line, a line that starts with blanks of its own
PROBE_PLAIN_LINES = ("ab", "", "  cd")
# lines are separated by "\n" only: a trailing newline is a trailing empty line, other "line break" characters are text
# (a line made of blanks or a tab only is not empty: it is indented like any other)
EXTRA_PROBES = ("ab\n", "a\rb\n\n", "x\x0cy\u2028z\x0b", "p\n \nq", "\t")


class _Boom(Exception):
    pass


class _BaseBoom(BaseException):
    """a scope is also left by exceptions that are no Exception (KeyboardInterrupt, SystemExit)"""


def indented(lines, n):
    return "\n".join((" " * n + l) if l else l for l in lines)


def _indent_class(got, want):
    glines = got.split("\n")
    wlines = want.split("\n")
    if len(glines) == len(wlines) and [g.strip(" ") for g in glines] == [w.strip(" ") for w in wlines]:
        return "empty-line-indented" if glines[1] != "" else "wrong-width"
    if got + "\n" == want:
        return "no-newline"
    return "text-differs"


def indent_case(mode, scopes):
    """scopes: tuple of (kind, width, exit) from the outermost; -> list of (signature, what)"""
    io = _mk_io(mode)
    if isinstance(io, _Raised):
        return [("indent_scopes|%s|raises" % mode, "cannot build the I/O: %r" % (io,))]
    fails = []
    model = {"out": 0, "err": 0}

    def shown(s):
        return strip_sgr(s) if mode == "ansi" else s

    def probe(where):
        """write through every indenting path and compare with the model"""
        phase = where.split(":")[0]
        for label, fn, which, nl in (
            ("IO.write_line", io.write_line, "out", True),
            ("IO.write", io.write, "out", False),
            ("Output.write_line", io.output.write_line, "out", True),
            ("IO.error_line", io.error_line, "err", True),
            ("IO.error", io.error, "err", False),
        ):
            io.clear_output()
            io.clear_error()
            r = _real(fn, PROBE_TEXT)
            if isinstance(r, _Raised):
                fails.append(("indent_scopes|%s|raises" % label, "%s: %r" % (where, r)))
                continue
            got = shown(io.fetch_output() if which == "out" else io.fetch_error())
            want = indented(PROBE_PLAIN_LINES, model[which]) + ("\n" if nl else "")
            if got != want:
                fails.append(("indent_scopes|%s|%s|%s" % (which, _indent_class(got, want), phase),
                              "%s via %s: wrote %r, indentation in force %d, expected %r (scopes %r)"
                              % (where, label, got, model[which], want, scopes)))
        for text in EXTRA_PROBES:
            for label, fn, which, nl in (("IO.write_line", io.write_line, "out", True), ("IO.error", io.error, "err", False)):
                io.clear_output()
                io.clear_error()
                r = _real(fn, text)
                if isinstance(r, _Raised):
                    fails.append(("indent_scopes|%s|raises" % label, "%s: %r" % (where, r)))
                    continue
                got = shown(io.fetch_output() if which == "out" else io.fetch_error())
                want = indented(text.split("\n"), model[which]) + ("\n" if nl else "")
                if got != want:
                    fails.append(("indent_scopes|%s|line-breaks|%s" % (which, phase),
                                  "%s via %s: text %r wrote %r, indentation in force %d, expected %r (scopes %r)"
                                  % (where, label, text, got, model[which], want, scopes)))
        # a section created now starts with the indentation of its output
        io.clear_output()
        sec = _real(io.output.section)
        if isinstance(sec, _Raised):
            fails.append(("indent_scopes|section|raises", "%s: %r" % (where, sec)))
        else:
            r = _real(sec.write_line, PROBE_TEXT)
            got = shown(io.fetch_output())
            want = indented(PROBE_PLAIN_LINES, model["out"]) + "\n"
            if isinstance(r, _Raised):
                fails.append(("indent_scopes|section|raises", "%s: %r" % (where, r)))
            elif got != want:
                fails.append(("indent_scopes|section|%s|%s" % (mode, _indent_class(got, want)),
                              "%s: new section wrote %r, expected %r (scopes %r)" % (where, got, want, scopes)))

    def make(kind, width):
        obj, meth = kind.split(".")
        target = io if obj == "io" else io.output
        return getattr(target, meth)(width)

    def run(level):
        if level == len(scopes):
            return
        kind, width, exit_ = scopes[level]
        saved = dict(model)
        after_with_reached = False
        try:
            scope = _real(make, kind, width)
            if isinstance(scope, _Raised):
                fails.append(("indent_scopes|%s|raises" % kind, "%r" % (scope,)))
                return
            with scope:
                targets = ("out", "err") if kind.startswith("io.") else ("out",)
                for t in targets:
                    model[t] = (model[t] + width) if kind.endswith("increment_indent") else width
                probe("inside:%d" % level)
                run(level + 1)
                probe("inside-after-inner:%d" % level)
                if exit_ == "exception":
                    raise _Boom()
                if exit_ == "base-exception":
                    raise _BaseBoom()
            after_with_reached = True
        except (_Boom, _BaseBoom):
            pass
        if exit_ in ("exception", "base-exception") and after_with_reached:
            fails.append(("indent_scopes|scope-swallows-exception", "the exception raised inside %s(%d) did not propagate" % (kind, width)))
        model.clear()
        model.update(saved)
        probe("after-%s-exit:%d" % (exit_, level))

    probe("before:0")
    run(0)
    return fails


def _bounded_indent(ctx):
    exh_widths = (0, 1, 3)
    smp_widths = (0, 1, 2, 5, 8)
    exh_level = [(k, w, e) for k in SCOPE_KINDS for w in exh_widths for e in ("normal", "exception", "base-exception")]
    smp_level = [(k, w, e) for k in SCOPE_KINDS for w in smp_widths for e in ("normal", "exception", "base-exception")]
    max_exh = 2 if ctx.quick else 4
    n_sample = 3000 if ctx.quick else 20000
    ctx.check("indent_scopes",
              "scope = kind in {io.indent, io.increment_indent, output.indent, output.increment_indent} x width x exit in "
              "{normal, exception, an exception that is no Exception}; all nestings of depth 1..%d with widths %r exhaustively (%d scopes per level), plus %d seeded "
              "nestings of depth 2..4 with widths %r; each x {ANSI forced, plain}; at every level before / inside / after the "
              "inner scope / after exit: IO.write_line, IO.write, Output.write_line, IO.error_line, IO.error and a freshly "
              "created section write a 3-line text (tagged line, empty line, line with own leading blanks), IO.write_line and "
              "IO.error also 5 texts with a trailing newline / a blank-only or tab-only line / \\r, \\x0b, \\x0c, \\u2028 inside, and every line is "
              "compared with the model indentation of its stream"
              % (max_exh, exh_widths, len(exh_level), n_sample, smp_widths))
    rec = _Recorder(ctx)

    def one(mode, scopes):
        ctx.case([mode, [list(s) for s in scopes]], nontrivial=any(s[1] > 0 for s in scopes))
        for sig, what in indent_case(mode, scopes):
            rec.fail(sig, what, {"mode": mode, "scopes": [list(s) for s in scopes]})

    complete = True
    n = 0
    for depth in range(1, max_exh + 1):
        for scopes in itertools.product(exh_level, repeat=depth):
            for mode in ("plain", "ansi"):
                one(mode, scopes)
            n += 1
            if (n & 0x7F) == 0 and ctx.out_of_time():
                complete = False
                break
        if not complete:
            break
    done = 0
    while complete and done < n_sample:
        depth = ctx.rng.randint(2, 4)
        scopes = tuple(ctx.rng.choice(smp_level) for _ in range(depth))
        one(ctx.rng.choice(("plain", "ansi")), scopes)
        done += 1
        if (done & 0x7F) == 0 and ctx.out_of_time():
            break
    note = rec.note()
    if not complete or done < n_sample:
        note = ("stopped at the deadline (%d sampled); " % done) + note
    ctx.done(exhaustive=False, note=note)


# =============================================================================== entry points
def bounded(ctx):
    _bounded_renderings(ctx)
    _bounded_styles(ctx)
    _bounded_lines(ctx)
    _bounded_indent(ctx)


def replay_bounded(check_id, failure):
    w = failure.get("witness") or {}
    sig = failure.get("signature", "")
    if check_id.endswith(".renderings"):
        fails = check_message(w["markup"], w["plain"])
    elif check_id.endswith(".style_codes"):
        if sig == "style_codes|pastel-table":
            fails = [(sig, repr(x)) for x in pastel_table_mismatch()]
        elif w.get("changed_style"):
            fails = changed_style_case(w["way"])
        else:
            fails = style_case(w["way"], w["fg"], w["bg"], tuple(w["attrs"]))
    elif check_id.endswith(".line_newline"):
        fails = line_case(w["mode"], w["method"], w["text"])
    elif check_id.endswith(".indent_scopes"):
        fails = indent_case(w["mode"], tuple(tuple(s) for s in w["scopes"]))
    else:
        return {"fails": False, "detail": "unknown check %s" % check_id}
    same = [f for f in fails if f[0] == sig]
    if same:
        return {"fails": True, "detail": same[0][1]}
    if fails:
        return {"fails": True, "detail": "fails with another signature: %s: %s" % fails[0]}
    return {"fails": False, "detail": "witness satisfies the property on this tree"}
