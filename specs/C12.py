"""C12 -- see DESIGN.md section 5.  Deductive targets are added below the bounded import."""
PROP = "C12"
LEVEL = "other"
EXPLANATION = 'bounded stand-in: exhaustive operation sequences on a real dispatcher against a registration-log model'
from pyvc.contracts import REG as R
from . import event_contracts as ec
R.opaque_hook = ec.opaque_listener
TARGETS = [ec.DD, ec.AL]
LEMMAS = []
try:
    from .C12_bounded import bounded, BOUNDED_RULE  # noqa: F401
    try:
        from .C12_bounded import replay_bounded  # noqa: F401
    except ImportError:
        pass
except ImportError:
    pass
