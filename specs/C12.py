"""C12 -- see DESIGN.md section 5.  Deductive targets are added below the bounded import."""
PROP = "C12"
LEVEL = 'other'
EXPLANATION = ("Deductive: one dispatch calls a prefix of the ordered listener list, each listener once and in order, the prefix ending only at the end of the list or because propagation was stopped, and an event that arrives stopped reaches no listener (loop invariant over an opaque listener model with a ghost call log); dispatch() as a whole calls such a prefix of the cached ordered view of THIS event and nobody when the event has no listener; get_listeners hands out exactly the cached view and computes it whenever there is none; a registration appends the listener after those of the same event and priority and drops the event's cached view; nothing else in the class writes either table (AST frame obligation) - together: a listener registered after a dispatch takes part in the next one.  Bounded: exhaustive operation sequences up to length 4/6 against a registration-log model (covers the priority sort and the history clause).  Level `other`: the dispatch loop, the lookup, the cache discipline and the registration are proved, the priority order itself (`_sort_listeners`, built on sorted()) is decided by the bounded tier only.")
LEVEL_NOTE = ("assumes: listeners are arbitrary callables that log themselves, may stop propagation, may raise, and do not touch the dispatcher's tables; _sort_listeners fills the view of the event it is asked for (its order: sorted(), external) - bounded only, as is the frame of the nested tables")
from pyvc.contracts import REG as R
from . import event_contracts as ec
R.opaque_hook = ec.opaque_listener
TARGETS = [ec.DD, ec.AL] + ec.TARGETS_LOOKUP + ec.TARGETS_CONFIG + ec.TARGETS_EVENTS
structural = ec.structural
LEMMAS = []
try:
    from .C12_bounded import bounded, BOUNDED_RULE  # noqa: F401
    try:
        from .C12_bounded import replay_bounded  # noqa: F401
    except ImportError:
        pass
except ImportError:
    pass
