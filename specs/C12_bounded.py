"""C12 bounded tier: EventDispatcher against an independent registration-log model.

Oracle (from the property statement, DESIGN.md section 5 "C12"):
  order(e) = the listeners registered so far for event e, highest priority first,
  registration order among equal priorities.  dispatch(e) calls the longest prefix of
  order(e) that ends with the first listener that stops propagation (all of order(e) when
  none stops), each listener once, with (event, e, dispatcher); nobody else is called.
  has_listeners / get_listeners / get_listener_priority answer from the same log.
The model below is a plain list of registrations; it shares no code with clikit.
"""
import itertools

BOUNDED_RULE = (
    "operation alphabet of 16 ops on ONE dispatcher: register(event in {A,B} x priority in {-5,0,7} x stops? ) = 12, "
    "dispatch(event in {A,B,C}) = 3 (C never has listeners), query-all = 1 (has_listeners(e) for 3 events and for no "
    "argument, get_listeners(e) for 3 events and for no argument, get_listener_priority(e, l) for every registered "
    "listener l x 3 events plus one foreign callable).  Every prefix of a sequence is checked while it runs (each "
    "dispatch is compared with the model when it happens, and a query-all is appended after the last op).  A case is one "
    "complete op sequence; distinct = distinct op sequences; non-trivial = the sequence contains a dispatch of an event "
    "that has at least one listener at that moment (sequences made only of registrations/queries or dispatching only "
    "into the void are trivial).  shared_callable: a second alphabet of 10 ops (register one of two shared callables or a "
    "new one at 3 priorities for one event; dispatch), all sequences of length 4 (quick) / 6 (thorough)."
)

EVENTS_REG = ("A", "B")
EVENTS_ALL = ("A", "B", "C")
PRIORITIES = (-5, 0, 7)

# op encoding: ("r", event, priority, stops) | ("d", event) | ("q",)
ALPHABET = (
    [("r", e, p, s) for e in EVENTS_REG for p in PRIORITIES for s in (False, True)]
    + [("d", e) for e in EVENTS_ALL]
    + [("q",)]
)
_CODES = "abcdefghijklmnop"
OP_CODE = {op: _CODES[i] for i, op in enumerate(ALPHABET)}
CODE_OP = {v: k for k, v in OP_CODE.items()}


def encode(seq):
    return "".join(OP_CODE[o] for o in seq)


def decode(s):
    return [CODE_OP[ch] for ch in s]


# ----------------------------------------------------------------------------- model
def model_order(regs, event):
    """regs: list of (event, priority, lid, stops) in registration order"""
    mine = [r for r in regs if r[0] == event]
    out = []
    for prio in sorted({r[1] for r in mine}, reverse=True):
        out.extend(r for r in mine if r[1] == prio)  # registration order inside one priority
    return out


def model_dispatch(regs, event):
    calls = []
    for r in model_order(regs, event):
        calls.append(r[2])
        if r[3]:
            break
    return calls


def is_nontrivial(seq):
    """the sequence dispatches an event that has a listener at that moment (model only)"""
    have = set()
    for op in seq:
        if op[0] == "r":
            have.add(op[1])
        elif op[0] == "d" and op[1] in have:
            return True
    return False


# ----------------------------------------------------------------------------- one run
class _Runner(object):
    """runs one op sequence on a fresh real dispatcher and compares with the model step by step;
    returns None or a failure (signature, what, step)"""

    def __init__(self):
        from clikit.api.event import Event, EventDispatcher

        self.Event = Event
        self.EventDispatcher = EventDispatcher

    def run(self, seq, final_query=True):
        Event = self.Event
        disp = self.EventDispatcher()
        regs = []  # model: (event, priority, lid, stops)
        listeners = []  # lid -> callable
        log = []  # (lid, event_obj, name, dispatcher)
        dispatched_before = set()

        def make(lid, stops):
            # what a listener returns is its own business: None, False, 0, True, "" in turn
            ret = (None, False, 0, True, "")[lid % 5]
            if stops:
                def listener(event, name, dispatcher):
                    log.append((lid, event, name, dispatcher))
                    event.stop_propagation()
                    return ret
            else:
                def listener(event, name, dispatcher):
                    log.append((lid, event, name, dispatcher))
                    return ret
            return listener

        for step, op in enumerate(seq):
            kind = op[0]
            if kind == "r":
                _, ev, prio, stops = op
                lid = len(listeners)
                fn = make(lid, stops)
                listeners.append(fn)
                ret = disp.add_listener(ev, fn, prio)
                regs.append((ev, prio, lid, stops))
                if ret is not None:
                    pass  # return value is not part of the property
            elif kind == "d":
                ev = op[1]
                expected = model_dispatch(regs, ev)
                del log[:]
                own = Event() if ev == "A" else None
                ret = disp.dispatch(ev, own) if own is not None else disp.dispatch(ev)
                got = [c[0] for c in log]
                if got != expected:
                    return self._classify_dispatch(regs, ev, expected, got, dispatched_before, step)
                if own is not None and ret is not own:
                    return ("dispatch|returns-other-event", "dispatch(%r, ev) did not return ev" % ev, step)
                if ret is None or not hasattr(ret, "is_propagation_stopped"):
                    return ("dispatch|returns-no-event", "dispatch(%r) returned %r" % (ev, ret), step)
                for c in log:
                    if c[1] is not ret or c[2] != ev or c[3] is not disp:
                        return ("dispatch|listener-arguments",
                                            "listener %d called with (%r, %r, %r), expected (the event, %r, the dispatcher)"
                                            % (c[0], c[1], c[2], c[3], ev), step)
                stopped_exp = any(regs_r[3] for regs_r in regs if regs_r[2] in expected)
                if bool(ret.is_propagation_stopped()) != stopped_exp:
                    return ("dispatch|stopped-flag",
                                        "returned event stopped=%r, model %r" % (ret.is_propagation_stopped(), stopped_exp), step)
                dispatched_before.add(ev)
            else:
                f = self._query_all(disp, regs, listeners, step)
                if f is not None:
                    return f
        if final_query and seq and seq[-1][0] != "q":
            f = self._query_all(disp, regs, listeners, len(seq))
            if f is not None:
                return f
        return None

    @staticmethod
    def _classify_dispatch(regs, ev, expected, got, dispatched_before, step):
        order = [r[2] for r in model_order(regs, ev)]
        foreign = [g for g in got if g not in order]
        if foreign:
            cls = "foreign-listener-called"
        elif len(set(got)) != len(got):
            cls = "listener-called-twice"
        elif sorted(got) == sorted(expected):
            cls = "wrong-order"
        elif got == order[: len(got)] and len(got) > len(expected):
            cls = "not-stopped"
        elif got == expected[: len(got)]:
            cls = "listener-missed"
        else:
            cls = "wrong-set"
        late = "after-earlier-dispatch" if ev in dispatched_before else "first-dispatch"
        return ("dispatch|%s|%s" % (cls, late),
                "dispatch(%r) called listeners %r, model says %r (order %r)" % (ev, got, expected, order), step)

    @staticmethod
    def _query_all(disp, regs, listeners, step):
        lid_of = {id(fn): i for i, fn in enumerate(listeners)}
        orders = {ev: [r_[2] for r_ in model_order(regs, ev)] for ev in EVENTS_ALL}
        r = disp.has_listeners()
        if bool(r) != bool(regs):
            return ("query|has_listeners()", "has_listeners() == %r with %d registrations" % (r, len(regs)), step)
        for ev in EVENTS_ALL:
            exp_order = orders[ev]
            r = disp.has_listeners(ev)
            if bool(r) != bool(exp_order):
                return ("query|has_listeners(e)", "has_listeners(%r) == %r, model %r" % (ev, r, bool(exp_order)), step)
            got_ids = [lid_of.get(id(g), "foreign") for g in disp.get_listeners(ev)]
            if got_ids != exp_order:
                return ("query|get_listeners(e)", "get_listeners(%r) == %r, model %r" % (ev, got_ids, exp_order), step)
        allr = disp.get_listeners()
        got_all = {}
        for k in allr:
            ids = [lid_of.get(id(g), "foreign") for g in allr[k]]
            if ids:  # an event mapped to an empty list says the same as an absent event
                got_all[k] = ids
        exp_all = {ev: o for ev, o in orders.items() if o}
        if got_all != exp_all:
            return ("query|get_listeners()", "get_listeners() == %r, model %r" % (got_all, exp_all), step)
        gp = disp.get_listener_priority
        for (rev, prio, lid, _s) in regs:
            fn = listeners[lid]
            for ev in EVENTS_ALL:
                r = gp(ev, fn)
                if r != (prio if ev == rev else None):
                    return ("query|get_listener_priority",
                            "get_listener_priority(%r, listener %d registered for %r at %d) == %r" % (ev, lid, rev, prio, r), step)
        for ev in EVENTS_ALL:
            r = gp(ev, _never_registered)
            if r is not None:
                return ("query|get_listener_priority", "priority %r reported for a callable never registered" % (r,), step)
        return None


def _never_registered(event, name, dispatcher):
    pass


# ----------------------------------------------------------------------------- checks
_PER_SIG = 3


def _legend():
    return {OP_CODE[o]: list(o) for o in ALPHABET}


def _record(ctx, check_name, seen_sigs, code, failure):
    sig, what, step = failure
    n = seen_sigs.get(sig, 0)
    seen_sigs[sig] = n + 1
    if n < _PER_SIG:
        ctx.fail(sig, "op %d of %s: %s" % (step, code, what),
                 witness={"ops": code, "step": step, "legend": _legend()})


def _exhaustive_block(args):
    """all completions of `prefix` to length `depth`; returns [(code, failure)] (at most _PER_SIG per signature)"""
    prefix, depth = args
    runner = _Runner()
    out = []
    per = {}
    counts = {}
    for rest in itertools.product(ALPHABET, repeat=depth - len(prefix)):
        seq = prefix + rest
        f = runner.run(seq)
        if f is not None:
            counts[f[0]] = counts.get(f[0], 0) + 1
            if per.get(f[0], 0) < _PER_SIG:
                per[f[0]] = per.get(f[0], 0) + 1
                out.append((encode(seq), f))
    return out, counts


def bounded(ctx):
    import multiprocessing as mp
    import os

    # ---------------------------------------------------------------- exhaustive
    depth = 4 if ctx.quick else 6
    total = len(ALPHABET) ** depth
    ctx.check("sequences_exhaustive",
              "all %d^%d = %d op sequences of length exactly %d over the 16-op alphabet (every shorter sequence is a prefix "
              "of one of them and is checked while it runs: each dispatch and each query-all is compared with the "
              "registration-log model when it happens), each on a fresh dispatcher; a query-all is appended after the last "
              "op" % (len(ALPHABET), depth, total, depth))
    seen = {}
    totals = {}
    complete = True
    plen = 0 if ctx.quick else 2
    prefixes = list(itertools.product(ALPHABET, repeat=plen))
    jobs = [(p, depth) for p in prefixes]
    pool = None
    if len(jobs) > 1:
        workers = max(1, min(12, (os.cpu_count() or 2) - 1))
        pool = mp.get_context("fork").Pool(workers)
        results = pool.imap(_exhaustive_block, jobs)
    else:
        results = (_exhaustive_block(j) for j in jobs)
    try:
        for (prefix, _d), (fails, counts) in zip(jobs, results):
            # accounting (distinctness / non-triviality are functions of the op sequence alone)
            for rest in itertools.product(ALPHABET, repeat=depth - len(prefix)):
                seq = prefix + rest
                ctx.case(encode(seq), nontrivial=is_nontrivial(seq))
            for code, f in fails:
                _record(ctx, "seq", seen, code, f)
            for k, v in counts.items():
                totals[k] = totals.get(k, 0) + v
            if ctx.out_of_time():
                complete = False
                break
    finally:
        if pool is not None:
            pool.terminate()
            pool.join()
    ctx.done(exhaustive=complete,
             note=("failing sequences per signature: %r" % (totals,)) if totals else ("" if complete else "stopped at the deadline"))

    # ---------------------------------------------------------------- random long
    runner = _Runner()
    count = 400 if ctx.quick else 30000
    ctx.check("sequences_random",
              "%d seeded random op sequences of length 8..40 over the same alphabet (registrations weighted 50%%, dispatches "
              "35%%, query-all 15%%), compared step by step with the model" % count)
    rng = ctx.rng
    regs_ops = [o for o in ALPHABET if o[0] == "r"]
    disp_ops = [o for o in ALPHABET if o[0] == "d"]
    seen = {}
    done = 0
    for _ in range(count):
        length = rng.randint(8, 40)
        seq = []
        for _i in range(length):
            x = rng.random()
            if x < 0.5:
                seq.append(rng.choice(regs_ops))
            elif x < 0.85:
                seq.append(rng.choice(disp_ops))
            else:
                seq.append(("q",))
        seq = tuple(seq)
        code = encode(seq)
        ctx.case(code, nontrivial=is_nontrivial(seq))
        f = runner.run(seq)
        if f is not None:
            _record(ctx, "rnd", seen, code, f)
        done += 1
        if (done & 0x3FF) == 0 and ctx.out_of_time():
            break
    ctx.done(exhaustive=False,
             note=("failing sequences per signature: %r" % (seen,)) if seen else ("%d of %d run" % (done, count) if done < count else ""))
    _bounded_shared(ctx)
    # the dispatcher as the application uses it: a listener registered late takes part in the next dispatch that a command
    # makes (the scenario is shared with C04)
    from .C04_bounded import late_listener_cases
    ctx.check("late_listeners_through_commands",
              "pre-handle listeners (pass / handle / raise) registered on the application's dispatcher after the application was "
              "built and, in half of the cases, after a first run: the next run dispatches to them")
    seen = {}
    for when, kind, fails in late_listener_cases():
        ctx.case([when, kind], nontrivial=True)
        for sg, what in fails:
            k = seen.get(sg, 0)
            seen[sg] = k + 1
            if k < _PER_SIG:
                ctx.fail(sg, "%s / %s: %s" % (when, kind, what), witness={"late_listener": when, "kind": kind})
    ctx.done(exhaustive=True, note=("failing cases per signature: %r" % (seen,)) if seen else "")
    # the events the library itself dispatches, with the event objects it builds for them
    ctx.check("library_events",
              "listeners at two priorities (the later one first; stopping or not) registered on a configuration for each of "
              "the events the library dispatches itself - config (while the application is built), pre-resolve and pre-handle "
              "(during a run): they are called in priority order with the library's own event object, each once, up to the "
              "first one that stops the propagation")
    for ev in ("config", "pre-resolve", "pre-handle"):
        for stops in (False, True) + (("handles",) if ev == "pre-handle" else ()):
            for own in (False, True):
                ctx.case([ev, stops, own], nontrivial=True)
                for sg, what in library_event_case(ev, stops, own):
                    ctx.fail(sg, "%s / first listener stops=%s / own dispatcher=%s: %s" % (ev, stops, own, what),
                             witness={"library_event": ev, "stops": stops, "own": own})
    # a listener of the config event may still change the configuration - also its dispatcher: what the application
    # dispatches on afterwards is the dispatcher of the configuration
    ctx.case(["config-listener-replaces-dispatcher"], nontrivial=True)
    for sg, what in replaced_dispatcher_case():
        ctx.fail(sg, what, witness={"replaced_dispatcher": True})
    ctx.done(exhaustive=True)


def replaced_dispatcher_case():
    from clikit import ConsoleApplication
    from clikit.api.event import CONFIG, PRE_HANDLE, PRE_RESOLVE, EventDispatcher
    from clikit.args import StringArgs
    from clikit.config import DefaultApplicationConfig
    from clikit.io.input_stream import StringInputStream
    from clikit.io.output_stream import BufferedOutputStream

    calls = []
    new = EventDispatcher()
    new.add_listener(PRE_RESOLVE, lambda e, n, d: calls.append("new:pre-resolve"))
    new.add_listener(PRE_HANDLE, lambda e, n, d: calls.append("new:pre-handle"))

    class Handler(object):
        def handle(self, args, io, command):
            return 0

    cfg = DefaultApplicationConfig("app", "1.0")
    cfg.set_catch_exceptions(False)
    cfg.set_terminate_after_run(False)
    with cfg.command("go") as c:
        c.set_handler(Handler())
    cfg.add_event_listener(PRE_RESOLVE, lambda e, n, d: calls.append("old:pre-resolve"))
    cfg.add_event_listener(CONFIG, lambda e, n, d: e.config.set_event_dispatcher(new))
    try:
        app = ConsoleApplication(cfg)
        app.run(StringArgs("go"), StringInputStream(""), BufferedOutputStream(), BufferedOutputStream())
    except Exception as e:
        return [("library_events|replaced-dispatcher|raises|%s" % type(e).__name__, "%r" % (e,))]
    if calls != ["new:pre-resolve", "new:pre-handle"]:
        return [("library_events|replaced-dispatcher|wrong-calls", "a config listener installed another dispatcher on the configuration; "
                 "the run called %r, expected the pre-resolve and pre-handle listeners of the new dispatcher" % (calls,))]
    return []


def library_event_case(ev, stops, own=False):
    """own: an (empty) dispatcher of the caller is installed on the configuration first - the listeners registered through
    the configuration must land on THAT dispatcher, the one the application dispatches on"""
    from clikit import ConsoleApplication
    from clikit.api.event import CONFIG, PRE_HANDLE, PRE_RESOLVE
    from clikit.config import DefaultApplicationConfig
    from clikit.args import StringArgs
    from clikit.io.input_stream import StringInputStream
    from clikit.io.output_stream import BufferedOutputStream

    name = {"config": CONFIG, "pre-resolve": PRE_RESOLVE, "pre-handle": PRE_HANDLE}[ev]
    calls = []

    def mk(tag, stop):
        def listener(event, event_name, dispatcher):
            calls.append((tag, event_name, type(event).__name__))
            if stop == "handles":
                # marks the command as handled (the handler is skipped) WITHOUT stopping the propagation: the listeners
                # behind it are still called
                event.handled(True)
                event.set_status_code(0)
            elif stop:
                event.stop_propagation()
        return listener

    class Handler(object):
        def handle(self, args, io, command):
            return 0

    cfg = DefaultApplicationConfig("app", "1.0")  # (registers listeners of its own for help and version)
    cfg.set_catch_exceptions(False)
    cfg.set_terminate_after_run(False)
    with cfg.command("go") as c:
        c.set_handler(Handler())
    mine = None
    if own:
        from clikit.api.event import EventDispatcher
        mine = EventDispatcher()
        cfg.set_event_dispatcher(mine)
    cfg.add_event_listener(name, mk("low", False), 0)
    cfg.add_event_listener(name, mk("high", stops), 5)
    if own and (cfg.dispatcher is not mine or not mine.has_listeners(name)):
        return [("library_events|%s|listener-on-another-dispatcher" % ev,
                 "after set_event_dispatcher(d) and add_event_listener: config.dispatcher is d = %s, d.has_listeners = %s"
                 % (cfg.dispatcher is mine, mine.has_listeners(name)))]
    try:
        app = ConsoleApplication(cfg)
        if ev != "config":
            app.run(StringArgs("go"), StringInputStream(""), BufferedOutputStream(), BufferedOutputStream())
    except Exception as e:
        return [("library_events|%s|dispatch-raises|%s" % (ev, type(e).__name__), "dispatching the event raised %r" % (e,))]
    want = ["high"] if stops is True else ["high", "low"]
    got = [c[0] for c in calls]
    if got != want:
        return [("library_events|%s|wrong-calls" % ev, "listeners called: %r, expected %r" % (calls, want))]
    if any(c[1] != name for c in calls):
        return [("library_events|%s|wrong-event-name" % ev, "listeners saw %r" % (calls,))]
    return []


# ----------------------------------------------------------------------------- the same callable registered repeatedly
# A registration is (event, priority, callable); the same callable may be registered more than once, at different
# priorities.  Each REGISTRATION takes part in the dispatch at its own priority (this is what the dispatcher's tables
# hold and what get_listeners reports); the ordering rule of the property applies to registrations.
SHARED_OPS = [("r", p, c) for p in PRIORITIES for c in ("S", "T", "n", "R")] + [("d",)]
# S: one shared non-stopping callable; T: one shared stopping callable; n: a new non-stopping callable every time;
# R: a new callable that, the first time it is called, registers one more listener for the same event at its own priority
#    (a registration made during a dispatch: the new listener takes part in the NEXT dispatch, not in the running one)


def run_shared(seq):
    from clikit.api.event import EventDispatcher

    disp = EventDispatcher()
    log = []

    def mk(tag, stops):
        def listener(event, name, dispatcher):
            log.append(tag)
            if stops:
                event.stop_propagation()
        return listener
    shared = {"S": mk("S", False), "T": mk("T", True)}
    regs = []  # (priority, tag, stops) in registration order
    fresh = 0
    pending = []  # registrations made by listeners during the running dispatch: (priority, tag, stops)

    def mk_registering(tag, prio):
        state = {"done": False}

        def listener(event, name, dispatcher):
            log.append(tag)
            if not state["done"]:
                state["done"] = True
                child = tag + "+"
                dispatcher.add_listener("A", mk(child, False), prio)
                pending.append((prio, child, False))
            return False
        return listener
    for step, op in enumerate(seq):
        if op[0] == "r":
            _, prio, c = op
            if c == "n":
                tag = "n%d" % fresh
                fresh += 1
                fn = mk(tag, False)
            elif c == "R":
                tag = "R%d" % fresh
                fresh += 1
                fn = mk_registering(tag, prio)
            else:
                tag, fn = c, shared[c]
            disp.add_listener("A", fn, prio)
            regs.append((prio, tag, c == "T"))
        else:
            order = []
            for prio in sorted({r[0] for r in regs}, reverse=True):
                order.extend(r for r in regs if r[0] == prio)
            expected = []
            for r in order:
                expected.append(r[1])
                if r[2]:
                    break
            del log[:]
            del pending[:]
            disp.dispatch("A")
            if log != expected:
                return ("shared-callable|dispatch-order", "registrations %r: dispatch called %r, model %r" % (regs, log, expected), step)
            regs.extend(pending)  # registered during the dispatch: known from now on
    return None


def _bounded_shared(ctx):
    depth = 4 if ctx.quick else 5
    ctx.check("shared_callable",
              "all %d^%d op sequences over {register(event A, priority in {-5,0,7}, callable in {shared non-stopping S, shared "
              "stopping T, a new one, a new one that registers a further listener when first called}), dispatch(A)}: the same "
              "callable registered repeatedly (also at different priorities), registrations made during a dispatch -- "
              "every dispatch calls the registrations in priority order, registration order inside a priority, up to the "
              "first stopping one" % (len(SHARED_OPS), depth))
    seen = {}
    complete = True
    n = 0
    for seq in itertools.product(SHARED_OPS, repeat=depth):
        regs_seen = False
        nontriv = False
        for op in seq:
            if op[0] == "r":
                regs_seen = True
            elif regs_seen:
                nontriv = True
        code = "".join("%s%s" % ({-5: "l", 0: "m", 7: "h"}[o[1]], o[2]) if o[0] == "r" else "D." for o in seq)
        ctx.case(code, nontrivial=nontriv)
        f = run_shared(seq)
        if f is not None:
            k = seen.get(f[0], 0)
            seen[f[0]] = k + 1
            if k < _PER_SIG:
                ctx.fail(f[0], "op %d of %s: %s" % (f[2], code, f[1]), witness={"shared_ops": [list(o) for o in seq]})
        n += 1
        if (n & 0xFFF) == 0 and ctx.out_of_time():
            complete = False
            break
    ctx.done(exhaustive=complete, note=("failing sequences per signature: %r" % (seen,)) if seen else "")


def replay_bounded(check_id, failure):
    w = failure.get("witness") or {}
    if w.get("late_listener"):
        from .C04_bounded import late_listener_cases
        for when, kind, fails in late_listener_cases():
            if when == w["late_listener"] and kind == w["kind"]:
                return {"fails": bool(fails), "detail": "; ".join("%s: %s" % f for f in fails) or "behaves as specified"}
        return {"fails": False, "detail": "no such case"}
    if w.get("replaced_dispatcher"):
        fails = replaced_dispatcher_case()
        return {"fails": bool(fails), "detail": "; ".join("%s: %s" % f for f in fails) or "behaves as specified"}
    if w.get("library_event"):
        fails = library_event_case(w["library_event"], w.get("stops") if w.get("stops") == "handles" else bool(w.get("stops")), bool(w.get("own")))
        return {"fails": bool(fails), "detail": "; ".join("%s: %s" % f for f in fails) or "behaves as specified"}
    if w.get("shared_ops"):
        f = run_shared(tuple(tuple(o) for o in w["shared_ops"]))
        if f is None:
            return {"fails": False, "detail": "sequence agrees with the model on this tree"}
        return {"fails": True, "detail": "%s: op %d: %s" % (f[0], f[2], f[1])}
    code = w.get("ops")
    if not code:
        return {"fails": False, "detail": "no witness"}
    f = _Runner().run(tuple(decode(code)))
    if f is None:
        return {"fails": False, "detail": "sequence %s agrees with the model on this tree" % code}
    return {"fails": True, "detail": "%s: op %d: %s" % (f[0], f[2], f[1])}
