"""C13 -- see DESIGN.md section 5.  Deductive targets are added below the bounded import."""
PROP = "C13"
LEVEL = "other"
EXPLANATION = 'bounded stand-in: generated applications x widths x ANSI/plain, page completeness, hiding, line widths, help routes'
from . import help_contracts as hc
TARGETS = [hc.M_AH + ":AbstractHelp._render_argument", hc.M_AH + ":AbstractHelp._render_option",
           hc.M_APPH + ":ApplicationHelp._render_command"]
LEMMAS = []
try:
    from .C13_bounded import bounded, BOUNDED_RULE  # noqa: F401
    try:
        from .C13_bounded import replay_bounded  # noqa: F401
    except ImportError:
        pass
except ImportError:
    pass
