"""C13 -- see DESIGN.md section 5.  Deductive targets are added below the bounded import."""
PROP = "C13"
LEVEL = 'other'
EXPLANATION = ('Deductive: rendering an argument, an option or a command line of a help page never fails whatever description / default / flags (safety + LabeledParagraph text precondition), adds exactly one element, and a hidden command adds none; in the help page of a command a hidden sub-command contributes nothing and any other sub-command at least its name line and one more element (CommandHelp._render_sub_command, with the block scope as an assumed context manager).  Bounded: generated applications x widths x ANSI/plain: completeness, hiding, line widths, help routes.')
LEVEL_NOTE = ('assumes: BlockLayout.add appends (ghost counter); json.dumps of a default is a string; layout, wrapping and page content are bounded only')
from . import help_contracts as hc
TARGETS = [hc.M_AH + ":AbstractHelp._render_argument", hc.M_AH + ":AbstractHelp._render_option",
           hc.M_APPH + ":ApplicationHelp._render_command"] + hc.C13_EXTRA
LEMMAS = []
try:
    from .C13_bounded import bounded, BOUNDED_RULE  # noqa: F401
    try:
        from .C13_bounded import replay_bounded  # noqa: F401
    except ImportError:
        pass
except ImportError:
    pass
