"""C13 -- see DESIGN.md section 5.  Deductive targets are added below the bounded import."""
PROP = "C13"
LEVEL = 'other'
EXPLANATION = ('Deductive: rendering an argument, an option or a command line of a help page never fails whatever description / default / flags (safety + LabeledParagraph text precondition), adds exactly one element, and a hidden command adds none; the ARGUMENTS / OPTIONS / GLOBAL OPTIONS sections of every page (AbstractHelp._render_arguments / _render_options / _render_global_options) add a heading, exactly one line per element handed in - none dropped, none repeated, for any number of elements (loop invariants) - and a separator; in the help page of a command a hidden sub-command contributes nothing and any other sub-command exactly its name line, two elements for a description, two for a help text, one line per own argument and per own option with one separator per group, and a single empty line only when it has none of these (CommandHelp._render_sub_command, with the block scope as an assumed context manager); the argument and option loops of the section of a sub-command add exactly one line per element handed in and one separator line, for every number of elements (loop invariants; the caller passes the values() view of the tables of the format, taken as the sequence of the values of the dict at the call), and the getters the hiding rule reads (Command.name, CommandConfig.is_hidden) return the stored fields.  Bounded: generated applications x widths x ANSI/plain: completeness, hiding, line widths, help routes.')
LEVEL_NOTE = ('assumes: BlockLayout.add appends (ghost counter); json.dumps of a default is a string; ArgsFormat.get_options hands out options in the normal form of C07 (short preferred => short name; Option.__init__ is verified to establish it); layout, wrapping and page content are bounded only')
from . import help_contracts as hc
TARGETS = [hc.M_AH + ":AbstractHelp._render_argument", hc.M_AH + ":AbstractHelp._render_option",
           hc.M_APPH + ":ApplicationHelp._render_command"] + hc.C13_EXTRA
LEMMAS = []
try:
    from .C13_bounded import bounded, BOUNDED_RULE  # noqa: F401
    try:
        from .C13_bounded import replay_bounded  # noqa: F401
    except ImportError:
        pass
except ImportError:
    pass
