"""C13 (bounded tier) -- help pages are complete, respect hiding, fit the terminal and never fail.

Run-time checks on the real clikit code over generated applications (E.trees x E.help of DESIGN.md
Appendix C).  The oracle is written from the property statement:

* rendering ApplicationHelp / CommandHelp succeeds (no exception),
* the application page lists every non-hidden named command and every global option; a command page
  lists every argument and every option of the command, own and inherited (ancestors + global), each
  option under its preferred name and, in parentheses, its alternative name, and every non-hidden named
  sub-command; no page mentions a hidden or disabled command (other than the command the page is about
  and its ancestors),
* no rendered line (escape sequences stripped) is wider than the terminal,
* `help <path>` prints what `<path> --help` (and `<path> -h`) prints.

Interpretation notes (kept out of the oracle on purpose):
* global *arguments* are not demanded on the application page (the suite's own expected pages,
  tests/ui/help/test_application_help.py::test_render, leave them out); they are demanded on every
  command page,
* "wider than the terminal" is taken literally: visible length <= width (the code aims at width - 1),
* the generator keeps every label (indentation + label + padding) below 38 columns, so every terminal
  of the quantifier (width >= 40) is "at least as wide as the longest label plus a margin".
"""
import hashlib
import json
import os
import random
import re

BOUNDED_RULE = (
    "seeded command trees (depth <= 3, fan-out <= 3, aliases, default / anonymous / hidden / disabled commands, "
    "on DefaultApplicationConfig or a bare ApplicationConfig with generated global options/arguments); every command "
    "carries 0-3 arguments and 0-3 options dealt from shuffled decks of ALL valid flag kinds (argument: "
    "required/optional x multi x 5 type words x nullable; option: 4 value modes x 5 type words x nullable x "
    "3 name preferences x short name present/absent), descriptions dealt from {None, short, long with newlines} (every third "
    "tree: from {short, long} only), "
    "defaults from {None, str, int, float, bool, list}; every page (application + every enabled command) x width "
    "x ANSI/plain is one case, keyed by (hash of the tree, page path, width, ansi); a case is non-trivial when the "
    "page has to list at least one command, argument or option of the generated tree"
)

ANSI_RE = re.compile(r"\x1b\[[0-9;]*m")

QUICK_WIDTHS = [40, 41, 57, 79, 80, 100, 132, 200]
ALL_WIDTHS = list(range(40, 201))

RESERVED_SHORT = set("hqvVn")
SHORT_POOL = [c for c in "abcdefgijklmoprstuwxyzABCDEFGIJKLMOPRSTUWXYZ" if c not in RESERVED_SHORT]

SHORT_DESC = "Does one thing"
LONG_DESC = (
    "First line of a long description that explains, in far more words than anybody needs, what this "
    "element is good for.\nSecond line: it keeps going with more and more words until the text has to be "
    "wrapped several times on a narrow terminal.\nThird line, the last one."
)
BRACE_DESC = "Writes {id}.json (a {} placeholder, {0} and }{ are plain text here)"
DESC_POOL = [None, SHORT_DESC, LONG_DESC, BRACE_DESC]
CMD_DESC_POOL = ["", SHORT_DESC, LONG_DESC, BRACE_DESC]
HELP_POOL = [None, "Short help of {script_name}", "Help, paragraph one.\n\nParagraph two is rather long: " + LONG_DESC]

# ---------------------------------------------------------------------------------------------- flag kinds
A_REQUIRED, A_OPTIONAL, A_MULTI = 1, 2, 4
A_TYPES = [0, 16, 32, 64, 128]
A_NULLABLE = 256
O_NO, O_REQ, O_OPT, O_MULTI = 4, 8, 16, 32
O_TYPES = [0, 128, 256, 512, 1024]
O_NULLABLE = 2048
PREFER_LONG, PREFER_SHORT = 1, 2


def argument_kinds():
    out = []
    for presence in (0, A_REQUIRED, A_OPTIONAL):
        for multi in (0, A_MULTI):
            for t in A_TYPES:
                for n in (0, A_NULLABLE):
                    out.append(presence | multi | t | n)
    return out


def option_kinds():
    """(flags, has_short) for every valid combination"""
    out = []
    for mode in (0, O_NO, O_REQ, O_OPT, O_MULTI, O_MULTI | O_REQ):
        for t in O_TYPES:
            for n in (0, O_NULLABLE):
                for pref in (0, PREFER_LONG, PREFER_SHORT):
                    for short in (False, True):
                        if pref == PREFER_SHORT and not short:
                            continue
                        out.append((mode | t | n | pref, short))
    return out


def _default_pool(multi):
    if multi:
        return [None, [], ["a"], ["a", "b c"], [1, 2], [1.5], [True, False], ["{x}"]]
    return [None, "text", "two words", 7, -3, 2.5, True, False, "", "{id}.json"]


class Deck:
    """deals every element of a pool before repeating (shuffled per round, seeded)"""

    def __init__(self, pool, rng):
        self.pool = list(pool)
        self.rng = rng
        self.cur = []
        self.dealt = set()

    def draw(self, accept=None):
        for _ in range(3):
            if not self.cur:
                self.cur = list(range(len(self.pool)))
                self.rng.shuffle(self.cur)
            for j, idx in enumerate(self.cur):
                if accept is None or accept(self.pool[idx]):
                    del self.cur[j]
                    self.dealt.add(idx)
                    return self.pool[idx]
            self.cur = []
        return None

    def coverage(self):
        return len(self.dealt), len(self.pool)


class Gen:
    def __init__(self, rng):
        self.rng = rng
        self.arg_deck = Deck(argument_kinds(), rng)
        self.opt_deck = Deck(option_kinds(), rng)
        self.desc_deck = Deck(DESC_POOL, rng)
        self.desc_deck_full = Deck([d for d in DESC_POOL if d is not None], rng)
        self.all_described = False
        self.cdesc_deck = Deck(CMD_DESC_POOL, rng)
        self.help_deck = Deck(HELP_POOL, rng)
        self.sdef_deck = Deck(_default_pool(False), rng)
        self.mdef_deck = Deck(_default_pool(True), rng)
        self.n = 0

    def _id(self):
        self.n += 1
        return self.n

    def _desc(self):
        return (self.desc_deck_full if self.all_described else self.desc_deck).draw()

    def _args(self, count, state):
        """state: dict(opt=has optional, multi=has multi, names=set) of the inherited format"""
        out = []
        for _ in range(count):
            if state["multi"]:
                break

            def ok(f):
                if f & A_REQUIRED and state["opt"]:
                    return False
                return True

            flags = self.arg_deck.draw(ok)
            if flags is None:
                break
            name = self.rng.choice(["arg%d", "in-file%d", "x%d"]) % self._id()
            required = bool(flags & A_REQUIRED)
            multi = bool(flags & A_MULTI)
            default = None
            if not required:
                default = (self.mdef_deck if multi else self.sdef_deck).draw()
            out.append({"name": name, "flags": flags, "desc": self._desc(), "default": default})
            if multi:
                state["multi"] = True
            if not required:
                state["opt"] = True
        return out

    def _opts(self, count, state):
        out = []
        for _ in range(count):
            flags, has_short = self.opt_deck.draw()
            short = None
            if has_short:
                free = [c for c in SHORT_POOL if c not in state["shorts"]]
                if not free:
                    continue
                short = self.rng.choice(free)
                state["shorts"].add(short)
            long_name = self.rng.choice(["opt%d", "long-opt%d", "o%dx"]) % self._id()
            no_value = bool(flags & O_NO) or not (flags & (O_REQ | O_OPT | O_MULTI))
            multi = bool(flags & O_MULTI)
            default = None
            if not no_value:
                default = (self.mdef_deck if multi else self.sdef_deck).draw()
            out.append({"long": long_name, "short": short, "flags": flags, "desc": self._desc(),
                        "default": default, "value_name": self.rng.choice(["...", "value", "n"])})
        return out

    def command(self, depth, max_depth, fan, state, top):
        r = self.rng
        i = self._id()
        hidden = r.random() < 0.2
        disabled = r.random() < 0.15
        default = r.random() < 0.2
        anonymous = default and r.random() < 0.4
        name = "c%d" % i + ("h" if hidden else "") + ("d" if disabled else "")
        st = {"opt": state["opt"], "multi": state["multi"], "shorts": set(state["shorts"])}
        cmd = {
            "name": name,
            "aliases": ["%s-al%d" % (name, k) for k in range(r.choice([0, 0, 1, 2]))],
            "desc": self.cdesc_deck.draw(),
            "help": self.help_deck.draw(),
            "hidden": hidden, "disabled": disabled, "default": default, "anonymous": anonymous,
            "opts": self._opts(r.randint(0, 3), st),
            "args": self._args(r.randint(0, 3), st),
            "subs": [],
        }
        if depth < max_depth:
            for _ in range(r.randint(0, fan)):
                cmd["subs"].append(self.command(depth + 1, max_depth, fan, st, False))
        return cmd

    def tree(self, index, max_depth=None, fan=None):
        r = self.rng
        self.n = 0
        # every third tree describes all its elements, so that the other clauses are exercised on trees
        # that do not depend on the handling of missing descriptions
        self.all_described = index % 3 == 2
        max_depth = max_depth or r.choice([1, 2, 2, 3, 3])
        fan = fan or r.choice([1, 2, 3, 3])
        default_cfg = index % 2 == 0
        st = {"opt": False, "multi": False, "shorts": set()}
        app = {
            "default_config": default_cfg,
            "name": r.choice(["app", "my-app", None]),
            "version": r.choice([None, "1.2.3"]),
            "help": self.help_deck.draw(),
            "opts": [] if default_cfg else self._opts(r.randint(0, 3), st),
            "args": [] if default_cfg else self._args(r.choice([0, 0, 1, 2]), st),
            "cmds": [],
        }
        for _ in range(r.randint(1, fan)):
            app["cmds"].append(self.command(1, max_depth, fan, st, True))
        return app

    def coverage_note(self):
        parts = []
        for nm, d in (("argument kinds", self.arg_deck), ("option kinds", self.opt_deck), ("descriptions", self.desc_deck),
                      ("scalar defaults", self.sdef_deck), ("list defaults", self.mdef_deck)):
            a, b = d.coverage()
            parts.append("%s %d/%d" % (nm, a, b))
        return "dealt: " + ", ".join(parts)


# ---------------------------------------------------------------------------------------------- building
def build_app(spec):
    from clikit import ConsoleApplication
    from clikit.api.config import ApplicationConfig
    from clikit.config import DefaultApplicationConfig

    if spec["default_config"]:
        config = DefaultApplicationConfig(spec["name"], spec["version"])
    else:
        config = ApplicationConfig(spec["name"], spec["version"])
    config.set_catch_exceptions(False)
    config.set_terminate_after_run(False)
    if spec["help"] is not None:
        config.set_help(spec["help"])
    for o in spec["opts"]:
        config.add_option(o["long"], o["short"], o["flags"], o["desc"], o["default"], o["value_name"])
    for a in spec["args"]:
        config.add_argument(a["name"], a["flags"], a["desc"], a["default"])

    def fill(cc, c):
        for al in c["aliases"]:
            cc.add_alias(al)
        if c["desc"] != "":
            cc.set_description(c["desc"])
        if c["help"] is not None:
            cc.set_help(c["help"])
        if c["hidden"]:
            cc.hide()
        if c["disabled"]:
            cc.disable()
        if c["anonymous"]:
            cc.anonymous()
        elif c["default"]:
            cc.default()
        for o in c["opts"]:
            cc.add_option(o["long"], o["short"], o["flags"], o["desc"], o["default"], o["value_name"])
        for a in c["args"]:
            cc.add_argument(a["name"], a["flags"], a["desc"], a["default"])
        for s in c["subs"]:
            fill(cc.create_sub_command(s["name"]), s)

    for c in spec["cmds"]:
        fill(config.create_command(c["name"]), c)
    return ConsoleApplication(config)


BUILTIN_GLOBAL_OPTS = [
    {"long": "help", "short": "h", "flags": O_NO, "desc": "x"},
    {"long": "quiet", "short": "q", "flags": O_NO, "desc": "x"},
    {"long": "verbose", "short": "v", "flags": O_OPT, "desc": "x"},
    {"long": "version", "short": "V", "flags": O_NO, "desc": "x"},
    {"long": "ansi", "short": None, "flags": O_NO, "desc": "x"},
    {"long": "no-ansi", "short": None, "flags": O_NO, "desc": "x"},
    {"long": "no-interaction", "short": "n", "flags": O_NO, "desc": "x"},
]


def global_opts(spec):
    return (BUILTIN_GLOBAL_OPTS if spec["default_config"] else []) + spec["opts"]


def walk(spec):
    """yields (path of spec nodes) for every command of the tree (enabled or not)"""
    def rec(node, anc):
        p = anc + [node]
        yield p
        for s in node["subs"]:
            for q in rec(s, p):
                yield q
    for c in spec["cmds"]:
        for p in rec(c, []):
            yield p


def enabled_paths(spec):
    """paths of commands that exist in the built application (no disabled ancestor-or-self)"""
    return [p for p in walk(spec) if not any(n["disabled"] for n in p)]


def find_command(app, path):
    cmd = app.get_command(path[0]["name"])
    for n in path[1:]:
        cmd = cmd.get_sub_command(n["name"])
    return cmd


def option_label(o):
    """preferred name, alternative name in parentheses (from the statement + Option's documented
    default: the short name is preferred when it exists and nothing else is asked for)"""
    f = o["flags"]
    if f & PREFER_LONG:
        long_pref = True
    elif f & PREFER_SHORT:
        long_pref = False
    else:
        long_pref = o["short"] is None
    if long_pref:
        lab = "--" + o["long"]
        if o["short"]:
            lab += " (-%s)" % o["short"]
    else:
        lab = "-%s (--%s)" % (o["short"], o["long"])
    return lab


def has_label(lines, label):
    pat = re.compile(r"\s*" + re.escape(label) + r"(\s|$)")
    return any(pat.match(ln) for ln in lines)


def forbidden_names(spec, path):
    """(word, class) for the names and aliases of hidden / disabled commands that the page about `path`
    must not mention (every hidden or disabled command except the page's own command and its ancestors)"""
    own = set(id(n) for n in path)
    default_subs = set(id(s) for s in path[-1]["subs"] if s["default"] or s["anonymous"]) if path else set()
    out = []
    for p in walk(spec):
        n = p[-1]
        if id(n) in own:
            continue
        if n["hidden"] or n["disabled"]:
            if n["disabled"]:
                cls = "disabled-command-shown"
            elif id(n) in default_subs:
                cls = "hidden-default-sub-command-shown"
            else:
                cls = "hidden-command-shown"
            for w in [n["name"]] + n["aliases"]:
                out.append((w, cls))
    return out


def expectations(spec, path):
    """(labels that must be listed: list of (kind, label)), forbidden words) for the page of `path`
    ([] = application page)"""
    must = []
    if not path:
        for c in spec["cmds"]:
            if not c["hidden"] and not c["disabled"] and not c["anonymous"]:
                must.append(("command", c["name"]))
        if spec["default_config"]:
            must.append(("command", "help"))
        for o in global_opts(spec):
            must.append(("global-option", option_label(o)))
    else:
        for a in spec["args"]:
            must.append(("global-argument", "<%s>" % a["name"]))
        for o in global_opts(spec):
            must.append(("global-option", option_label(o)))
        for n in path[:-1]:
            for a in n["args"]:
                must.append(("inherited-argument", "<%s>" % a["name"]))
            for o in n["opts"]:
                must.append(("inherited-option", option_label(o)))
        me = path[-1]
        for a in me["args"]:
            must.append(("own-argument", "<%s>" % a["name"]))
        for o in me["opts"]:
            must.append(("own-option", option_label(o)))
        for s in me["subs"]:
            if not s["hidden"] and not s["disabled"] and not s["anonymous"]:
                must.append(("sub-command", s["name"]))
                # the section of a listed sub-command shows its own arguments and options, whatever else it has
                for a in s["args"]:
                    must.append(("sub-command-argument", "<%s>" % a["name"]))
                for o in s["opts"]:
                    must.append(("sub-command-option", option_label(o)))
    return must, forbidden_names(spec, path)


def undescribed(spec, path):
    """does the page of `path` have to show an argument/option without description (class of D13)"""
    if not path:
        return any(o["desc"] is None for o in spec["opts"])
    els = list(spec["args"]) + list(spec["opts"])
    for n in path:
        els += n["args"] + n["opts"]
    for s in path[-1]["subs"]:
        els += s["args"] + s["opts"]
    return any(e["desc"] is None for e in els)


def page_nontrivial(spec, path):
    must, _ = expectations(spec, path)
    return any(k != "global-option" or not spec["default_config"] for k, _ in must)


def make_io(width, ansi):
    from clikit.formatter import AnsiFormatter
    from clikit.io import BufferedIO
    from clikit.ui.rectangle import Rectangle

    io = BufferedIO(formatter=AnsiFormatter(forced=True)) if ansi else BufferedIO()
    io.set_terminal_dimensions(Rectangle(width, 50))
    return io


def render_page(app, path, width, ansi):
    from clikit.ui.help import ApplicationHelp, CommandHelp

    io = make_io(width, ansi)
    if path:
        CommandHelp(find_command(app, path)).render(io)
    else:
        ApplicationHelp(app).render(io)
    return io.fetch_output(), io.fetch_error()


def _has_default_sub(path):
    return bool(path) and any((s["default"] or s["anonymous"]) and not s["disabled"] for s in path[-1]["subs"])


def _exc_class(e, spec, path):
    """stable class of an exception escaping a help rendering / help run"""
    name = type(e).__name__
    # `help <path>` of a command with default sub-commands prints the page of one of those
    pages = [path] + ([path + [s] for s in path[-1]["subs"] if (s["default"] or s["anonymous"]) and not s["disabled"]] if path else [])
    if name in ("TypeError", "AttributeError") and any(undescribed(spec, p) for p in pages):
        return "element-without-description"
    if name == "CannotParseArgsException":
        return name + ("|target-has-default-sub-command" if _has_default_sub(path) else "|plain-target")
    return name


def check_page(spec, app, path, width, ansi):
    """returns list of (signature, what) for one page x width x ansi"""
    fails = []
    names = [n["name"] for n in path]
    try:
        out, err = render_page(app, path, width, ansi)
    except Exception as e:  # the property: rendering succeeds
        return [("render|raises|%s" % _exc_class(e, spec, path),
                 "rendering the %s page %r at width %d (ansi=%s) raised %r" % ("command" if path else "application", names, width, ansi, e))]
    visible = ANSI_RE.sub("", out)
    lines = visible.split("\n")
    if err:
        fails.append(("render|writes-to-stderr", "help page %r wrote %r to the error output" % (names, err[:80])))
    if not ansi and visible != out:
        fails.append(("render|escape-in-plain", "plain help page %r contains escape sequences" % (names,)))
    must, forbidden = expectations(spec, path)
    for kind, label in must:
        if not has_label(lines, label):
            fails.append(("complete|missing-%s" % kind, "page %r (width %d, ansi=%s) does not list %s %r" % (names, width, ansi, kind, label)))
    squeezed = re.sub(r"\s+", "", visible)
    for w, cls in forbidden:
        if w in visible or w in squeezed:
            fails.append(("hiding|" + cls, "page %r (width %d) mentions hidden/disabled command %r" % (names, width, w)))
    widest = max(len(ln) for ln in lines)
    if widest > width:
        fails.append(("width|line-wider-than-terminal", "page %r: a line of %d visible columns on a terminal of %d (ansi=%s)" % (names, widest, width, ansi)))
    return fails


# ---------------------------------------------------------------------------------------------- help routes
def run_line(app, tokens, ansi):
    from clikit.args import ArgvArgs
    from clikit.io.input_stream import StringInputStream
    from clikit.io.output_stream import BufferedOutputStream

    out, err = BufferedOutputStream(), BufferedOutputStream()
    toks = list(tokens) + (["--ansi"] if ansi else ["--no-ansi"])
    status = app.run(ArgvArgs(["prog"] + toks), StringInputStream(""), out, err)
    return status, out.fetch(), err.fetch()


def name_variants(path, rng):
    """token spellings of a command path: canonical names, and one with aliases where they exist"""
    canon = [n["name"] for n in path]
    out = [canon]
    if any(n["aliases"] for n in path):
        out.append([(rng.choice(n["aliases"]) if n["aliases"] else n["name"]) for n in path])
    return out


def check_routes(spec, path, tokens, width, ansi):
    """`help <path>` vs `<path> --help` vs `<path> -h` through ConsoleApplication.run, COLUMNS=width"""
    fails = []
    old = os.environ.get("COLUMNS")
    os.environ["COLUMNS"] = str(width)
    try:
        results = []
        for form, line in (("help <path>", ["help"] + tokens), ("<path> --help", tokens + ["--help"]), ("<path> -h", tokens + ["-h"])):
            app = build_app(spec)
            try:
                results.append((form, run_line(app, line, ansi)))
            except Exception as e:
                fails.append(("run-raises|%s" % _exc_class(e, spec, path), "%s for %r raised %r" % (form, tokens, e)))
        if len(results) == 3:
            base = results[0][1]
            for form, r in results[1:]:
                if r != base:
                    fails.append(("pages-differ", "`help %s` and `%s` (%r) differ at width %d: status %r/%r, stdout equal=%s, stderr equal=%s" % (
                        " ".join(tokens), form, tokens, width, base[0], r[0], base[1] == r[1], base[2] == r[2])))
            if base[0] != 0 or base[2] != "":
                fails.append(("help-run-not-clean", "`help %s` ended with status %r, stderr %r" % (" ".join(tokens), base[0], base[2][:120])))
            # the page printed is the page of the command named by the path (commands with default
            # sub-commands are routed to those by the resolver and are left to C03)
            target_has_default = _has_default_sub(path)
            if not target_has_default and base[0] == 0:
                try:
                    direct = render_page(build_app(spec), path, width, ansi)[0]
                except Exception:
                    direct = None
                if direct is not None and direct != base[1]:
                    fails.append(("not-the-page-of-the-path", "`help %s` does not print the page CommandHelp renders for that command (width %d, ansi=%s)" % (" ".join(tokens), width, ansi)))
    finally:
        if old is None:
            os.environ.pop("COLUMNS", None)
        else:
            os.environ["COLUMNS"] = old
    return fails


def check_routes_one_app(spec, paths, width):
    """-> [(signature, what, path)]"""
    fails = []
    old = os.environ.get("COLUMNS")
    os.environ["COLUMNS"] = str(width)
    try:
        try:
            app = build_app(spec)
        except Exception:
            return []
        for k, path in enumerate(paths):
            tokens = [n["name"] for n in path]
            line = (["help"] + tokens) if k % 2 == 0 else (tokens + ["--help"])
            try:
                got = run_line(app, line, False)
                want = run_line(build_app(spec), line, False)
            except Exception as e:
                fails.append(("run-raises|one-application", "%r on a reused application raised %r" % (line, e), path))
                break
            if got != want:
                fails.append(("pages-differ|one-application", "%r on an application that has already printed %d help pages differs from "
                              "a new application (status %r/%r, stdout equal=%s)" % (line, k, got[0], want[0], got[1] == want[1]), path))
                break
    finally:
        if old is None:
            os.environ.pop("COLUMNS", None)
        else:
            os.environ["COLUMNS"] = old
    return fails


# ---------------------------------------------------------------------------------------------- driver
class _Failer:
    """at most 3 recorded failures per signature so that every distinct signature is visible"""

    def __init__(self, ctx, prefix):
        self.ctx = ctx
        self.prefix = prefix
        self.count = {}

    def __call__(self, sig, what, witness):
        n = self.count.get(sig, 0)
        self.count[sig] = n + 1
        if n < 3:
            self.ctx.fail("%s|%s" % (self.prefix, sig), what, witness)


def tree_hash(spec):
    return hashlib.blake2b(json.dumps(spec, sort_keys=True).encode(), digest_size=8).hexdigest()


def path_index(spec, path):
    """json-able address of a path: list of child indexes"""
    idx = []
    nodes = spec["cmds"]
    for n in path:
        i = [id(x) for x in nodes].index(id(n))
        idx.append(i)
        nodes = n["subs"]
    return idx


def path_from_index(spec, idx):
    path = []
    nodes = spec["cmds"]
    for i in idx:
        path.append(nodes[i])
        nodes = nodes[i]["subs"]
    return path


def small_trees(gen):
    """every shape of depth <= 2 and fan-out <= 2 (top fan 1..2, sub fan 0..2 each), attributes dealt"""
    out = []
    k = 0
    for top in (1, 2):
        for subs in ([(a,) for a in range(3)] if top == 1 else [(a, b) for a in range(3) for b in range(3)]):
            for flavour in range(2):
                st = {"opt": False, "multi": False, "shorts": set()}
                gen.n = 0
                app = {"default_config": flavour == 0, "name": ["app", None][k % 2], "version": [None, "1.2.3"][k % 2],
                       "help": gen.help_deck.draw(),
                       "opts": [] if flavour == 0 else gen._opts(2, st), "args": [] if flavour == 0 else gen._args(1, st), "cmds": []}
                for nsub in subs:
                    c = gen.command(2, 2, 0, st, True)  # depth == max_depth: no random children
                    stc = {"opt": st["opt"] or any(not a["flags"] & A_REQUIRED for a in c["args"]),
                           "multi": st["multi"] or any(a["flags"] & A_MULTI for a in c["args"]),
                           "shorts": set(st["shorts"]) | set(o["short"] for o in c["opts"] if o["short"])}
                    for _ in range(nsub):
                        c["subs"].append(gen.command(2, 2, 0, stc, False))
                    app["cmds"].append(c)
                out.append(app)
                k += 1
    return out


def _cmd(name, **kw):
    c = {"name": name, "aliases": [], "desc": SHORT_DESC, "help": None, "hidden": False, "disabled": False, "default": False,
         "anonymous": False, "opts": [], "args": [], "subs": []}
    c.update(kw)
    return c


def _arg(name, flags=0, desc=SHORT_DESC, default=None):
    return {"name": name, "flags": flags, "desc": desc, "default": default}


def _opt(long_name, short=None, flags=0, desc=SHORT_DESC, default=None):
    return {"long": long_name, "short": short, "flags": flags, "desc": desc, "default": default, "value_name": "..."}


def corner_trees():
    """a fixed panel of small hand-written trees (every element described unless the tree is about that), so
    that each clause is exercised on minimal inputs whatever the seeded generator deals"""
    def app(cmds, default_config=True, opts=(), args=()):
        return {"default_config": default_config, "name": "app", "version": "1.0", "help": None, "opts": list(opts), "args": list(args), "cmds": cmds}

    return [
        # hidden / disabled / anonymous / default sub-commands next to a visible one
        app([_cmd("grp", subs=[_cmd("shown", args=[_arg("item")]), _cmd("hid1h", hidden=True), _cmd("hid2h", hidden=True, default=True),
                               _cmd("dis1d", disabled=True), _cmd("dis2d", disabled=True, default=True), _cmd("anon", anonymous=True, default=True)])]),
        # a hidden default sub-command only
        app([_cmd("solo", subs=[_cmd("secreth", hidden=True, default=True, opts=[_opt("sopt", "s")])])]),
        # required argument + default sub-command (help must resolve leniently)
        app([_cmd("need", args=[_arg("must", A_REQUIRED)], subs=[_cmd("dflt", default=True), _cmd("other", args=[_arg("more", A_REQUIRED)])])]),
        # top-level hidden / disabled / aliases; bare config with global options and arguments
        app([_cmd("vis", aliases=["v1", "v2"]), _cmd("tophidh", hidden=True, aliases=["thal"]), _cmd("topdisd", disabled=True), _cmd("topdef", default=True)],
            default_config=False, opts=[_opt("gopt", "g", O_REQ, default="x"), _opt("only-long")], args=[_arg("garg")]),
        # every label form, three levels of inheritance
        app([_cmd("l1", opts=[_opt("aa", "a"), _opt("bb", "b", PREFER_LONG), _opt("cc", "c", PREFER_SHORT | O_OPT, default=2.5), _opt("dd")],
                  args=[_arg("first", A_REQUIRED)],
                  subs=[_cmd("l2", opts=[_opt("ee", "e", O_MULTI, default=["x", "y"])], args=[_arg("second")],
                             subs=[_cmd("l3", opts=[_opt("ff", "f", O_REQ | 512, default=3)], args=[_arg("rest", A_MULTI, default=["r"])])])])]),
        # a sub-command that is itself called like the help command, next to an ordinary one
        app([_cmd("config", subs=[_cmd("get", args=[_arg("key")]), _cmd("help", args=[_arg("topic")]),
                                  _cmd("deep", subs=[_cmd("help", opts=[_opt("hh", "k")])])])]),
        # two commands with the same last name under different parents (and different pages)
        app([_cmd("remote", subs=[_cmd("add", args=[_arg("url", A_REQUIRED)])]), _cmd("user", subs=[_cmd("add", opts=[_opt("admin", "a")])])]),
        # an application title (display name + version) longer than a narrow terminal: the title line is wrapped like any text
        dict(app([_cmd("only")]), name="application-with-a-name", version="12.345.6789-beta.1+build.2024.10.05"),
        # sub-commands that have nothing but options / nothing but arguments / nothing at all (no description, no help)
        app([_cmd("bare", subs=[_cmd("onlyopts", desc=None, opts=[_opt("dry-run", "d"), _opt("depth", None, O_REQ)]),
                                _cmd("onlyargs", desc=None, args=[_arg("target")]), _cmd("nothing", desc=None)])]),
        # elements without description (and nothing else special)
        app([_cmd("plain", opts=[_opt("nodesc", "x", desc=None)], args=[_arg("noarg", desc=None)])]),
    ]


def bounded(ctx):
    rng = random.Random(ctx.seed * 7919 + 13)
    gen = Gen(rng)
    n_trees = 60 if ctx.quick else 2000
    trees = [gen.tree(i) for i in range(n_trees)]
    if not ctx.quick:
        trees = small_trees(gen) + trees
    n_corner = len(corner_trees())
    trees = corner_trees() + trees

    # ---------------------------------------------------------------- pages
    ctx.check("pages", ("6 hand-written corner trees + %d seeded trees (depth<=3, fan-out<=3)%s x every page (application + each enabled command) x "
                         "%s x ANSI/plain: render succeeds, page complete, hidden/disabled absent, no line wider than the terminal") % (
        n_trees, "" if ctx.quick else " + all 24 shapes of depth<=2/fan-out<=2 on both configs",
        "8 widths " + str(QUICK_WIDTHS) if ctx.quick else "every width 40..200 for the first 40 trees, 8 rotating widths covering 40..200 for the rest"))
    fail = _Failer(ctx, "pages")
    budget_s = 14 if ctx.quick else 420
    import time
    t0 = time.time()
    complete = True
    for ti, spec in enumerate(trees):
        if time.time() - t0 > budget_s or ctx.out_of_time():
            complete = False
            break
        th = tree_hash(spec)
        app = build_app(spec)
        if ctx.quick:
            widths = QUICK_WIDTHS
        elif ti < 40 + n_corner:
            widths = ALL_WIDTHS
        else:
            widths = [40 + (ti * 8 + k * 20 + (ti // 20)) % 161 for k in range(8)]
        pages = [[]] + enabled_paths(spec)
        for path in pages:
            nontriv = page_nontrivial(spec, path)
            pidx = path_index(spec, path)
            for width in widths:
                for ansi in (False, True):
                    ctx.case([th, pidx, width, ansi], nontrivial=nontriv,
                             sample={"tree": th, "page": [n["name"] for n in path], "width": width, "ansi": ansi})
                    for sig, what in check_page(spec, app, path, width, ansi):
                        fail(sig, what, {"tree": spec, "page": pidx, "width": width, "ansi": ansi})
    ctx.done(exhaustive=False, note=gen.coverage_note() + ("" if complete else "; stopped by the time budget after %d trees" % ti))

    # ---------------------------------------------------------------- the two help routes
    n_route_trees = 30 if ctx.quick else 600
    ctx.check("routes", ("the corner trees and the first %d seeded default-config trees x every enabled named command path (canonical names and one alias spelling) and "
                          "the empty path x %s x ANSI/plain through ConsoleApplication.run (COLUMNS): `help <path>` == `<path> --help` == "
                          "`<path> -h`, status 0, and equal to the page CommandHelp renders for that command") % (
        n_route_trees, "2 widths per path out of " + str(QUICK_WIDTHS) if ctx.quick else "3 rotating widths out of 40..200"))
    fail = _Failer(ctx, "routes")
    budget_s = 16 if ctx.quick else 420
    t0 = time.time()
    complete = True
    done_trees = 0
    case_no = 0
    for ti, spec in enumerate(trees):
        if not spec["default_config"]:
            continue
        if done_trees >= n_route_trees:
            break
        if time.time() - t0 > budget_s or ctx.out_of_time():
            complete = False
            break
        done_trees += 1
        th = tree_hash(spec)
        paths = [[]] + [p for p in enabled_paths(spec) if not any(n["anonymous"] for n in p)]
        # all help requests of the tree one after the other on ONE application object: every page is the page a new
        # application prints for that request
        ctx.case([th, "one-application"], nontrivial=len(paths) > 2, sample={"tree": th, "line": "help ... (one application)"})
        for sig, what, pth in check_routes_one_app(spec, paths, QUICK_WIDTHS[done_trees % 8]):
            fail(sig, what, {"tree": spec, "page": path_index(spec, pth), "tokens": [n["name"] for n in pth], "width": QUICK_WIDTHS[done_trees % 8],
                             "ansi": False, "one_app": True})
        for path in paths:
            pidx = path_index(spec, path)
            for tokens in (name_variants(path, rng) if path else [[]]):
                case_no += 1
                if ctx.quick:
                    widths = [QUICK_WIDTHS[case_no % 8], QUICK_WIDTHS[(case_no * 3 + 1) % 8]]
                else:
                    widths = [40 + (case_no * 37 + k * 53) % 161 for k in range(3)]
                for width in widths:
                    ansi = bool((case_no + width) % 2)
                    ctx.case([th, tokens, width, ansi], nontrivial=bool(path),
                             sample={"tree": th, "line": "help " + " ".join(tokens), "width": width, "ansi": ansi})
                    for sig, what in check_routes(spec, path, tokens, width, ansi):
                        fail(sig, what, {"tree": spec, "page": pidx, "tokens": tokens, "width": width, "ansi": ansi})
    ctx.done(exhaustive=False, note="" if complete else "stopped by the time budget after %d trees" % done_trees)


def replay_bounded(check_id, failure):
    w = failure.get("witness") or {}
    spec = w["tree"]
    path = path_from_index(spec, w["page"])
    sig = failure["signature"].split("|", 1)[1]
    if check_id.endswith(".pages"):
        got = check_page(spec, build_app(spec), path, w["width"], w["ansi"])
    elif w.get("one_app"):
        paths = [[]] + [p for p in enabled_paths(spec) if not any(n["anonymous"] for n in p)]
        got = [(g[0], g[1]) for g in check_routes_one_app(spec, paths, w["width"])]
    else:
        got = check_routes(spec, path, w["tokens"], w["width"], w["ansi"])
    hit = [g for g in got if g[0] == sig]
    return {"fails": bool(hit), "detail": hit[0][1] if hit else "no longer fails (other failures of this case: %r)" % [g[0] for g in got]}
