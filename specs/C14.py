"""C14 -- see DESIGN.md section 5.  Deductive targets are added below the bounded import."""
PROP = "C14"
LEVEL = "other"
EXPLANATION = 'bounded stand-in: generated tables x styles x widths x indentation x ANSI/plain: rectangle, width bound, column widths, text preservation, render frame'
from . import io_contracts as ioc  # noqa: F401
from . import style_contracts as sc
TARGETS = [sc.GCW]
LEMMAS = []
try:
    from .C14_bounded import bounded, BOUNDED_RULE  # noqa: F401
    try:
        from .C14_bounded import replay_bounded  # noqa: F401
    except ImportError:
        pass
except ImportError:
    pass
