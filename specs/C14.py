"""C14 -- see DESIGN.md section 5.  Deductive targets are added below the bounded import."""
PROP = "C14"
LEVEL = "other"
EXPLANATION = ('Deductive: Table._get_cell_wrapper hands the cell wrapper exactly the width the terminal leaves after indentation, the vertical border characters and the per-column excess of the cell formats, with the number of columns of the table; CellWrapper._refresh_column_length makes the width of a column the width of its widest cell (no cell of the column is wider than the column, so padding a cell to the column width is never negative, and the width is attained); two frame obligations decided on the AST: render() and every Table method it reaches assign no attribute of the table and call no mutating method on one (rendering does not modify the table), and the table / cell-wrapper / border modules keep no mutable module- or class-level object (one rendering cannot influence another).  Bounded: generated tables x styles x widths x indentation x ANSI/plain: rectangle, width bound, column widths, text preservation, render frame.')
from . import io_contracts as ioc  # noqa: F401
from . import style_contracts as sc
from . import wrapper_contracts as wc
TARGETS = [sc.GCW, wc.RCL]
LEMMAS = []
try:
    from .C14_bounded import bounded, BOUNDED_RULE  # noqa: F401
    try:
        from .C14_bounded import replay_bounded  # noqa: F401
    except ImportError:
        pass
except ImportError:
    pass


def structural():
    """"rendering does not modify the table": render() and every method of Table it reaches assign no attribute of the table
    and call no mutating method on one of its attributes (AST scan of the call closure inside the class)"""
    import ast
    from pyvc import frontend
    P = frontend.Program()
    mi = P.module(sc.M_TBL)
    ci = mi.classes.get("Table")
    bad = []
    reached = []
    if ci is None or "render" not in ci.methods:
        bad.append("Table.render missing")
    else:
        todo = ["render"]
        while todo:
            m = todo.pop()
            if m in reached or m not in ci.methods:
                continue
            reached.append(m)
            for n in ast.walk(ci.methods[m]):
                if isinstance(n, ast.Call) and isinstance(n.func, ast.Attribute) and isinstance(n.func.value, ast.Name) \
                        and n.func.value.id == "self" and n.func.attr in ci.methods:
                    todo.append(n.func.attr)
        mutators = {"append", "extend", "insert", "pop", "remove", "clear", "sort", "reverse", "update", "setdefault", "popitem",
                    "add", "discard", "__setitem__", "__delitem__"}

        def self_attr(x):
            # self.<a>, self.<a>[...], self.<a>.<b> ... rooted at self
            while isinstance(x, (ast.Subscript, ast.Attribute)):
                if isinstance(x, ast.Attribute) and isinstance(x.value, ast.Name) and x.value.id == "self":
                    return x.attr
                x = x.value
            return None
        for m in reached:
            for n in ast.walk(ci.methods[m]):
                tgts = []
                if isinstance(n, ast.Assign):
                    tgts = n.targets
                elif isinstance(n, (ast.AugAssign, ast.AnnAssign)):
                    tgts = [n.target]
                elif isinstance(n, ast.Delete):
                    tgts = n.targets
                for t in tgts:
                    for e in (t.elts if isinstance(t, (ast.Tuple, ast.List)) else [t]):
                        a = self_attr(e)
                        if a is not None:
                            bad.append("%s line %d assigns self.%s" % (m, n.lineno, a))
                if isinstance(n, ast.Call) and isinstance(n.func, ast.Attribute) and n.func.attr in mutators:
                    a = self_attr(n.func.value)
                    if a is not None:
                        bad.append("%s line %d calls %s on self.%s" % (m, n.lineno, n.func.attr, a))
                if isinstance(n, ast.Call) and isinstance(n.func, ast.Name) and n.func.id in ("setattr", "delattr") and n.args \
                        and isinstance(n.args[0], ast.Name) and n.args[0].id == "self":
                    bad.append("%s line %d: %s(self, ...)" % (m, n.lineno, n.func.id))
    # the modules that lay a table out keep no state of their own between (or during) renderings
    from pyvc import structural as st
    shared = []
    nmods = 0
    for mod in (sc.M_TBL, "clikit.ui.components.cell_wrapper", "clikit.ui.components.border_util"):
        try:
            m2 = P.module(mod)
        except Exception as e:  # noqa
            shared.append("%s: %r" % (mod, e))
            continue
        nmods += 1
        shared += ["%s: %s" % (mod.rsplit(".", 1)[1], f) for f in st.shared_mutable_state(m2)]
    extra = {
        "name": "C14.table_modules.frame.no_shared_state", "kind": "frame",
        "text": "table, cell_wrapper and border_util hold no module-level or class-level object that their code mutates or re-binds and declare no global: "
                "one rendering cannot influence another (whatever the order or interleaving)",
        "status": "proved" if not shared else "failed",
        "note": "; ".join(shared[:6]) if shared else "%d modules scanned" % nmods,
    }
    return [extra, {
        "name": "C14.Table.frame.render_is_read_only", "kind": "frame",
        "text": "Table.render and the Table methods it reaches (%s) assign no attribute of the table, delete none and call no "
                "mutating method on one" % ", ".join(reached),
        "status": "proved" if not bad else "failed",
        "note": "; ".join(bad[:6]),
    }]
