"""C14 bounded tier: tables render as a rectangle within the terminal and keep every cell's text.

Real `Table.render` on a BufferedIO with a set terminal width; the output text is parsed
back and compared with the clauses of the property:

  success   render raises nothing whenever width - indentation - borders - padding >= number of columns
  rectangle all lines (right-padded with blanks) have one width <= terminal width; for the bordered
            styles the emitted lines themselves have equal length (they end in a border character)
  columns   every column starts and ends at the same position in every line (border crossings,
            vertical separators and cell texts agree on one geometry)
  text      reading the lines of a cell from top to bottom gives the cell's visible characters in
            order (white space aside); rows come in order, every logical row starts on a fresh line
  frame     the lists handed to the table (header, rows) and the style object are unchanged afterwards,
            and rendering the same table object a second time gives the same text

To parse borderless output without knowing the column widths, column c only uses the two letters
`LETTERS[c]` (upper case in the header), so every character of the output can be attributed to its column.
"""
import copy
import re

from .term_emu import strip_sgr

BOUNDED_RULE = (
    "random: seeded tables with 1-6 columns x 1-6 rows, cells = word sequences of total visible length 0..1500 "
    "(short/medium/long mix, words of 1..12 letters, occasional single words of 20..200 letters, <b>/<info>/<comment>-tagged words, "
    "empty cells), header present or not, style in ascii/solid/borderless/compact, per-column alignment in left/right/center, "
    "terminal width 20..200, indentation 0..8, ANSI or plain formatter; widths that leave less than one character per column are "
    "redrawn (precondition of the property). A case is distinct by (style, header, rows, width, indentation, alignments, ansi) and "
    "non-trivial when the natural width of the table exceeds the available width (some column must be wrapped). "
    "small: all tables with 1-2 columns x 1-2 rows over a fixed set of cell texts of length <= 12 at small widths, 4 styles, header or not."
)

LETTERS = ["ab", "cd", "ef", "gh", "ij", "kl"]
# one character per column that some libraries take for a line break (str.splitlines does) but that is an ordinary
# character of a word for textwrap and for the table: part of the text of its column
EXOTIC = ["\x1c", "\x1d", "\x1e", "\x85", "\u2028", "\u2029"]
TAGS = ["b", "info", "comment"]
STYLES = ["ascii", "solid", "borderless", "compact"]
_TAG_RE = re.compile(r"</?(?:b|info|comment)>")


def visible(text):
    return _TAG_RE.sub("", text)


# ----------------------------------------------------------------------------- building and rendering
def _make_style(name, alignments):
    from clikit.ui.style import TableStyle

    style = getattr(TableStyle, name)()
    for col, a in enumerate(alignments):
        if a is not None:
            style.set_column_alignment(col, a)
    return style


def _style_snapshot(style):
    d = {k: copy.deepcopy(v) for k, v in vars(style).items() if k != "border_style"}
    d["border_style"] = copy.deepcopy(vars(style.border_style))
    return d


def geometry_of(style_name, ncols):
    """(border width, per-column excess) from the definition of the four styles"""
    if style_name in ("ascii", "solid"):
        return ncols + 1, 2
    return ncols - 1, 0


def in_domain(case):
    n = len(case["rows"][0])
    border, excess = geometry_of(case["style"], n)
    return case["width"] - case["indent"] - border - n * excess >= n


def render(case):
    """returns dict(exc=None|exception, out=str, modified=None|str)"""
    from clikit.formatter import AnsiFormatter
    from clikit.io import BufferedIO
    from clikit.ui.components import Table
    from clikit.ui.rectangle import Rectangle

    io = BufferedIO(formatter=AnsiFormatter(forced=True)) if case["ansi"] else BufferedIO()
    io.set_terminal_dimensions(Rectangle(case["width"], 50))
    style = _make_style(case["style"], case["align"])
    header = list(case["header"]) if case["header"] is not None else None
    rows = [list(r) for r in case["rows"]]
    table = Table(style)
    if header is not None:
        table.set_header_row(header)
    table.add_rows(rows)
    snap = _style_snapshot(style)
    res = {"exc": None, "out": "", "modified": None}
    try:
        table.render(io, case["indent"])
    except Exception as e:  # the property: rendering succeeds
        res["exc"] = e
    res["out"] = io.fetch_output()
    if res["exc"] is None:
        # behavioural side of "does not modify the table": a second rendering gives the same text
        io.clear_output()
        try:
            table.render(io, case["indent"])
        except Exception as e:
            res["modified"] = "second render raised %r" % (e,)
        else:
            if io.fetch_output() != res["out"]:
                res["modified"] = "second render of the same table gives a different text"
    if res["modified"]:
        pass
    elif header is not None and header != case["header"]:
        res["modified"] = "header row changed to %r" % (header,)
    elif rows != [list(r) for r in case["rows"]]:
        res["modified"] = "rows changed to %r" % (rows,)
    elif _style_snapshot(style) != snap:
        res["modified"] = "style object changed"
    return res


# ----------------------------------------------------------------------------- parsing the output
class Problem(Exception):
    def __init__(self, cls, what):
        Exception.__init__(self, what)
        self.cls = cls
        self.what = what


_VERT = {"ascii": "|", "solid": u"│"}
_HORI = {"ascii": "-", "solid": u"─"}


def _col_of(ch):
    lo = ch.lower()
    for c, pair in enumerate(LETTERS):
        if lo in pair or ch == EXOTIC[c]:
            return c
    return None


def _spans(line, ncols):
    """per column: (first, last) index of the characters of that column in the line, or None"""
    sp = [None] * ncols
    for i, ch in enumerate(line):
        if ch == " ":
            continue
        c = _col_of(ch)
        if c is None or c >= ncols:
            raise Problem("text", "unexpected character %r in row line %r" % (ch, line))
        sp[c] = (i, i) if sp[c] is None else (sp[c][0], i)
    return sp


_EXOTIC_DROP = dict((ord(ch), None) for ch in EXOTIC)


def _plain_chars(text):
    """the letters of a text for the reading-order clause: blanks aside, and the exotic separator characters aside too -
    textwrap (standard library) drops a piece of a cut word that consists of such a character only, which is not the
    table's doing; where these characters stand still counts for the geometry clauses"""
    return text.replace(" ", "").translate(_EXOTIC_DROP)


def _chars(line, c):
    return "".join(ch for ch in line if ch != " " and _col_of(ch) == c)


def _check_inside(first, last, s, w, line, c):
    # alignment itself is not part of the property (and textwrap may leave a trailing blank on a line):
    # only "the text lies inside its column" is required
    if first < s or last > s + w - 1:
        raise Problem("columns", "text of column %d leaves its column [%d,%d) in line %r" % (c, s, s + w, line[:80]))


def analyse(case, out):
    """raises Problem on the first clause of the property the output violates"""
    n = len(case["rows"][0])
    style = case["style"]
    indent = case["indent"]
    width = case["width"]
    bordered = style in ("ascii", "solid")
    if out == "" or not out.endswith("\n"):
        raise Problem("rectangle", "output does not end with a newline: %r" % out[-40:])
    raw_lines = strip_sgr(out).split("\n")[:-1]
    if "\x1b" in "".join(raw_lines):
        raise Problem("text", "stray escape sequence in the output")
    lines = []
    for ln in raw_lines:
        if len(ln) > width:
            raise Problem("rectangle", "line of %d characters on a terminal of width %d: %r" % (len(ln), width, ln[:60]))
        if ln[:indent].strip(" ") != "":
            raise Problem("rectangle", "line does not start with the indentation of %d blanks: %r" % (indent, ln[:60]))
        lines.append(ln[indent:])

    # --- classification of border lines and row lines
    def is_border(ln):
        if bordered:
            return ln != "" and ln[0] != _VERT[style]
        if style == "borderless":
            return "=" in ln and ln.replace("=", "").strip(" ") == ""
        return False

    kinds = [is_border(ln) for ln in lines]
    row_lines = [ln for ln, b in zip(lines, kinds) if not b]
    logical = ([case["header"]] if case["header"] is not None else []) + list(case["rows"])

    # --- geometry
    seg = None  # per column (start, width) in the de-indented line, when the output shows it
    if bordered:
        W = len(lines[0])
        vert, hori = _VERT[style], _HORI[style]
        ref = None
        for ln, b in zip(lines, kinds):
            if len(ln) != W:
                raise Problem("rectangle", "lines of different length %d / %d: %r" % (W, len(ln), ln[:60]))
            pos = tuple(i for i, ch in enumerate(ln) if (ch != hori if b else ch == vert))
            if b and any(ch == " " for ch in ln):
                raise Problem("rectangle", "blank inside a border line %r" % ln[:60])
            if ref is None:
                ref = pos
            if pos != ref:
                raise Problem("columns", "column boundaries %r differ from %r in line %r" % (pos, ref, ln[:60]))
        if len(ref) != n + 1 or ref[0] != 0 or ref[-1] != W - 1:
            raise Problem("columns", "expected %d columns framed by borders, boundaries are %r (line width %d)" % (n, ref, W))
        seg = []
        for c in range(n):
            if ref[c + 1] - ref[c] - 1 < 2:
                raise Problem("columns", "column %d has no room for its padding: boundaries %r" % (c, ref))
            seg.append((ref[c] + 2, ref[c + 1] - ref[c] - 3))
        for ln in row_lines:
            for c in range(n):
                if ln[ref[c] + 1] != " " or ln[ref[c + 1] - 1] != " ":
                    raise Problem("columns", "cell of column %d not framed by one blank each side in %r" % (c, ln[:60]))
        blank = dict((i, None) for i in ref)
        row_text = ["".join(" " if i in blank else ch for i, ch in enumerate(ln)) for ln in row_lines]
    else:
        row_text = row_lines
        border_lines = [ln for ln, b in zip(lines, kinds) if b]
        if border_lines:
            ln = border_lines[0]
            seg, pos = [], 0
            for c in range(n):
                w = 0
                while pos + w < len(ln) and ln[pos + w] == "=":
                    w += 1
                seg.append((pos, w))
                pos += w
                if c < n - 1:
                    if pos < len(ln) and ln[pos] != " ":
                        raise Problem("columns", "separator expected at %d in %r" % (pos, ln[:60]))
                    pos += 1
            if ln[pos:].strip(" ") != "" and pos < len(ln):
                raise Problem("columns", "header separator %r does not consist of %d column segments" % (ln[:60], n))
            if indent + sum(w for _, w in seg) + n - 1 > width:
                raise Problem("rectangle", "table of width %d on a terminal of width %d" % (indent + sum(w for _, w in seg) + n - 1, width))

    spans = [_spans(ln, n) for ln in row_text]
    if seg is not None:
        for ln, sp in zip(row_text, spans):
            for c in range(n):
                if sp[c] is not None:
                    _check_inside(sp[c][0], sp[c][1], seg[c][0], seg[c][1], ln, c)
    else:
        # no line shows the geometry: the spans of the columns over all lines must be compatible with one geometry
        lo = [None] * n
        hi = [None] * n
        for sp in spans:
            for c in range(n):
                if sp[c] is not None:
                    lo[c] = sp[c][0] if lo[c] is None else min(lo[c], sp[c][0])
                    hi[c] = sp[c][1] if hi[c] is None else max(hi[c], sp[c][1])
        prev = None
        for c in range(n):
            if lo[c] is None:
                continue
            need = c if prev is None else hi[prev] + 1 + (c - prev)
            if lo[c] < need:
                raise Problem("columns", "columns %s and %d overlap: texts reach %s and start at %d" % (prev, c, None if prev is None else hi[prev], lo[c]))
            prev = c

    # --- text: greedy attribution of the row lines to the logical rows
    t = 0
    starts = []
    for r, cells in enumerate(logical):
        starts.append(t)
        height = 1
        for c in range(n):
            want = _plain_chars(visible(cells[c]))
            acc, k = "", 0
            while len(acc) < len(want):
                if t + k >= len(row_text):
                    raise Problem("text", "cell (%d,%d): output ends after %r, expected %r" % (r, c, acc[-30:], want[:60]))
                acc += _plain_chars(_chars(row_text[t + k], c))
                k += 1
            if acc != want:
                i = 0
                while i < min(len(acc), len(want)) and acc[i] == want[i]:
                    i += 1
                raise Problem("text", "cell (%d,%d): characters differ at offset %d: got ...%r, expected ...%r" % (
                    r, c, i, acc[max(0, i - 5): i + 15], want[max(0, i - 5): i + 15]))
            height = max(height, k)
        for c in range(n):
            want = _plain_chars(visible(cells[c]))
            got = _plain_chars("".join(_chars(row_text[t + k], c) for k in range(height) if t + k < len(row_text)))
            if got != want:
                raise Problem("text", "row %d column %d: extra text %r below the cell" % (r, c, got[len(want):][:30]))
        t += height
    if t != len(row_text):
        raise Problem("text", "%d row lines, the cells account for %d" % (len(row_text), t))

    # --- border lines at the right places
    idx = [i for i, b in enumerate(kinds) if b]
    has_header = case["header"] is not None
    n_header_lines = (starts[1] if len(starts) > 1 else t) if has_header else 0
    if bordered:
        exp = [0] + ([1 + n_header_lines] if has_header else []) + [len(lines) - 1]
        if idx != exp:
            raise Problem("rectangle", "border lines at %r, expected at %r" % (idx, exp))
    elif style == "borderless" and has_header:
        all_empty = all(visible(c).strip() == "" for row in logical for c in row)
        if idx != ([] if all_empty else [n_header_lines]):
            raise Problem("rectangle", "header separator at %r, expected after %d header lines" % (idx, n_header_lines))
    elif idx:
        raise Problem("rectangle", "unexpected border lines at %r" % (idx,))


# ----------------------------------------------------------------------------- classification of a case
def evaluate(case):
    """returns None if the property holds for the case, else (signature, what)"""
    r = render(case)
    tagged = any("<" in c for row in ([case["header"]] if case["header"] else []) + case["rows"] for c in row)
    res = None
    if r["exc"] is not None:
        e = r["exc"]
        if isinstance(e, ValueError) and "invalid width" in str(e):
            return ("render-raises|invalid-width", "Table.render raised %r" % (e,))
        res = ("render-raises|%s" % type(e).__name__, "Table.render raised %r" % (e,))
    else:
        try:
            analyse(case, r["out"])
        except Problem as p:
            res = (p.cls, p.what)
    if res is None and r["modified"]:
        return ("modified", "render modified the table: " + r["modified"])
    if res is not None and tagged:
        if "style tag" in res[1] or "unexpected character '<'" in res[1] or "unexpected character '>'" in res[1] or "unexpected character '/'" in res[1]:
            return ("tagged-word-wrapped|" + res[0], res[1])
        twin = dict(case)
        twin["header"] = [visible(c) for c in case["header"]] if case["header"] is not None else None
        twin["rows"] = [[visible(c) for c in row] for row in case["rows"]]
        if evaluate(twin) is None:
            return ("tagged-word-wrapped|" + res[0], res[1] + " (the same table without style tags renders correctly)")
    return res


# ----------------------------------------------------------------------------- enumerators
def _word(rng, c, upper, n):
    pair = LETTERS[c].upper() if upper else LETTERS[c]
    w = "".join(rng.choice(pair) for _ in range(n))
    if n >= 3 and rng.random() < 0.04:
        k = rng.randrange(1, n - 1)
        w = w[:k] + EXOTIC[c] + w[k + 1:]
    return w


def _cell(rng, c, upper, tags):
    r = rng.random()
    if r < 0.12:
        return ""
    if r < 0.60:
        target = rng.randint(1, 30)
    elif r < 0.88:
        target = rng.randint(30, 200)
    else:
        target = rng.randint(200, 1500)
    words = []
    total = 0
    while total < target:
        if rng.random() < 0.04:
            n = rng.randint(20, 200)
        else:
            n = rng.randint(1, 12)
        n = min(n, max(1, target - total))
        w = _word(rng, c, upper, n)
        if tags and rng.random() < 0.08:
            tag = rng.choice(TAGS)
            w = "<%s>%s</%s>" % (tag, w, tag)
        words.append(w)
        total += n + 1
    return " ".join(words)


def random_case(rng):
    n = rng.randint(1, 6)
    nrows = rng.randint(1, 6)
    tags = rng.random() < 0.3
    header = None
    if rng.random() < 0.6:
        header = [(_word(rng, c, True, rng.randint(1, 10)) if rng.random() < 0.9 else "") for c in range(n)]
        if rng.random() < 0.15:
            header = [_cell(rng, c, True, tags) for c in range(n)]
    rows = [[_cell(rng, c, False, tags) for c in range(n)] for _ in range(nrows)]
    case = {
        "style": rng.choice(STYLES),
        "header": header,
        "rows": rows,
        "indent": rng.randint(0, 8),
        "align": [rng.choice([None, 0, 1, 2]) for _ in range(n)],
        "ansi": rng.random() < 0.5,
        "width": rng.randint(20, 200),
    }
    while not in_domain(case):
        case["width"] = rng.randint(case["width"], 200)
    return case


def natural_width(case):
    n = len(case["rows"][0])
    allrows = ([case["header"]] if case["header"] is not None else []) + case["rows"]
    border, excess = geometry_of(case["style"], n)
    return case["indent"] + border + n * excess + sum(max(len(visible(r[c]).rstrip()) for r in allrows) for c in range(n))


def _key(case):
    return [case["style"], case["header"], case["rows"], case["width"], case["indent"], case["align"], case["ansi"]]


def _sample(case):
    n = len(case["rows"][0])
    return "%s %dx%d%s w=%d ind=%d %s cell lengths %s" % (
        case["style"], n, len(case["rows"]), "+header" if case["header"] is not None else "", case["width"], case["indent"],
        "ansi" if case["ansi"] else "plain", [[len(visible(c)) for c in r] for r in case["rows"]][:2])


class _Failures(object):
    def __init__(self, ctx, per=3):
        self.ctx, self.per, self.count = ctx, per, {}

    def add(self, sig, what, witness):
        k = self.count.get(sig, 0)
        self.count[sig] = k + 1
        if k < self.per:
            self.ctx.fail(sig, what, witness)

    def note(self):
        return "; ".join("%s x%d" % kv for kv in sorted(self.count.items()))


_PATTERNS = ["", "x", "xy xy", "xyxyxyxy", "xyx yxyx yxy", "xyxyxyxyxyxy"]


def _pattern_text(p, c, upper=False):
    a, b = LETTERS[c]
    s = p.replace("x", a).replace("y", b)
    return s.upper() if upper else s


def small_cases(quick):
    pats = _PATTERNS if not quick else ["", "x", "xyx yxyx yxy", "xyxyxyxyxyxy"]
    widths = list(range(8, 31)) if not quick else [8, 10, 11, 13, 16, 20, 30]
    import itertools

    for n in (1, 2):
        for nrows in (1, 2):
            for combo in itertools.product(pats, repeat=n * nrows):
                rows = [[_pattern_text(combo[r * n + c], c) for c in range(n)] for r in range(nrows)]
                for style in STYLES:
                    for header in (None, [_pattern_text("xy", c, True) for c in range(n)]):
                        for width in widths:
                            case = {"style": style, "header": header, "rows": rows, "indent": 0,
                                    "align": [None] * n, "ansi": False, "width": width}
                            if in_domain(case):
                                yield case


def bounded(ctx):
    quick = ctx.quick
    n_random = 300 if quick else 30000
    ctx.check("random", "%d seeded tables: 1-6 columns x 1-6 rows, cells of 0..1500 visible characters (long words, tagged words, empty cells), "
                        "header or not, 4 styles, alignments, width 20..200, indentation 0..8, ANSI/plain" % n_random)
    fails = _Failures(ctx)
    done = 0
    for _ in range(n_random):
        if ctx.out_of_time():
            break
        case = random_case(ctx.rng)
        res = evaluate(case)
        done += 1
        ctx.case(_key(case), nontrivial=natural_width(case) > case["width"], sample=_sample(case))
        if res is not None:
            fails.add(res[0], res[1], case)
    ctx.done(exhaustive=False, note=("%d of %d evaluated; " % (done, n_random) if done < n_random else "") + fails.note())

    ctx.check("small", "all tables with 1-2 columns x 1-2 rows over %d cell texts of length <= 12, widths %s, 4 styles, header or not, plain, no indentation" % (
        (4, "{8,10,11,13,16,20,30}") if quick else (6, "8..30")))
    fails = _Failures(ctx)
    complete = True
    for case in small_cases(quick):
        if ctx.out_of_time():
            complete = False
            break
        res = evaluate(case)
        ctx.case(_key(case), nontrivial=natural_width(case) > case["width"], sample=_sample(case))
        if res is not None:
            fails.add(res[0], res[1], case)
    ctx.done(exhaustive=complete, note=fails.note())

    ctx.check("repeated_text", "the SAME long text in 2-3 columns of one row (with and without a short first column) x 4 styles x terminal "
                               "widths: rendering succeeds, no line is wider than the terminal, bordered styles give lines of one width")
    fails = _Failures(ctx)
    for case in repeated_text_cases(quick):
        res = geometry_only(case)
        ctx.case(_key(case), nontrivial=True, sample=_sample(case))
        if res is not None:
            fails.add(res[0], res[1], case)
    ctx.done(exhaustive=True, note=fails.note())


def geometry_only(case):
    """rectangle and width bound of a table whose columns may hold the SAME text (no attribution of characters to columns)
    -> None | (signature, what)"""
    res = render(case)
    if res["exc"] is not None:
        return ("repeated-text|render-raises|%s" % type(res["exc"]).__name__, "render raised %r" % (res["exc"],))
    lines = [ANSI_STRIP.sub("", l) for l in res["out"].split("\n") if l != ""]
    widths = sorted(set(len(l.rstrip(" ")) if case["style"] in ("borderless", "compact") else len(l) for l in lines))
    limit = case["width"]
    if any(len(l.rstrip(" ")) > limit for l in lines):
        return ("repeated-text|wider-than-terminal", "a line of %d columns on a terminal of %d (widths of the lines: %r)" % (
            max(len(l.rstrip(" ")) for l in lines), limit, widths))
    if case["style"] not in ("borderless", "compact") and len(widths) > 1:
        return ("repeated-text|lines-of-different-width", "lines of widths %r" % (widths,))
    if res["modified"]:
        return ("repeated-text|modified", res["modified"])
    return None


ANSI_STRIP = re.compile(r"\x1b\[[0-9;]*m")


def repeated_text_cases(quick):
    words = ["ab" * k for k in (1, 2, 3, 5, 8)]
    long_text = " ".join(words[i % len(words)] for i in range(40))
    for ncols in (2, 3):
        for width in ((40, 60, 80) if quick else range(30, 121, 5)):
            for style in STYLES:
                for short_first in (False, True):
                    row = [long_text] * ncols
                    if short_first:
                        row[0] = "ab"
                    # a second row makes one of the equal columns need a little more room than the other
                    rows = [row, ["abab"] + [""] * (ncols - 1)]
                    yield {"style": style, "header": None, "rows": rows, "width": width, "indent": 0,
                           "align": [None] * ncols, "ansi": False, "repeated_text": True}


def replay_bounded(check_id, failure):
    case = failure.get("witness")
    if case.get("repeated_text"):
        res = geometry_only(case)
        return {"fails": res is not None, "detail": "" if res is None else "%s: %s" % res}
    res = evaluate(case)
    return {"fails": res is not None, "detail": "" if res is None else "%s: %s" % res}
