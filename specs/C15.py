"""C15 -- see DESIGN.md section 5.  Deductive targets are added below the bounded import."""
PROP = "C15"
LEVEL = 'other'
EXPLANATION = ('Deductive: SectionOutput.add_content preserves the row-accounting invariant lines == sum over the content lines of max(1, ceil(visible length / width)) (recursive spec function over the content list, loop invariant); SectionOutput.write and clear on an output without ANSI support (neither decorated nor forced) are verified to degrade to exactly one plain appended write of the undecorated text / to nothing, with no accounting change (a control sequence is a stream write of its own, so none is emitted).  Bounded: operation sequences on 1-3 sections replayed on a terminal emulator and compared with the stacked contents; plain fallback.')
LEVEL_NOTE = ('assumes: floats as reals; remove_format is a function of formatter and text; the screen model (cursor-up / erase codes) is bounded only; partial clear(n) is a known finding')
from . import io_contracts as ioc
TARGETS = [ioc.SEC_ADD, ioc.M_SEC + ':SectionOutput.write', ioc.M_SEC + ':SectionOutput.clear']
LEMMAS = []
try:
    from .C15_bounded import bounded, BOUNDED_RULE  # noqa: F401
    try:
        from .C15_bounded import replay_bounded  # noqa: F401
    except ImportError:
        pass
except ImportError:
    pass

# what this property says about text on the stream rests on the write path of Output / SectionOutput / IO (the text reaches
# the stream iff the gate allows it): those contracts (C10) are re-verified as part of this property
from . import C10 as _c10  # noqa: E402
TARGETS += [t for t in _c10.TARGETS if t not in TARGETS]
