"""C15 -- see DESIGN.md section 5.  Deductive targets are added below the bounded import."""
PROP = "C15"
LEVEL = "other"
EXPLANATION = 'bounded stand-in: operation sequences on 1-3 sections replayed on a terminal emulator and compared with the stacked contents; plain fallback'
from . import io_contracts as ioc
TARGETS = [ioc.SEC_ADD]
LEMMAS = []
try:
    from .C15_bounded import bounded, BOUNDED_RULE  # noqa: F401
    try:
        from .C15_bounded import replay_bounded  # noqa: F401
    except ImportError:
        pass
except ImportError:
    pass
