"""C15 bounded tier: section outputs keep the screen equal to the stacked section contents.

The byte stream the real SectionOutput objects emit on one shared buffered stream is
interpreted by the terminal emulator of term_emu.py and compared, after every operation,
with a ghost model written from the property statement:

* a section's content is a list of lines; `write_line(t)` appends the lines of t,
  `overwrite(t)` replaces the content by the lines of t, `clear()` empties it,
  `clear(n)` removes the last min(n, len) lines;
* the screen is the concatenation, oldest section first, of all contents, every line
  taking max(1, ceil(len/width)) rows (auto-wrap), and the cursor is at column 0 of the
  row below the last content row.

Nothing of the code's own bookkeeping (`_lines`, `_content`) enters the oracle; the public
`content` property is compared with the ghost content as a second, separately reported check.
"""
import os

from .term_emu import Term, wrap_rows

BOUNDED_RULE = (
    "explore: breadth-first over histories of {create section (<=3), write_line(1-2 lines), overwrite, "
    "clear(), clear(1|2)} starting from one empty section at terminal width 10 with line lengths "
    "{3, w-1, w, w+1, 2w+1} (+0 in the thorough tier); one representative history per distinct state "
    "(ghost contents + screen + cursor) is extended, every (state, operation) pair is evaluated once; "
    "a case is non-trivial when the history has >= 2 operations and at least one line on screen before the last one. "
    "random: seeded sequences of length 5..40 over 1-3 sections, widths {5,10,20,80}, lengths "
    "{0,1,w-1,w,w+1,2w,2w+1,3w+2}, 1-3 lines per write, style-tagged text, clear(1..4); checked after every operation; "
    "distinct by the whole sequence, non-trivial when some written line is wider than the terminal. "
    "plain: the same operations on an output without ANSI support."
)

W = 10


# ----------------------------------------------------------------------------- text material
def _letters(i):
    return "abcdefghijklmnopqrstuvwxyz"[i % 26]


def _mk_text(spec, tick):
    """spec: tuple of line lengths; tick picks the letter so that successive writes differ"""
    lines = []
    for j, n in enumerate(spec):
        ch = _letters(tick * 2 + j)
        lines.append(ch * n)
    return "\n".join(lines)


def _visible(text):
    return text.replace("<info>", "").replace("</info>", "")


# ----------------------------------------------------------------------------- running a history on the real code
_CAPABLE = [False]  # ANSI by a capable stream and an ordinary ANSI formatter instead of a forced formatter


def _new_output(ansi):
    from clikit.api.io.output import Output
    from clikit.formatter import AnsiFormatter, PlainFormatter
    from clikit.io.output_stream import BufferedOutputStream

    if ansi and _CAPABLE[0]:
        class CapableStream(BufferedOutputStream):
            def supports_ansi(self):
                return True
        stream = CapableStream()
        return Output(stream, AnsiFormatter(forced=False)), stream
    stream = BufferedOutputStream()
    out = Output(stream, AnsiFormatter(forced=True) if ansi else PlainFormatter())
    return out, stream


def _apply_real(out, sections, op):
    kind = op[0]
    if kind == "new":
        sections.append(out.section())
    elif kind == "w":
        sections[op[1]].write_line(op[2])
    elif kind == "o":
        sections[op[1]].overwrite(op[2])
    elif kind == "c":
        sections[op[1]].clear()
    elif kind == "cn":
        sections[op[1]].clear(op[2])
    elif kind == "ind":
        sections[op[1]].indent(op[2])  # sets the indentation of that section from now on
    elif kind == "bad":
        # a message the formatter rejects, written to the NEWEST section (nothing below it has to be erased first): the
        # write fails with ValueError and leaves section and screen as they were
        try:
            sections[-1].write_line("<fg=nosuchcolour>rejected by the formatter")
        except ValueError:
            pass
    else:
        raise ValueError(op)


def _apply_ghost(ghost, op, inds=None):
    kind = op[0]
    if inds is not None:
        while len(inds) < len(ghost):
            inds.append(0)

    def lines(sec, text):
        ind = inds[sec] if inds is not None else 0
        return [(" " * ind + l) if l else l for l in _visible(text).split("\n")]
    if kind == "new":
        ghost.append([])
        if inds is not None:
            inds.append(0)
    elif kind == "ind":
        inds[op[1]] = op[2]
    elif kind == "bad":
        pass
    elif kind == "w":
        ghost[op[1]].extend(lines(op[1], op[2]))
    elif kind == "o":
        ghost[op[1]][:] = lines(op[1], op[2])
    elif kind == "c":
        del ghost[op[1]][:]
    elif kind == "cn":
        n = op[2]
        g = ghost[op[1]]
        if n == 0:
            del g[:]  # clear(0) is a full clear (a count of zero means "no count given")
        elif n >= len(g):
            del g[:]
        else:
            del g[-n:]


def _expected_rows(ghost, width):
    rows = []
    for g in ghost:
        for line in g:
            rows.extend(wrap_rows(line, width))
    return rows


def _trim(rows):
    rows = [r.rstrip(" ") for r in rows]
    while rows and rows[-1] == "":
        rows.pop()
    return rows


def _run(ops, width, initial_sections, check_from):
    """Run ops on `initial_sections` fresh sections of one ANSI output; the screen is compared with the ghost model
    after every operation from index `check_from` on.  Returns dict(ok, step, what, cls, state)."""
    old = os.environ.get("COLUMNS")
    # the output and its first sections are created while the terminal reports another width (nothing is on the screen
    # yet); the width that counts is the one the terminal has when a line is measured
    os.environ["COLUMNS"] = str(width + 13)
    try:
        out, stream = _new_output(True)
        sections = [out.section() for _ in range(initial_sections)]
        os.environ["COLUMNS"] = str(width)
        ghost = [[] for _ in range(initial_sections)]
        inds = [0] * initial_sections
        indented = any(o[0] == "ind" for o in ops)
        partial = False
        res = {"ok": True, "step": None, "what": "", "cls": "", "state": None}
        for i, op in enumerate(ops):
            if op[0] == "cn" and op[2] != 0:
                partial = True
            try:
                _apply_real(out, sections, op)
            except Exception as e:  # the operations of the property must not fail
                res.update(ok=False, step=i, what="operation %r raised %r" % (op, e),
                           cls=("partial-clear" if partial else "write-overwrite-clear") + "|raises")
                return res
            _apply_ghost(ghost, op, inds)
            if i < check_from:
                continue
            text = stream.fetch()
            term = Term(width).feed(text)
            exp = _expected_rows(ghost, width)
            got = term.rows()
            tag = "partial-clear" if partial else ("indented" if indented else "write-overwrite-clear")
            if term.unknown:
                res.update(ok=False, step=i, what="unexpected control sequence %r" % (term.unknown[:3],), cls=tag + "|control")
                return res
            if got != _trim(exp):
                res.update(ok=False, step=i, cls=tag + "|screen",
                           what="after %r the screen shows %r, stacked contents are %r" % (op, got, _trim(exp)))
                return res
            if term.cursor != (len(exp), 0):
                res.update(ok=False, step=i, cls=tag + "|cursor",
                           what="after %r the cursor is at %r, expected %r" % (op, term.cursor, (len(exp), 0)))
                return res
            for k, s in enumerate(sections):
                want = "".join(l + "\n" for l in ghost[k])
                try:
                    have = s.remove_format(s.content)
                except ValueError as e:
                    res.update(ok=False, step=i, cls=tag + "|content-is-not-valid-markup",
                               what="after %r section %d holds content its own formatter rejects (%r): %r" % (op, k, e, s.content))
                    return res
                if indented:
                    # (an empty line of an indented section is stored as blanks: invisible, not part of the property)
                    have = "".join(l.rstrip(" ") + "\n" for l in have.split("\n")[:-1]) if have else have
                if have != want:
                    res.update(ok=False, step=i, cls=tag + "|content",
                               what="after %r section %d reports content %r, expected %r" % (op, k, s.content, want))
                    return res
        # state for the de-duplication of the exploration: ghost contents, what the code itself reports through its
        # public getters (content, lines) and the screen
        term = Term(width).feed(stream.fetch())
        res["state"] = (tuple(tuple(g) for g in ghost), tuple((s.content, s.lines) for s in sections),
                        tuple(term.rows()), term.cursor)
        return res
    finally:
        if old is None:
            os.environ.pop("COLUMNS", None)
        else:
            os.environ["COLUMNS"] = old


def run_plain(ops, width, initial_sections=1):
    """same operations on an output without ANSI support: plain appended lines, no control codes"""
    old = os.environ.get("COLUMNS")
    os.environ["COLUMNS"] = str(width)
    try:
        out, stream = _new_output(False)
        sections = [out.section() for _ in range(initial_sections)]
        expected = ""
        for i, op in enumerate(ops):
            try:
                _apply_real(out, sections, op)
            except Exception as e:
                return {"ok": False, "step": i, "cls": "plain|raises", "what": "operation %r raised %r" % (op, e)}
            if op[0] in ("w", "o"):
                expected += _visible(op[2]) + "\n"
            got = stream.fetch()
            if "\x1b" in got or "\r" in got:
                return {"ok": False, "step": i, "cls": "plain|control-code", "what": "control code in plain output %r" % got[-60:]}
            if got != expected:
                return {"ok": False, "step": i, "cls": "plain|not-appended-lines",
                        "what": "after %r the plain stream ends with %r, expected %r" % (op, got[-60:], expected[-60:])}
        return {"ok": True}
    finally:
        if old is None:
            os.environ.pop("COLUMNS", None)
        else:
            os.environ["COLUMNS"] = old


# ----------------------------------------------------------------------------- enumerators
def _op_alphabet(nsec, tick, specs, max_sections=3):
    ops = []
    if nsec < max_sections:
        ops.append(("new",))
    for s in range(nsec):
        for sp in specs:
            ops.append(("w", s, _mk_text(sp, tick)))
        for sp in specs:
            ops.append(("o", s, _mk_text(sp, tick)))
        ops.append(("c", s))
        ops.append(("cn", s, 1))
        ops.append(("cn", s, 2))
    return ops


def _short(ops):
    out = []
    for o in ops:
        if o[0] in ("w", "o"):
            out.append("%s%d(%s)" % (o[0], o[1], "+".join(str(len(_visible(l))) for l in o[2].split("\n"))))
        elif o[0] == "new":
            out.append("new")
        elif o[0] == "c":
            out.append("c%d" % o[1])
        elif o[0] == "ind":
            out.append("ind%d=%d" % (o[1], o[2]))
        elif o[0] == "bad":
            out.append("bad")
        else:
            out.append("c%d(%d)" % (o[1], o[2]))
    return " ".join(out)[:160]


class _Failures(object):
    """at most `per` failures per signature so that one defect does not use up the 25 slots"""

    def __init__(self, ctx, per=4):
        self.ctx, self.per, self.count = ctx, per, {}

    def add(self, sig, what, witness):
        n = self.count.get(sig, 0)
        self.count[sig] = n + 1
        if n < self.per:
            self.ctx.fail(sig, what, witness)

    def note(self):
        return "; ".join("%s x%d" % kv for kv in sorted(self.count.items()))


def _explore(ctx, depth, specs, max_sections, max_states_per_layer=None, initial=1):
    fails = _Failures(ctx)
    frontier = [()]
    seen = set()
    r0 = _run((), W, initial, 0)
    seen.add(repr(r0["state"]))
    complete = True
    for d in range(depth):
        nxt = []
        for hist in frontier:
            if ctx.out_of_time():
                complete = False
                break
            nsec = initial + sum(1 for o in hist if o[0] == "new")
            gg = [[] for _ in range(initial)]
            for o in hist:
                _apply_ghost(gg, o)
            on_screen = any(gg_i for gg_i in gg)
            for op in _op_alphabet(nsec, d, specs, max_sections):
                ops = hist + (op,)
                r = _run(ops, W, initial, len(ops) - 1)
                ctx.case(list(ops), nontrivial=len(ops) >= 2 and on_screen, sample=_short(ops))
                if not r["ok"]:
                    fails.add(r["cls"], r["what"], {"ops": list(ops), "width": W, "sections": initial})
                    continue  # a broken state is not extended
                key = repr(r["state"])
                if key not in seen:
                    seen.add(key)
                    nxt.append(ops)
        if max_states_per_layer and len(nxt) > max_states_per_layer:
            # sampled continuation (stated in the bound): keep a seeded subset
            complete = False
            nxt = ctx.rng.sample(nxt, max_states_per_layer)
        frontier = nxt
        if not complete and ctx.out_of_time():
            break
    return complete, len(seen), fails


def _random_ops(rng, width, length, partial, max_sections):
    lens = [0, 1, width - 1, width, width + 1, 2 * width, 2 * width + 1, 3 * width + 2]
    nsec = 1
    ops = []
    wide = False
    for i in range(length):
        r = rng.random()
        if nsec < max_sections and r < 0.08:
            ops.append(("new",))
            nsec += 1
            continue
        s = rng.randrange(nsec)
        r = rng.random()
        if r < 0.45 or (not partial and r < 0.6):
            k = rng.choice([1, 1, 2, 2, 3])
            spec = [rng.choice(lens) for _ in range(k)]
            text = _mk_text(spec, i)
            if rng.random() < 0.15 and spec[0] >= 2:
                first = text.split("\n")[0]
                text = "<info>" + first[:1] + "</info>" + first[1:] + text[len(first):]
            elif k >= 2 and spec[0] >= 1 and spec[1] >= 1 and rng.random() < 0.25:
                # a style span that opens on the first line and closes on the second
                parts = text.split("\n")
                text = "\n".join(["<info>" + parts[0], parts[1][:1] + "</info>" + parts[1][1:]] + parts[2:])
            wide = wide or any(n > width for n in spec)
            ops.append((rng.choice(["w", "w", "o"]), s, text))
        elif r < 0.75:
            x = rng.random()
            ops.append(("c", s) if x < 0.75 else (("cn", s, 0) if x < 0.92 else ("bad",)))
        elif partial:
            ops.append(("cn", s, rng.choice([1, 1, 2, 3, 4])))
        else:
            ops.append(("c", s))
    return ops, wide


def bounded(ctx):
    quick = ctx.quick
    specs_q = [(3,), (W - 1,), (W,), (W + 1,), (2 * W + 1,), (3, W + 1)]
    specs_t = specs_q + [(0,)]

    # ---- 1. explicit-state exploration, one and two sections
    if quick:
        ctx.check("explore_1sec", "all histories up to depth 5 on one section, width 10, 6 texts (lengths 3,9,10,11,21 and a 2-line text); "
                                  "one representative per distinct state extended")
        complete, nstates, fails = _explore(ctx, 5, specs_q, 1)
        ctx.done(exhaustive=complete, note="distinct states %d; %s" % (nstates, fails.note()))
        ctx.check("explore_2sec", "all histories up to depth 4 over <= 2 sections, width 10, 6 texts (lengths 3,9,10,11,21 and a 2-line text); "
                                  "one representative per distinct state extended")
        complete, nstates, fails = _explore(ctx, 4, specs_q, 2)
        ctx.done(exhaustive=complete, note="distinct states %d; %s" % (nstates, fails.note()))
        ctx.check("explore_3sec", "histories up to depth 4 on three sections (created up front), width 10; at most 150 seeded representative states extended per layer (sampled)")
        complete, nstates, fails = _explore(ctx, 4, specs_q, 3, max_states_per_layer=150, initial=3)
        ctx.done(exhaustive=complete, note="distinct states %d; %s" % (nstates, fails.note()))
    else:
        ctx.check("explore_1sec", "all histories up to depth 6 on one section, width 10, 7 texts (lengths 0,3,9,10,11,21 and a 2-line text); "
                                  "one representative per distinct state extended")
        complete, nstates, fails = _explore(ctx, 6, specs_t, 1)
        ctx.done(exhaustive=complete, note="distinct states %d; %s" % (nstates, fails.note()))
        ctx.check("explore_2sec", "all histories up to depth 6 over <= 2 sections (second one created by an operation), width 10, 5 texts "
                                  "(lengths 3,10,11,21 and a 2-line text); one representative per distinct state extended")
        complete, nstates, fails = _explore(ctx, 6, [sp for sp in specs_q if sp != (W - 1,)], 2)
        ctx.done(exhaustive=complete, note="distinct states %d; %s" % (nstates, fails.note()))
        ctx.check("explore_3sec", "histories up to depth 6 on three sections (created up front), width 10; at most 600 seeded representative states extended per layer (sampled)")
        complete, nstates, fails = _explore(ctx, 6, specs_q, 3, max_states_per_layer=600, initial=3)
        ctx.done(exhaustive=complete, note="distinct states %d; %s" % (nstates, fails.note()))

    # ---- 2. random sequences, without and with partial clears
    for name, partial, n in (("random_full", False, 300 if quick else 5000), ("random_partial", True, 300 if quick else 5000)):
        ctx.check(name, "%d seeded sequences of length 5..40 over 1-3 sections, widths 5/10/20/80, %s" % (
            n, "with clear(n), n in 1..4" if partial else "write_line / overwrite / clear() only"))
        fails = _Failures(ctx)
        for _ in range(n):
            if ctx.out_of_time():
                break
            width = ctx.rng.choice([5, 10, 20, 80])
            ops, wide = _random_ops(ctx.rng, width, ctx.rng.randint(5, 40), partial, 3)
            # ANSI support comes from a forced formatter or (every other sequence) from a capable stream and a plain ANSI formatter
            _CAPABLE[0] = bool(_ & 1) if isinstance(_, int) else False
            try:
                r = _run(ops, width, 1, 0)
            finally:
                capable, _CAPABLE[0] = _CAPABLE[0], False
            ctx.case([width, ops, capable], nontrivial=wide, sample="w=%d %s%s" % (width, _short(ops), " (capable stream)" if capable else ""))
            if not r["ok"]:
                fails.add(r["cls"], r["what"], {"ops": ops[: r["step"] + 1], "width": width, "sections": 1, "capable": capable})
        ctx.done(exhaustive=False, note=fails.note())

    # ---- 2b. sections with an indentation of their own
    n = 200 if quick else 4000
    ctx.check("random_indented", "%d seeded sequences of length 5..30 over 1-3 sections, widths 10/20/80, write_line / overwrite / "
                                 "clear() plus indent(n) on a section (n in 0,1,2,4): every stacked line is shown with the "
                                 "indentation its own section had when it was written, sections below are re-printed as they were" % n)
    fails = _Failures(ctx)
    for _ in range(n):
        if ctx.out_of_time():
            break
        width = ctx.rng.choice([10, 20, 80])
        ops, wide = _random_ops(ctx.rng, width - 4, ctx.rng.randint(5, 30), False, 3)
        # sprinkle indentation changes (the section must exist at that point)
        out_ops = []
        nsec = 1
        for o in ops:
            if ctx.rng.random() < 0.2:
                out_ops.append(("ind", ctx.rng.randrange(nsec), ctx.rng.choice([0, 1, 2, 4])))
            out_ops.append(o)
            if o[0] == "new":
                nsec += 1
        if not any(o[0] == "ind" for o in out_ops):
            out_ops.insert(0, ("ind", 0, 2))
        r = _run(out_ops, width, 1, 0)
        ctx.case([width, out_ops], nontrivial=any(o[0] == "ind" and o[2] > 0 for o in out_ops), sample="w=%d %s" % (width, _short(out_ops)))
        if not r["ok"]:
            fails.add(r["cls"], r["what"], {"ops": out_ops[: r["step"] + 1], "width": width, "sections": 1})
    ctx.done(exhaustive=False, note=fails.note())

    # ---- 3. plain outputs
    ctx.check("plain", "all histories up to depth %d over <= 2 sections (width 10) and %d seeded random sequences up to length 40 "
                       "on an output without ANSI support" % (3, 200 if quick else 3000))
    fails = _Failures(ctx)
    frontier = [()]
    for d in range(3):
        nxt = []
        for hist in frontier:
            nsec = 1 + sum(1 for o in hist if o[0] == "new")
            for op in _op_alphabet(nsec, d, specs_q, 2):
                ops = hist + (op,)
                nxt.append(ops)
                r = run_plain(ops, W)
                ctx.case(list(ops), nontrivial=any(o[0] in ("w", "o") for o in ops), sample=_short(ops))
                if not r["ok"]:
                    fails.add(r["cls"], r["what"], {"ops": list(ops), "width": W, "sections": 1, "plain": True})
        frontier = nxt
    for _ in range(200 if quick else 3000):
        width = ctx.rng.choice([5, 10, 20, 80])
        ops, wide = _random_ops(ctx.rng, width, ctx.rng.randint(5, 40), True, 3)
        r = run_plain(ops, width)
        ctx.case([width, ops], nontrivial=True, sample="w=%d %s" % (width, _short(ops)))
        if not r["ok"]:
            fails.add(r["cls"], r["what"], {"ops": ops[: r["step"] + 1], "width": width, "sections": 1, "plain": True})
    ctx.done(exhaustive=False, note=fails.note())


def replay_bounded(check_id, failure):
    w = failure.get("witness") or {}
    ops = [tuple(o) for o in w.get("ops", [])]
    if w.get("plain"):
        r = run_plain(ops, w.get("width", W), w.get("sections", 1))
    else:
        _CAPABLE[0] = bool(w.get("capable"))
        try:
            r = _run(ops, w.get("width", W), w.get("sections", 1), 0)
        finally:
            _CAPABLE[0] = False
    return {"fails": not r["ok"], "detail": r.get("what", "")}
