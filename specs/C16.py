"""C16 -- see DESIGN.md section 5.  Deductive targets are added below the bounded import."""
PROP = "C16"
from . import progress_contracts as pc
LEVEL = 'proof'
EXPLANATION = ('Deductive: ProgressBar.set_progress / advance / finish preserve the bar invariant (0 <= step <= max, percent == step/max), clamp and grow the maximum as specified, always draw when the maximum is reached, and a frame caused by advancing is at least the minimum interval after the previous one (ghost clock, monotone); the bar segment has exactly bar_width characters in all three branches of bar_offset; the percentage is floor(100*step/max).  Bounded: call sequences x maxima x widths x formats x clock advances on ANSI / plain / section / quiet outputs, frames parsed back, terminal emulator for residue.')
LEVEL_NOTE = ('assumes: display() draws exactly one frame of the current state unless quiet (its placeholder expansion uses re.sub, external); floats as reals; time.time() monotone')
try:
    from .C16_bounded import bounded, BOUNDED_RULE  # noqa: F401
    try:
        from .C16_bounded import replay_bounded  # noqa: F401
    except ImportError:
        pass
except ImportError:
    pass
TARGETS = [pc.PB + m for m in ("set_progress", "advance", "finish", "_formatter_bar", "_formatter_percent", "clear")]
LEMMAS = []

# what this property says about text on the stream rests on the write path of Output / SectionOutput / IO (the text reaches
# the stream iff the gate allows it): those contracts (C10) are re-verified as part of this property
from . import C10 as _c10  # noqa: E402
TARGETS += [t for t in _c10.TARGETS if t not in TARGETS]
