"""C16 -- see DESIGN.md section 5.  Deductive targets are added below the bounded import."""
PROP = "C16"
from . import progress_contracts as pc
LEVEL = "other"
EXPLANATION = "under construction: bounded run-time contract checks on the real code; deductive obligations are being added"
UNDER_CONSTRUCTION = True
NOT_APPLICABLE = "check under construction in this round (see DESIGN.md section 5 for the plan); not claimed yet"
try:
    from .C16_bounded import bounded, BOUNDED_RULE  # noqa: F401
    try:
        from .C16_bounded import replay_bounded  # noqa: F401
    except ImportError:
        pass
except ImportError:
    pass
TARGETS = [pc.PB + m for m in ("set_progress", "advance", "finish", "_formatter_bar", "_formatter_percent")]
LEMMAS = []
