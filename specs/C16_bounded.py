"""C16 bounded tier: a progress bar always shows a truthful, well-formed frame and ends at 100%.

The real ProgressBar is driven by enumerated call sequences under a virtual clock (the module
global `time` of clikit.ui.components.progress_bar is replaced by a shim for the duration of the
check; nothing else sees it).  After every call the text newly written to the buffered stream is
cut into frames and checked against the clauses of the property:

  frame     the bar segment has exactly bar_width visible characters; the current step shown is the
            bar's progress, lies in 0..max and the percentage is floor(100*step/max) (integers);
            a completely filled bar only at step == max
  throttle  a redraw caused by advance/set_progress that does not reach the maximum comes no earlier
            than min_seconds_between_redraws after the previous frame; reaching the maximum always
            draws; finish always draws on overwriting outputs, and after finish the last frame shown
            is max/max (100%)
  ansi      the emulated terminal line (term_emu) shows exactly the latest frame (blank after clear())
  section   the emulated screen shows the untouched line of the section above and the latest frame
  plain     no control characters and every frame on a line of its own
  quiet     nothing is written
"""
import itertools
import os
import re

from .term_emu import Term, strip_sgr

BOUNDED_RULE = (
    "percent_table: every (step, max) with 0 <= step <= max <= 200. "
    "explore_ops: all call sequences up to the stated length over {start, advance(1), advance(3), set_progress(max//2), "
    "set_progress(max), set_progress(max+2), display, clear, finish, set_message(next of 5 messages incl. style tags)} for a fixed "
    "list of configurations (output kind x maximum x format), throttle disabled, clock advance per call cycling through {0,10,50,200,2000} ms. "
    "explore_timing: all sequences of (clock advance in {0,10,50,200,2000} ms, call in {start, advance(1), advance(3), set_progress(max), display, finish}) "
    "with min_seconds_between_redraws = 0.1 on ANSI and plain outputs. "
    "random: seeded sequences of length 1..60 with random configuration (kind ansi/plain/section/quiet, max in {0,1,3,10,50,200}, "
    "bar width in {1,5,28,40}, format default/message/bar-only, min interval 0/0.1/0.5 s, verbosity 0/1/2/4). "
    "A case is distinct by (configuration, sequence) and non-trivial when at least two frames were written (one for quiet outputs: never, they count as trivial)."
)

BASE = 1600000000.0
DTS = [0, 10, 50, 200, 2000]
MESSAGES = ["a considerably longer message than the others", "<info>ab</info>", "working", "<comment>tagged and long message text</comment> tail", "x"]
FORMATS = {
    "default": None,
    "msg": "%message% %current%/%max% |%bar%| %percent:3s%%",
    "bar": "%bar%",
    # the built-in formats addressed by NAME (set_format("normal") etc.): parsed like the default frames
    "name-normal": "normal",
    "name-verbose": "verbose",
    "name-debug": "debug",
}
_CSI = re.compile(r"\x1b\[[0-9;]*[A-Za-z]")
_TAG = re.compile(r"</?(?:info|comment|b)>")
_RE_MAX = re.compile(r"^ *(\d+)/(\d+) \[(.*)\] +(\d+)%(.*)$")
_RE_NOMAX = re.compile(r"^ *(\d+) \[(.*)\](.*)$")
_RE_ML = re.compile(r"^ *(\d+)/(\d+) \[(.{5})\]$")
_RE_MSG = re.compile(r"^(.*) +(\d+)/(\d+) \|(.*)\| +(\d+)%$")


class _Clock(object):
    """stands in for the `time` module inside progress_bar.py"""

    def __init__(self):
        self.ms = 0

    def time(self):
        return BASE + self.ms / 1000.0

    def sleep(self, s):
        self.ms += int(round(s * 1000))


class Problem(Exception):
    def __init__(self, sig, what):
        Exception.__init__(self, what)
        self.sig, self.what = sig, what


_FMT = {}


def _formatter(ansi):
    from clikit.formatter import AnsiFormatter, PlainFormatter

    if ansi not in _FMT:
        _FMT[ansi] = AnsiFormatter(forced=True) if ansi else PlainFormatter()
    return _FMT[ansi]


class Run(object):
    """one progress bar on one output; `step(dt, op)` performs a call and checks everything it wrote"""

    def __init__(self, cfg, clock):
        from clikit.io import BufferedIO
        from clikit.ui.components import ProgressBar

        self.cfg = cfg
        self.clock = clock
        clock.ms = 0
        kind = cfg["kind"]
        self.kind = kind
        io = BufferedIO(formatter=_formatter(kind != "plain"))
        io.set_verbosity(cfg.get("verbosity", 0))
        if kind in ("ansi", "plain"):
            # the bar draws on the ERROR output: the standard output of the same I/O is of the opposite kind (as with
            # `cmd 2> log` or `cmd | less`), which must not matter
            io.output.set_formatter(_formatter(kind == "plain"))
        self.io = io
        target = io
        self.header = None
        if kind == "section":
            above = io.section()
            above.error_output.write_line("HEADER")
            self.header = "HEADER"
            target = io.section()
        if kind == "quiet":
            io.set_quiet(True)
        self.bar = ProgressBar(target, cfg["max"], cfg["min"])
        self.bar.set_bar_width(cfg["width"])
        fmt = FORMATS[cfg["fmt"]]
        if fmt is not None:
            self.bar.set_format(fmt)
        self.msg_i = 0
        self.bar.set_message(MESSAGES[0])
        self.seen = len(io.fetch_error())
        self.term = Term(int(os.environ.get("COLUMNS", "120")) if kind == "section" else 1000)
        self.term.feed(io.fetch_error())
        self.last_frame = None         # parsed dict of the last non-blank frame
        self.last_frame_ms = None
        self.frames = 0
        self.min_ms = int(round(cfg["min"] * 1000))
        self.soft = {}                 # problems after which the run can go on (first of each signature)
        self.had_max = cfg["max"] > 0

    # -- frames
    def _parse(self, text):
        """text: visible frame without trailing blanks -> dict or raises Problem"""
        fmt = self.cfg["fmt"]
        bar = self.bar
        d = {"text": text}
        if fmt == "bar":
            d["bar"] = text
        elif fmt == "msg":
            m = _RE_MSG.match(text)
            if not m:
                raise Problem("frame|unparsable", "frame %r does not have the shape of the format" % text)
            want = _TAG.sub("", MESSAGES[self.msg_i])
            if m.group(1).rstrip(" ") != want:
                raise Problem("frame|message", "frame %r does not show the current message %r" % (text, want))
            d.update(current=int(m.group(2)), max=int(m.group(3)), bar=m.group(4), percent=int(m.group(5)))
        else:
            m = _RE_MAX.match(text)
            if m:
                d.update(current=int(m.group(1)), max=int(m.group(2)), bar=m.group(3), percent=int(m.group(4)))
            else:
                m = _RE_NOMAX.match(text)
                if not m:
                    raise Problem("frame|unparsable", "frame %r does not have the shape of the format" % text)
                d.update(current=int(m.group(1)), bar=m.group(2))
        width = self.cfg["width"]
        if len(d["bar"]) != width:
            raise Problem("frame|bar-width", "bar segment %r has %d characters, configured %d (frame %r)" % (d["bar"], len(d["bar"]), width, text))
        step, mx = bar.get_progress(), bar.get_max_steps()
        if "current" in d:
            if d["current"] != step:
                raise Problem("frame|not-current-state", "frame %r shows step %d, the bar is at %d" % (text, d["current"], step))
            if d["current"] < 0 or (mx > 0 and d["current"] > mx):
                raise Problem("frame|step-out-of-range", "frame %r: step outside 0..%d" % (text, mx))
        if "max" in d and d["max"] != mx:
            raise Problem("frame|not-current-state", "frame %r shows maximum %d, the bar has %d" % (text, d["max"], mx))
        if "percent" in d and mx > 0:
            if d["percent"] != d["current"] * 100 // mx:
                raise Problem("percent-not-floor", "frame %r: %d/%d is %d%%, shown %d%%" % (text, d["current"], mx, d["current"] * 100 // mx, d["percent"]))
        if mx > 0 and len(set(d["bar"])) == 1 and d["bar"][0] == bar.get_bar_character() and step != mx and width > 0:
            raise Problem("frame|bar-full-before-max", "frame %r shows a completely filled bar at %d/%d" % (text, step, mx))
        return d

    def _cut(self, delta, before):
        """the visible frames in the text written by one call (trailing blanks removed; '' = blank frame)"""
        kind = self.kind
        if kind == "quiet":
            if delta:
                raise Problem("quiet|output-written", "quiet output received %r" % delta[:60])
            return []
        if not delta:
            return []
        if kind == "ansi":
            if not delta.startswith("\r"):
                raise Problem("ansi|frame-without-carriage-return", "write %r does not return to the line start" % delta[:60])
            frames = [strip_sgr(p) for p in delta.split("\r")[1:]]
            for f in frames:
                if "\x1b" in f or "\n" in f:
                    raise Problem("ansi|unexpected-control", "single-line frame contains control characters: %r" % f[:60])
            return [f.rstrip(" ") for f in frames]
        if kind == "plain":
            if "\x1b" in delta or "\r" in delta:
                raise Problem("plain|control-code", "control character on a plain output: %r" % delta[:60])
            if before != "" and not before.endswith("\n") and not delta.startswith("\n"):
                sig = "plain-step0-concatenated" if self.bar.get_progress() == 0 else "plain|frames-concatenated"
                self.soft.setdefault(sig, Problem(sig, "frame appended to the previous one on the same line: %r" % (before[-40:] + delta)[:120]))
            body = delta[1:] if delta.startswith("\n") else delta
            return [f.rstrip(" ") for f in body.split("\n")]
        # section
        text = _CSI.sub("", strip_sgr(delta))
        if "\x1b" in text or "\r" in text:
            raise Problem("section|unexpected-control", "unexpected control characters %r" % delta[:60])
        if not text.endswith("\n"):
            raise Problem("section|frame-without-newline", "section frame not terminated: %r" % delta[:60])
        return [f.rstrip(" ") for f in text.split("\n")[:-1]]

    def step(self, dt, op):
        bar = self.bar
        self.clock.ms += dt
        name = op[0]
        before = self.io.fetch_error()
        step_before = bar.get_progress()
        try:
            if name == "start":
                bar.start()
            elif name == "advance":
                bar.advance(op[1])
            elif name == "setp":
                mx = bar.get_max_steps()
                bar.set_progress({"half": (mx // 2) or 2, "max": mx, "over": mx + 2, "neg": -1}[op[1]])
            elif name == "display":
                bar.display()
            elif name == "clear":
                bar.clear()
            elif name == "finish":
                bar.finish()
            elif name == "msg":
                self.msg_i = (self.msg_i + 1) % len(MESSAGES)
                bar.set_message(MESSAGES[self.msg_i])
            else:
                raise AssertionError(op)
        except Exception as e:  # no call of the property's alphabet may fail
            raise Problem("raises|%s" % type(e).__name__, "%s%r raised %r" % (name, tuple(op[1:]), e))
        stream = self.io.fetch_error()
        if not stream.startswith(before):
            raise Problem("stream|rewritten", "the stream is not append-only")
        delta = stream[len(before):]
        texts = self._cut(delta, before)
        frames = []
        for t in texts:
            if t == "":
                if name != "clear":
                    raise Problem("frame|blank", "%s wrote a blank frame" % name)
                continue
            frames.append(self._parse(t))
        now = self.clock.ms
        step, mx = bar.get_progress(), bar.get_max_steps()
        at_max = mx > 0 and step == mx
        if name in ("advance", "setp"):
            # (step == max == 0 on a bar without maximum is not held against the throttle)
            if frames and step != mx and self.last_frame_ms is not None and now - self.last_frame_ms < self.min_ms:
                raise Problem("throttle|redraw-too-early", "%s redrew %d ms after the previous frame, minimum interval %d ms" % (name, now - self.last_frame_ms, self.min_ms))
            if at_max and not frames and self.kind != "quiet":
                raise Problem("throttle|no-frame-at-max", "%s reached the maximum %d without drawing" % (name, mx))
        if name in ("start", "display") and not frames and self.kind != "quiet":
            raise Problem("frame|missing", "%s drew nothing" % name)
        if frames:
            self.last_frame = frames[-1]
            self.last_frame_ms = now
            self.frames += len(frames)
        if name == "finish" and step < step_before:
            raise Problem("finish|progress-lost", "finish moved the bar back from step %d to %d" % (step_before, step))
        if name == "finish" and self.kind != "quiet":
            if not frames and self.kind in ("ansi", "section"):
                raise Problem("finish|no-frame", "finish drew nothing")
            lf = self.last_frame
            fsig = "finish|last-frame-not-final" if (self.had_max or self.kind != "plain") else "finish|plain-nomax-last-frame-not-final"
            if lf is not None:
                if "current" in lf and (lf["current"] != step or step != mx):
                    raise Problem(fsig, "after finish the bar is at %d/%d, the last frame shown is %r" % (step, mx, lf["text"]))
                if "percent" in lf and mx > 0 and lf["percent"] != 100:
                    raise Problem(fsig, "after finish the last frame shows %d%%: %r" % (lf["percent"], lf["text"]))
                if mx > 0 and lf["bar"] != bar.get_bar_character() * self.cfg["width"]:
                    raise Problem(fsig, "after finish the bar segment is not full: %r" % lf["text"])
        # terminal
        if self.kind in ("ansi", "section") and delta:
            self.term.feed(delta)
            if self.term.unknown:
                raise Problem(self.kind + "|unexpected-control", "control sequence outside the terminal model: %r" % self.term.unknown[:3])
            latest = texts[-1] if texts else None
            if latest is not None:
                if self.kind == "ansi":
                    rows = self.term.rows()
                    shown = rows[-1] if rows else ""
                    if len(rows) > 1 or shown != latest:
                        tagged = "<" in MESSAGES[self.msg_i] and self.cfg["fmt"] == "msg"
                        raise Problem("residue-tagged-frame" if tagged else "ansi|residue",
                                      "terminal shows %r, latest frame is %r" % (rows[-2:], latest))
                else:
                    want = [self.header] + ([latest] if latest else [])
                    if self.term.rows() != want:
                        raise Problem("section|screen", "screen shows %r, expected %r" % (self.term.rows(), want))


def run_sequence(cfg, seq, clock):
    """seq: list of [dt_ms, op...]; returns (list of problems, frames written)"""
    run = Run(cfg, clock)
    hard = []
    try:
        for item in seq:
            run.step(item[0], tuple(item[1:]))
    except Problem as p:
        hard.append(p)
    return list(run.soft.values()) + hard, run.frames


# ----------------------------------------------------------------------------- harness plumbing
class _Env(object):
    """virtual clock + fixed COLUMNS for the duration of a check"""

    def __enter__(self):
        import clikit.ui.components.progress_bar as pb

        self.pb = pb
        self.saved = pb.time
        self.clock = _Clock()
        pb.time = self.clock
        self.cols = os.environ.get("COLUMNS")
        os.environ["COLUMNS"] = "120"
        return self.clock

    def __exit__(self, *a):
        self.pb.time = self.saved
        if self.cols is None:
            os.environ.pop("COLUMNS", None)
        else:
            os.environ["COLUMNS"] = self.cols


class _Failures(object):
    def __init__(self, ctx, per=3):
        self.ctx, self.per, self.count = ctx, per, {}

    def add(self, sig, what, witness):
        k = self.count.get(sig, 0)
        self.count[sig] = k + 1
        if k < self.per:
            self.ctx.fail(sig, what, witness)

    def note(self):
        return "; ".join("%s x%d" % kv for kv in sorted(self.count.items()))


OPS_FULL = [("start",), ("advance", 1), ("advance", 3), ("setp", "half"), ("setp", "max"), ("setp", "over"),
            ("display",), ("clear",), ("finish",), ("msg",)]
OPS_SMALL = [("start",), ("advance", 1), ("advance", 3), ("setp", "max"), ("display",), ("clear",), ("finish",)]
OPS_TIMING = [("start",), ("advance", 1), ("advance", 3), ("setp", "max"), ("display",), ("finish",)]


def _cfg(kind, mx, fmt="default", width=5, mn=0.0, verbosity=0):
    return {"kind": kind, "max": mx, "fmt": fmt, "width": width, "min": mn, "verbosity": verbosity}


def _short(cfg, seq):
    return "%s max=%d w=%d %s min=%s: %s" % (cfg["kind"], cfg["max"], cfg["width"], cfg["fmt"], cfg["min"],
                                              " ".join("+%d:%s" % (i[0], "".join(str(x) for x in i[1:])) for i in seq))[:200]


def _sequences(alphabet, length):
    """all sequences of exactly `length` over the alphabet, as index tuples (odometer)"""
    import itertools

    return itertools.product(range(len(alphabet)), repeat=length)


def _explore(ctx, clock, fails, cfg, alphabet, max_len, timed):
    complete = True
    for L in range(1, max_len + 1):
        for idx in _sequences(alphabet, L):
            if timed:
                seq = [[a[0]] + list(a[1]) for a in (alphabet[i] for i in idx)]
            else:
                seq = [[DTS[(k + i) % len(DTS)]] + list(alphabet[i]) for k, i in enumerate(idx)]
            probs, nframes = run_sequence(cfg, seq, clock)
            ctx.case([cfg, seq], nontrivial=nframes >= 2, sample=_short(cfg, seq))
            for prob in probs:
                fails.add(prob.sig, prob.what, {"cfg": cfg, "seq": seq})
        if ctx.out_of_time():
            complete = False
            break
    return complete


def bounded(ctx):
    quick = ctx.quick
    with _Env() as clock:
        # ---- 1. percentage table
        ctx.check("percent_table", "every 0 <= step <= max <= 200: the frame drawn by set_progress(step) on an ANSI output (default format, width 10)")
        fails = _Failures(ctx)
        for mx in range(1, 201):
            cfg = _cfg("ansi", mx, width=10)
            run = Run(cfg, clock)
            for step in range(0, mx + 1):
                try:
                    run.step(10, ("display",)) if step == 0 else run.step(10, ("advance", 1))
                except Problem as p:
                    fails.add(p.sig, p.what, {"cfg": cfg, "seq": [[10, "display"]] + [[10, "advance", 1]] * step})
                ctx.case([mx, step], nontrivial=0 < step < mx, sample="%d/%d" % (step, mx))
        ctx.done(exhaustive=True, note=fails.note())

        # ---- 2. call sequences, throttle disabled
        if quick:
            plan = [(_cfg("ansi", 10), OPS_FULL, 4), (_cfg("ansi", 0), OPS_SMALL, 4), (_cfg("ansi", 3, "msg"), OPS_FULL, 3),
                    (_cfg("plain", 10), OPS_SMALL, 4), (_cfg("plain", 0), OPS_FULL, 3), (_cfg("section", 10), OPS_SMALL, 4),
                    (_cfg("section", 3, "msg"), OPS_FULL, 3), (_cfg("quiet", 10), OPS_SMALL, 3), (_cfg("ansi", 1, "bar", 1), OPS_SMALL, 3)]
        else:
            plan = [(_cfg("ansi", 10), OPS_SMALL, 6), (_cfg("plain", 10), OPS_SMALL, 6), (_cfg("section", 10), OPS_SMALL, 6),
                    (_cfg("ansi", 0), OPS_SMALL, 5), (_cfg("plain", 0), OPS_SMALL, 5), (_cfg("ansi", 10), OPS_FULL, 5),
                    (_cfg("ansi", 3, "msg"), OPS_FULL, 5), (_cfg("ansi", 0, "msg"), OPS_FULL, 4), (_cfg("plain", 3, "msg"), OPS_FULL, 4),
                    (_cfg("section", 0), OPS_FULL, 4), (_cfg("section", 3, "msg"), OPS_FULL, 4), (_cfg("quiet", 10), OPS_FULL, 4),
                    (_cfg("ansi", 1, "bar", 1), OPS_SMALL, 5), (_cfg("ansi", 50, "default", 28, 0.0, 2), OPS_SMALL, 5),
                    (_cfg("plain", 200, "default", 40, 0.0, 1), OPS_SMALL, 5)]
        ctx.check("explore_ops", "all call sequences up to length L, throttle disabled, for the configurations (kind,max,format,L): " + ", ".join(
            "(%s,%d,%s,%d ops,L=%d)" % (c["kind"], c["max"], c["fmt"], len(a), L) for c, a, L in plan))
        fails = _Failures(ctx)
        complete = True
        for cfg, alphabet, L in plan:
            complete = _explore(ctx, clock, fails, cfg, alphabet, L, False) and complete
        ctx.done(exhaustive=complete, note=fails.note())

        # ---- 3. timing
        timed = [(dt, op) for dt in DTS for op in OPS_TIMING]
        Lt = 3 if quick else 4
        plan = [(_cfg("ansi", 10, mn=0.1), Lt), (_cfg("plain", 10, mn=0.1), 3)]
        if not quick:
            plan += [(_cfg("ansi", 0, mn=0.1), 3), (_cfg("section", 3, mn=0.1), 3), (_cfg("plain", 0, mn=0.1), 3), (_cfg("ansi", 200, mn=0.5), 3)]
        ctx.check("explore_timing", "all sequences of (clock advance in {0,10,50,200,2000} ms, call in {start, advance(1), advance(3), set_progress(max), display, finish}) "
                                    "up to length L with a minimum redraw interval, for (kind,max,min,L): " + ", ".join(
            "(%s,%d,%s,%d)" % (c["kind"], c["max"], c["min"], L) for c, L in plan))
        fails = _Failures(ctx)
        complete = True
        for cfg, L in plan:
            complete = _explore(ctx, clock, fails, cfg, timed, L, True) and complete
        ctx.done(exhaustive=complete, note=fails.note())

        # ---- 4. random
        n = 400 if quick else 20000
        ctx.check("random", "%d seeded sequences of length 1..60 with random configuration (kind, max in {0,1,3,10,50,200}, bar width in {1,5,28,40}, "
                            "format, min interval 0/0.1/0.5, verbosity) and clock advances" % n)
        fails = _Failures(ctx)
        rng = ctx.rng
        ops_all = OPS_FULL + [("setp", "neg"), ("advance", 10), ("advance", -1), ("advance", 0)]
        for _ in range(n):
            if ctx.out_of_time():
                break
            cfg = _cfg(rng.choice(["ansi", "ansi", "plain", "plain", "section", "quiet"]), rng.choice([0, 1, 3, 10, 50, 200]),
                       rng.choice(["default", "default", "msg", "bar", "name-normal", "name-verbose", "name-debug"]), rng.choice([1, 5, 28, 40]), rng.choice([0.0, 0.1, 0.1, 0.5]),
                       rng.choice([0, 0, 1, 2, 4]))
            seq = [[rng.choice(DTS)] + list(rng.choice(ops_all)) for _ in range(rng.randint(1, 60))]
            probs, nframes = run_sequence(cfg, seq, clock)
            ctx.case([cfg, seq], nontrivial=nframes >= 2, sample=_short(cfg, seq))
            for prob in probs:
                fails.add(prob.sig, prob.what, {"cfg": cfg, "seq": seq})
        ctx.done(exhaustive=False, note=fails.note())

        # ---- 5. multi-line format
        ctx.check("multiline", "format '%message%\\n%current%/%max% [%bar%]' on an ANSI output below one line of other text: "
                               "all sequences up to length 3 over {start, advance(1), display, clear, finish, set_message}")
        fails = _Failures(ctx)
        alphabet = [("start",), ("advance", 1), ("display",), ("clear",), ("finish",), ("msg",)]
        for L in (1, 2, 3):
            for idx in _sequences(alphabet, L):
                seq = [[0] + list(alphabet[i]) for i in idx]
                prob = run_multiline(seq, clock)
                ctx.case(seq, nontrivial=L >= 2, sample=" ".join(s[1] for s in seq))
                if prob is not None:
                    fails.add(prob.sig, prob.what, {"multiline": True, "seq": seq})
        ctx.done(exhaustive=True, note=fails.note())

        # ---- 5b. multi-line format on a plain output
        ctx.check("multiline_plain", "the same two-line format on an output without ANSI support: all sequences up to length 3 over "
                                     "{start, advance(1), display, clear, finish, set_message}; no control character ever reaches "
                                     "the stream and the line written before the bar stays the first line")
        fails = _Failures(ctx)
        for L in (1, 2, 3):
            for idx in _sequences(alphabet, L):
                seq = [[0] + list(alphabet[i]) for i in idx]
                prob = run_multiline_plain(seq, clock)
                ctx.case(seq, nontrivial=L >= 2, sample=" ".join(s[1] for s in seq))
                if prob is not None:
                    fails.add(prob.sig, prob.what, {"multiline": True, "plain": True, "seq": seq})
        ctx.done(exhaustive=True, note=fails.note())

        # ---- 6. multi-line format on a section output
        ctx.check("multiline_section", "the same two-line format on a section output below another section (terminal 120 columns): "
                                       "all sequences up to length 3 over {start, advance(1), display, clear, finish, set_message}; "
                                       "the screen shows the header section and exactly the latest frame")
        fails = _Failures(ctx)
        for L in (1, 2, 3):
            for idx in _sequences(alphabet, L):
                seq = [[0] + list(alphabet[i]) for i in idx]
                prob = run_multiline(seq, clock, section=True)
                ctx.case(seq, nontrivial=L >= 2, sample=" ".join(s[1] for s in seq))
                if prob is not None:
                    fails.add("section-" + prob.sig, prob.what, {"multiline": True, "section": True, "seq": seq})
        ctx.done(exhaustive=True, note=fails.note())

        # ---- 7. two bars on two sections, the lower one with frames exactly as wide as the terminal
        ctx.check("two_sections_exact_width", "two bars on two sections below a header section, terminal 30 columns, the lower bar's frame "
                                              "exactly 30 columns wide: all advance sequences up to length 4 over {upper, lower}; the "
                                              "screen shows the header and the latest frame of either bar, each on its own row")
        fails = _Failures(ctx)
        for L in (1, 2, 3, 4):
            for combo in itertools.product("ab", repeat=L):
                prob = run_two_sections(list(combo), clock)
                ctx.case(list(combo), nontrivial=len(set(combo)) > 1, sample="".join(combo))
                if prob is not None:
                    fails.add(prob.sig, prob.what, {"two_sections": True, "seq": list(combo)})
        ctx.done(exhaustive=True, note=fails.note())


def run_two_sections(seq, clock, width=30):
    """two bars on two sections of one ANSI output below a header section; the lower bar draws frames EXACTLY as wide as the
    terminal (one terminal row each); seq: list of 'a' / 'b' (advance the upper / the lower bar); after every call the
    screen shows the header, the latest frame of the upper bar and the latest frame of the lower bar"""
    from clikit.io import BufferedIO
    from clikit.ui.components import ProgressBar

    clock.ms = 0
    old = os.environ.get("COLUMNS")
    os.environ["COLUMNS"] = str(width)
    try:
        io = BufferedIO(formatter=_formatter(True))
        head = io.section()
        head.error_output.write_line("HEADER")
        sa, sb = io.section(), io.section()
        a = ProgressBar(sa, 10, 0)
        a.set_bar_width(5)
        a.set_format("%current%/%max% [%bar%]")
        b = ProgressBar(sb, 10, 0)
        b.set_bar_width(width - 3)
        b.set_format("%current:2s% %bar%")  # 2 + 1 + (width - 3) = width columns
        try:
            a.start()
            b.start()
            for who in seq:
                (a if who == "a" else b).advance(1)
                rows = Term(width).feed(io.fetch_error()).rows()
                fa = "%2d/10 [" % a.get_progress()
                fb = "%2d " % b.get_progress()
                ok = (len(rows) == 3 and rows[0] == "HEADER" and rows[1].startswith(fa) and rows[2].startswith(fb)
                      and len(rows[2]) == width)
                if not ok:
                    return Problem("two-sections|exact-width-frame|screen", "after %r (terminal %d columns) the screen shows %r; expected "
                                   "HEADER, the upper bar at %d and the lower bar at %d in a frame of %d columns"
                                   % ("".join(seq), width, rows, a.get_progress(), b.get_progress(), width))
        except Exception as e:
            return Problem("two-sections|raises", "%r raised %r" % ("".join(seq), e))
    finally:
        if old is None:
            os.environ.pop("COLUMNS", None)
        else:
            os.environ["COLUMNS"] = old
    return None


def run_multiline_plain(seq, clock):
    """two-line frames on an output without ANSI support: frames are appended, never a control code"""
    from clikit.io import BufferedIO
    from clikit.ui.components import ProgressBar

    clock.ms = 0
    io = BufferedIO(formatter=_formatter(False))
    io.error_output.write_line("HEADER")
    bar = ProgressBar(io, 10, 0)
    bar.set_bar_width(5)
    bar.set_format("%message%\n%current%/%max% [%bar%]")
    mi = 0
    bar.set_message(MESSAGES[0])
    for item in seq:
        name = item[1]
        try:
            if name == "start":
                bar.start()
            elif name == "advance":
                bar.advance(item[2])
            elif name == "display":
                bar.display()
            elif name == "clear":
                bar.clear()
            elif name == "finish":
                bar.finish()
            elif name == "msg":
                mi = (mi + 1) % len(MESSAGES)
                bar.set_message(MESSAGES[mi])
        except Exception as e:
            return Problem("multiline-plain|raises", "%s raised %r" % (name, e))
        text = io.fetch_error()
        if "\x1b" in text or "\r" in text:
            return Problem("multiline-plain|control-code", "after %s the plain output holds a control character: %r" % (name, text[-80:]))
        if not text.startswith("HEADER\n"):
            return Problem("multiline-plain|line-above-lost", "after %s the output starts with %r" % (name, text[:20]))
    return None


def run_multiline(seq, clock, section=False):
    """two-line frames: the line written before the bar must survive, the two lines below show the latest frame
    (section=True: the bar owns a section output below another section that holds the header line)"""
    from clikit.io import BufferedIO
    from clikit.ui.components import ProgressBar

    clock.ms = 0
    io = BufferedIO(formatter=_formatter(True))
    target = io
    if section:
        above = io.section()
        above.error_output.write_line("HEADER")
        target = io.section()
    else:
        io.error_output.write_line("HEADER")
    bar = ProgressBar(target, 10, 0)
    bar.set_bar_width(5)
    bar.set_format("%message%\n%current%/%max% [%bar%]")
    mi = 0
    bar.set_message(MESSAGES[0])
    drawn = False
    for item in seq:
        name = item[1]
        try:
            if name == "start":
                bar.start()
            elif name == "advance":
                bar.advance(item[2])
            elif name == "display":
                bar.display()
            elif name == "clear":
                bar.clear()
            elif name == "finish":
                bar.finish()
            elif name == "msg":
                mi = (mi + 1) % len(MESSAGES)
                bar.set_message(MESSAGES[mi])
        except Exception as e:
            return Problem("multiline-format|raises", "%s raised %r" % (name, e))
        if name in ("start", "advance", "display", "finish"):
            drawn = True
        rows = Term(1000).feed(io.fetch_error()).rows()
        if not rows or rows[0] != "HEADER":
            return Problem("multiline-format|line-above-overwritten", "after %s the line above the bar shows %r instead of 'HEADER'" % (name, rows[:1]))
        if drawn and name != "clear" and name != "msg":
            m = _RE_ML.match(rows[2]) if len(rows) == 3 else None
            if m is None or rows[1] != _TAG.sub("", MESSAGES[mi]) or int(m.group(1)) != bar.get_progress() or int(m.group(2)) != bar.get_max_steps():
                tagged = "<" in MESSAGES[mi]
                return Problem("residue-tagged-frame" if tagged else "multiline-format|residue",
                               "screen shows %r, expected HEADER, %r and the frame of %d/%d" % (rows, _TAG.sub("", MESSAGES[mi]), bar.get_progress(), bar.get_max_steps()))
        if name == "clear" and rows != ["HEADER"]:
            return Problem("multiline-format|residue", "after clear the screen shows %r" % (rows,))
    return None


def replay_bounded(check_id, failure):
    w = failure.get("witness") or {}
    with _Env() as clock:
        if w.get("two_sections"):
            prob = run_two_sections(w["seq"], clock)
        elif w.get("multiline") and w.get("plain"):
            prob = run_multiline_plain(w["seq"], clock)
        elif w.get("multiline"):
            prob = run_multiline(w["seq"], clock, section=bool(w.get("section")))
        else:
            probs, _ = run_sequence(w["cfg"], w["seq"], clock)
            probs = [p for p in probs if p.sig == failure.get("signature")] or probs
            prob = probs[0] if probs else None
    return {"fails": prob is not None, "detail": "" if prob is None else "%s: %s" % (prob.sig, prob.what)}
