"""C17 -- see DESIGN.md section 5.  Deductive targets are added below the bounded import."""
PROP = "C17"
LEVEL = 'other'
EXPLANATION = ('Deductive: HelpResolver.create_resolved_command restores the lenient-parsing setting of the resolved command on every exit, normal or exceptional; every style factory (BorderStyle.none/ascii/solid, TableStyle.borderless/compact/ascii/solid) returns a fresh object graph (style, border style, alignment list) with exactly the documented field values, stores in the prototype cache only an object it created, never hands a prototype out and changes no field of an existing one, and the canonical-prototype class invariant is preserved (class variables as heap state, copy.copy as field-wise shallow copy; an AST obligation shows that only the factories assign the cache); a package-wide AST obligation shows that no module holds module- or class-level state that its code mutates, except those prototypes and the trace snippet cache; three more AST frame obligations show that ConsoleApplication, Command and Config are written only while they are built (constructor, set_ / add_ / enable_ / disable_ methods): run(), resolve_command(), handle(), parse() and every getter store nothing into the receiver or an object reached from it.  Bounded: run histories on one application vs fresh ones, style construction orders, double renders, trace cache across I/O kinds.')
LEVEL_NOTE = ('assumes: Command.parse does not modify the configuration; the class invariant of the prototype cache is a precondition of the factories, justified by encapsulation (fresh results + frame + the structural obligation), `cls` is taken to be the declaring class (no subclass shadows the cache); trace caches, double renders and end-to-end histories are bounded only')
from . import resolver_contracts as rc
from . import tablestyle_contracts as tsc
TARGETS = [rc.M_HELP + ":HelpResolver.create_resolved_command"] + tsc.TARGETS + [tsc.sc.ANSI_FORMAT_STACK]


# shared mutable state that exists on purpose, each covered by its own obligations
ALLOWED_SHARED_STATE = {
    "clikit.ui.style.border_style": ("BorderStyle._", "the prototype cache of the border styles: style-factory contracts + only_factories_assign_prototypes"),
    "clikit.ui.components.exception_trace": ("_FRAME_SNIPPET_CACHE", "the class-level snippet cache of the trace, keyed by frame and options: C17.B.trace_io_orders, C20.B.debug_frame_snippets"),
}


from .frame_written import written_only_while_built  # noqa: E402


def structural():
    """besides the style prototypes, one more package-wide frame obligation: no module of clikit holds module- or class-level
    state that its code mutates or re-binds, except the two caches listed above"""
    import os
    from pyvc import frontend, structural as st
    out = tsc.structural("C17")
    P = frontend.Program()
    bad = []
    n = 0
    for dirpath, _dirs, files in os.walk(P.src):
        for f in sorted(files):
            if not f.endswith(".py"):
                continue
            mod = os.path.relpath(os.path.join(dirpath, f), os.path.dirname(P.src.rstrip("/")) if P.src.rstrip("/").endswith("clikit") else P.src)[:-3].replace(os.sep, ".")
            if mod.endswith(".__init__"):
                mod = mod[:-9]
            try:
                mi = P.module(mod)
            except Exception:
                continue
            n += 1
            for finding in st.shared_mutable_state(mi):
                allow = ALLOWED_SHARED_STATE.get(mod)
                if allow is not None and allow[0] in finding:
                    continue
                bad.append("%s: %s" % (mod, finding))
    out.append({
        "name": "C17.package.frame.no_other_shared_state", "kind": "frame",
        "text": "no module of the package holds a module- or class-level object that its code mutates or re-binds (nor declares a "
                "global), except the border-style prototypes and the trace snippet cache: nothing else can carry information from "
                "one run or rendering to the next outside the objects handed around",
        "status": "proved" if not bad else "failed",
        "note": "; ".join(bad[:6]) if bad else "%d modules scanned" % n,
    })
    out += written_only_while_built("C17")
    return out
LEMMAS = []
try:
    from .C17_bounded import bounded, BOUNDED_RULE  # noqa: F401
    try:
        from .C17_bounded import replay_bounded  # noqa: F401
    except ImportError:
        pass
except ImportError:
    pass
