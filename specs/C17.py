"""C17 -- see DESIGN.md section 5.  Deductive targets are added below the bounded import."""
PROP = "C17"
LEVEL = "other"
EXPLANATION = 'bounded stand-in: run histories on one application vs fresh ones, style construction orders, double renders'
from . import resolver_contracts as rc
TARGETS = [rc.M_HELP + ":HelpResolver.create_resolved_command"]
LEMMAS = []
try:
    from .C17_bounded import bounded, BOUNDED_RULE  # noqa: F401
    try:
        from .C17_bounded import replay_bounded  # noqa: F401
    except ImportError:
        pass
except ImportError:
    pass
