"""C17 -- see DESIGN.md section 5.  Deductive targets are added below the bounded import."""
PROP = "C17"
LEVEL = 'other'
EXPLANATION = ('Deductive: HelpResolver.create_resolved_command restores the lenient-parsing setting of the resolved command on every exit, normal or exceptional; every style factory (BorderStyle.none/ascii/solid, TableStyle.borderless/compact/ascii/solid) returns a fresh object graph (style, border style, alignment list) with exactly the documented field values, stores in the prototype cache only an object it created, never hands a prototype out and changes no field of an existing one, and the canonical-prototype class invariant is preserved (class variables as heap state, copy.copy as field-wise shallow copy; an AST obligation shows that only the factories assign the cache).  Bounded: run histories on one application vs fresh ones, style construction orders, double renders, trace cache across I/O kinds.')
LEVEL_NOTE = ('assumes: Command.parse does not modify the configuration; the class invariant of the prototype cache is a precondition of the factories, justified by encapsulation (fresh results + frame + the structural obligation), `cls` is taken to be the declaring class (no subclass shadows the cache); trace caches, double renders and end-to-end histories are bounded only')
from . import resolver_contracts as rc
from . import tablestyle_contracts as tsc
TARGETS = [rc.M_HELP + ":HelpResolver.create_resolved_command"] + tsc.TARGETS + [tsc.sc.ANSI_FORMAT_STACK]


def structural():
    return tsc.structural("C17")
LEMMAS = []
try:
    from .C17_bounded import bounded, BOUNDED_RULE  # noqa: F401
    try:
        from .C17_bounded import replay_bounded  # noqa: F401
    except ImportError:
        pass
except ImportError:
    pass
