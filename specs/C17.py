"""C17 -- see DESIGN.md section 5.  Deductive targets are added below the bounded import."""
PROP = "C17"
LEVEL = 'other'
EXPLANATION = ('Deductive: HelpResolver.create_resolved_command restores the lenient-parsing setting of the resolved command on every exit, normal or exceptional.  Bounded: run histories on one application vs fresh ones, style construction orders, double renders, trace cache across I/O kinds.')
LEVEL_NOTE = ('assumes: Command.parse does not modify the configuration; style factories, caches and end-to-end histories are bounded only')
from . import resolver_contracts as rc
TARGETS = [rc.M_HELP + ":HelpResolver.create_resolved_command"]
LEMMAS = []
try:
    from .C17_bounded import bounded, BOUNDED_RULE  # noqa: F401
    try:
        from .C17_bounded import replay_bounded  # noqa: F401
    except ImportError:
        pass
except ImportError:
    pass
