"""C17 (bounded tier) -- what is rendered does not depend on what was processed before.

Three families of run-time checks on the real clikit code, oracle from the property statement:

(a) histories  -- one ConsoleApplication object is run on a sequence of command lines; every run must give
    the same (status, stdout, stderr, handler calls) as a freshly built identical application gives for that
    line alone, in the same process; plus: passing the same RawArgs object to two runs (the anchors list
    "raw argument tokens edited in place").
(b) styles     -- all orders of constructing the predefined table styles, customising one of them, and
    rendering tables with the others: the output of a table with style X must be what X gives in a process
    where nothing else was created before.  Every order runs in a forked child, the references too, so the
    class-level singletons of the real code start pristine each time.
(c) components -- every stateless component rendered twice (fresh I/O each time, and twice onto one I/O)
    gives identical output and leaves its inputs unchanged; the exception trace is additionally rendered on
    I/Os with and without UTF-8 support in both orders and compared with pristine (forked) references.
"""
import copy
import itertools
import json
import os
import random
import select
import signal
import time

BOUNDED_RULE = (
    "(a) sequences over a fixed alphabet of 34 command lines (valid, missing/too many arguments, bad option value, "
    "unknown command/option, help in both forms incl. failing help requests, version, verbosity, quiet, a raising and a "
    "non-zero handler, a lenient command) on one application vs a fresh application per line; all ordered pairs, then "
    "seeded samples of the longer lengths; a history is non-trivial when it has >= 2 lines and at least one line is a help "
    "request or fails; (b) all 24 orders of the 4 TableStyle factories x {no customisation, customise the k-th created style "
    "in one of 4 ways} (+ seeded orders of all 7 factories incl. BorderStyle.none/ascii/solid in thorough), one forked child "
    "per case; non-trivial when at least 2 styles are involved; (c) each component x I/O configuration rendered twice; "
    "keys are the canonical forms (line tuples / order+customisation / component id+io config)"
)

# ------------------------------------------------------------------------------------------ forked evaluation
class ChildError(Exception):
    pass


def in_child(fn, timeout=30):
    """run fn() in a forked child (pristine copies of the class-level state as of now); returns its json result"""
    r, w = os.pipe()
    pid = os.fork()
    if pid == 0:
        code = 0
        try:
            os.close(r)
            try:
                payload = json.dumps({"ok": fn()})
            except BaseException as e:  # noqa -- reported to the parent, which decides
                payload = json.dumps({"exc": "%s: %s" % (type(e).__name__, e)})
            with os.fdopen(w, "w") as f:
                f.write(payload)
        except BaseException:  # noqa
            code = 1
        finally:
            os._exit(code)
    os.close(w)
    chunks = []
    deadline = time.time() + timeout
    with os.fdopen(r, "r") as f:
        while True:
            left = deadline - time.time()
            if left <= 0:
                os.kill(pid, signal.SIGKILL)
                os.waitpid(pid, 0)
                return {"exc": "Timeout: child did not finish in %ds" % timeout}
            ready, _, _ = select.select([f], [], [], left)
            if ready:
                data = f.read()
                chunks.append(data)
                break
    os.waitpid(pid, 0)
    try:
        return json.loads("".join(chunks))
    except ValueError:
        raise ChildError("child returned no result")


class _Failer:
    def __init__(self, ctx, per_sig=3):
        self.ctx = ctx
        self.count = {}
        self.per_sig = per_sig

    def __call__(self, sig, what, witness):
        n = self.count.get(sig, 0)
        self.count[sig] = n + 1
        if n < self.per_sig:
            self.ctx.fail(sig, what, witness)


# ------------------------------------------------------------------------------------------ (a) histories
class Recorder:
    def __init__(self, log, status=None, raises=None):
        self.log = log
        self.status = status
        self.raises = raises

    def handle(self, args, io, command):
        self.log.append({
            "command": command.full_name,
            "arguments": args.arguments(),
            "options": args.options(),
            "given_arguments": args.arguments(False),
            "given_options": args.options(False),
            "tokens": list(args.raw_args.tokens),
        })
        io.write_line("<info>ran</info> %s" % command.full_name)
        io.error_line("err of %s" % command.full_name)
        io.write_line("verbose only", 1)
        if self.raises:
            raise self.raises("handler of %s failed" % command.full_name)
        return self.status


class Styler(Recorder):
    """registers a style of its own on the formatters of THIS run's io, then uses it"""

    def handle(self, args, io, command):
        from clikit.api.formatter import Style

        io.output.formatter.add_style(Style("zz").fg("red").bold())
        io.error_output.formatter.add_style(Style("zz").fg("red").bold())
        io.write_line("<zz>styled</zz> by %s" % command.full_name)
        return Recorder.handle(self, args, io, command)


class StyleUser(Recorder):
    """uses the tag <zz> without registering it: unknown to the formatters of a fresh run"""

    def handle(self, args, io, command):
        io.write_line("<zz>text</zz> of %s" % command.full_name)
        io.error_line("<zz>err</zz> of %s" % command.full_name)
        return Recorder.handle(self, args, io, command)


def counting_handler_factory(log):
    """a handler FACTORY (Config.handler calls a callable handler on every access): every run gets a new handler object,
    whose own state therefore always starts from scratch"""
    class Counting(Recorder):
        def __init__(self):
            Recorder.__init__(self, log)
            self.seen = 0

        def handle(self, args, io, command):
            self.seen += 1
            io.write_line("call %d of this handler object" % self.seen)
            return Recorder.handle(self, args, io, command)

    return Counting


def build_history_app():
    from clikit import ConsoleApplication
    from clikit.api.args.format import Argument, Option
    from clikit.config import DefaultApplicationConfig

    log = []
    config = DefaultApplicationConfig("app", "1.0.0")
    config.set_terminate_after_run(False)
    config.add_option("glob", "g", Option.REQUIRED_VALUE, "A global option", "gd")
    with config.command("foo") as c:
        c.set_description("The foo command")
        c.add_alias("fo")
        c.add_argument("x", Argument.REQUIRED, "The x")
        c.add_argument("y", Argument.OPTIONAL, "The y", "ydef")
        c.add_option("num", "k", Option.REQUIRED_VALUE | Option.INTEGER, "A number", 1)
        c.add_option("flag", "f", Option.NO_VALUE, "A flag")
        c.set_handler(Recorder(log))
        with c.sub_command("bar") as s:
            s.set_description("The bar sub-command")
            s.add_argument("z", Argument.OPTIONAL, "The z")
            s.add_option("opt", "o", Option.NO_VALUE, "An option")
            s.set_handler(Recorder(log))
    with config.command("multi") as c:
        c.set_description("Takes many")
        c.add_argument("items", Argument.MULTI_VALUED | Argument.INTEGER, "Items")
        c.add_option("tag", "t", Option.MULTI_VALUED, "Tags")
        c.set_handler(Recorder(log))
    with config.command("lax") as c:
        c.set_description("Parses leniently")
        c.enable_lenient_args_parsing()
        c.add_argument("a", Argument.REQUIRED, "The a")
        c.set_handler(Recorder(log))
    with config.command("grp") as c:
        c.set_description("Has a default sub-command")
        c.set_handler(Recorder(log))
        with c.sub_command("list") as s:
            s.default()
            s.add_argument("what", Argument.OPTIONAL, "What")
            s.set_handler(Recorder(log))
        with c.sub_command("add") as s:
            s.add_argument("item", Argument.REQUIRED, "Item")
            s.set_handler(Recorder(log))
    with config.command("ret") as c:
        c.set_handler(Recorder(log, status=3))
    with config.command("boom") as c:
        c.set_handler(Recorder(log, raises=RuntimeError))
    with config.command("style") as c:
        c.set_handler(Styler(log))
    with config.command("usezz") as c:
        c.set_handler(StyleUser(log))
    with config.command("cnt") as c:
        c.set_handler(counting_handler_factory(log))
    return ConsoleApplication(config), log


TTY = "@tty "
LINES = [
    # valid
    "foo a", "foo a b --num=3 -f", "fo a -k 4", "foo bar", "foo bar zz --opt", "multi 1 2 3 -t p -t q", "grp", "grp add it",
    "ret", "lax a", "lax a extra --bogus", "foo a --glob=G",
    # invalid
    "foo", "foo x y z", "foo a --num=abc", "foo a --bogus", "nope", "multi one", "grp add",
    # help, both forms, succeeding and failing
    "help", "--help", "help foo", "foo --help", "foo bar -h", "help lax", "lax --help", "help grp", "help nope",
    "foo --num=abc -h", "foo x y",
    # version, verbosity, quiet, a failing handler
    "--version", "foo a -V", "boom", "boom -vvv", "foo a -v", "foo a -q", "--ansi foo a",
    # what one run does to its formatters (a style registered by a handler, a style left open by unbalanced markup in an
    # error message) is gone with that run
    # (closing tags are spelled in two pieces: this file is itself the source of frames rendered by the trace checks, and
    # unbalanced markup in a source line is the known C20 finding mismatched-tags-in-source)
    # token lists that differ although they join to the same text; a handler built per run by a factory
    'foo "a b"', "foo a b", "cnt",
    # the kind of stream of one run (terminal / pipe) is that run's business
    TTY + "foo a", TTY + "foo a --no-ansi", TTY + "nope",
    "style", "usezz", "style --ansi", "usezz --ansi", "'<" + "/info>' --ansi", "'<error>' --ansi", "'<" + "/info>' --no-ansi",
]
LINES = list(dict.fromkeys(LINES))

def line_class(line):
    toks = line.split()
    if toks[:1] == [TTY.strip()]:
        toks = toks[1:]
    if toks[:1] == ["help"] or "--help" in toks or "-h" in toks:
        return "help"
    if "--version" in toks or "-V" in toks:
        return "version"
    return "run"


def run_one(app, log, line, args=None):
    from clikit.args import StringArgs
    from clikit.io.input_stream import StringInputStream
    from clikit.io.output_stream import BufferedOutputStream

    out, err = BufferedOutputStream(), BufferedOutputStream()
    if line.startswith(TTY):
        # this run writes to streams that announce ANSI support (a terminal); the others to plain buffers (a pipe)
        line = line[len(TTY):]

        class Capable(BufferedOutputStream):
            def supports_ansi(self):
                return True

        out, err = Capable(), Capable()
    if args is None:
        args = StringArgs(line)
    before = len(log)
    try:
        status = app.run(args, StringInputStream(""), out, err)
        exc = None
    except Exception as e:  # catching is on: an exception leaving run is itself an observation
        status = None
        exc = "%s: %s" % (type(e).__name__, e)
    return {"status": status, "exception": exc, "stdout": out.fetch(), "stderr": err.fetch(), "calls": copy.deepcopy(log[before:])}


def diff_fields(a, b):
    return [k for k in ("status", "exception", "stdout", "stderr", "calls") if a[k] != b[k]]


def _history_class(prev_lines):
    """coarse, stable class of what the application processed before the differing run"""
    cl = [(line_class(l), _fresh_fails(l)) for l in prev_lines]
    if any(c == "help" and f for c, f in cl):
        return "after-failing-help-request"
    if any(c == "help" for c, f in cl):
        return "after-help-request"
    if any(f for c, f in cl):
        return "after-failed-run"
    return "after-successful-runs"


def check_history(lines):
    """returns list of (signature, what); lines: tuple of command lines run on one application.
    (The first run of a new application IS a fresh run, so comparisons start with the second.)"""
    fails = []
    app, log = build_history_app()
    for i, line in enumerate(lines):
        got = run_one(app, log, line)
        if i == 0:
            continue
        want = _fresh_run(line)
        d = diff_fields(got, want)
        if d:
            fails.append(("history|%s|%s-differs" % (_history_class(lines[:i]), line_class(line)),
                          "run %d (%r) after %r differs from a fresh application in %s: reused %s, fresh %s" % (
                              i + 1, line, list(lines[:i]), d, _brief(got, d), _brief(want, d))))
            break
    return fails


_FRESH = {}
_FRESH_RUN = {}


def _fresh_run(line):
    """what a freshly built application gives for this line (computed once per line: a new application and new streams
    every time give the same result)"""
    if line not in _FRESH_RUN:
        fapp, flog = build_history_app()
        _FRESH_RUN[line] = run_one(fapp, flog, line)
    return _FRESH_RUN[line]



def _fresh_fails(line):
    if line not in _FRESH:
        app, log = build_history_app()
        r = run_one(app, log, line)
        _FRESH[line] = r["status"] != 0
    return _FRESH[line]


def _brief(r, fields):
    return {k: (r[k][:100] if isinstance(r[k], str) else r[k]) for k in fields}


def check_rawargs_reuse(line):
    """the same RawArgs object handed to two runs (fresh application each time)"""
    from clikit.args import StringArgs

    fails = []
    args = StringArgs(line[len(TTY):] if line.startswith(TTY) else line)
    tokens = list(args.tokens)
    app, log = build_history_app()
    first = run_one(app, log, line, args)
    after = list(args.tokens)
    app2, log2 = build_history_app()
    second = run_one(app2, log2, line, args)
    if after != tokens:
        fails.append(("rawargs|tokens-edited-in-place", "app.run(StringArgs(%r)) left the caller's tokens as %r" % (line, after)))
    d = diff_fields(first, second)
    if d:
        fails.append(("rawargs|second-run-with-same-object-differs", "running the same RawArgs object for %r twice (fresh applications) differs in %s: %s vs %s" % (
            line, d, _brief(first, d), _brief(second, d))))
    return fails


# ------------------------------------------------------------------------------------------ (b) styles
TABLE_FACTORIES = ["ascii", "solid", "borderless", "compact"]
BORDER_FACTORIES = ["B.none", "B.ascii", "B.solid"]
CUSTOM_KINDS = ["align", "border-chars", "formats", "border-object"]


def _make(name):
    from clikit.ui.style import TableStyle
    from clikit.ui.style.border_style import BorderStyle

    if name.startswith("B."):
        return getattr(BorderStyle, name[2:])()
    return getattr(TableStyle, name)()


def _customise(obj, kind):
    """customise ONE style object through its public attributes / methods"""
    from clikit.ui.style import TableStyle
    from clikit.ui.style.alignment import Alignment

    if isinstance(obj, TableStyle):
        if kind == "align":
            obj.set_column_alignment(1, Alignment.RIGHT)
            obj.set_column_alignment(0, Alignment.CENTER)
        elif kind == "border-chars":
            b = obj.border_style
            b.line_hc_char = "#"
            b.line_ht_char = "#"
            b.line_vc_char = "!"
            b.crossing_c_char = "*"
            b.corner_tl_char = "@"
        elif kind == "formats":
            obj.cell_format = "[{}]"
            obj.header_cell_format = "({})"
            obj.padding_char = "."
            obj.default_column_alignment = Alignment.RIGHT
        elif kind == "border-object":
            from clikit.ui.style.border_style import BorderStyle
            b = BorderStyle()
            b.line_vc_char = "/"
            obj.border_style = b
    else:  # a BorderStyle
        obj.line_hc_char = "#"
        obj.line_hb_char = "#"
        obj.line_vl_char = "!"
        obj.line_vc_char = "!"
        obj.crossing_c_char = "*"


ROWS = [["99921-58-10-7", "Divine Comedy", "Dante"], ["9971-5-0210-0", "A Tale of Two Cities with a rather long title that wraps", "Charles <b>Dickens</b>"]]
HEADER = ["ISBN", "Title", "Author"]


def _render_table(style, ansi=False, width=60):
    from clikit.formatter import AnsiFormatter
    from clikit.io import BufferedIO
    from clikit.ui.components import Table
    from clikit.ui.rectangle import Rectangle

    io = BufferedIO(formatter=AnsiFormatter(forced=True)) if ansi else BufferedIO()
    io.set_terminal_dimensions(Rectangle(width, 40))
    t = Table(style)
    t.set_header_row(list(HEADER))
    t.add_rows([list(r) for r in ROWS])
    t.render(io)
    return io.fetch_output()


def _render_with(name):
    """table output for a factory name (a BorderStyle factory is observed through a bare TableStyle)"""
    from clikit.ui.style import TableStyle

    obj = _make(name)
    if name.startswith("B."):
        st = TableStyle()
        st.border_style = obj
        obj = st
    return [_render_table(obj, False), _render_table(obj, True)]


def style_reference(name):
    return in_child(lambda: _render_with(name))


def _default_table():
    from clikit.formatter import AnsiFormatter  # noqa: F401
    from clikit.io import BufferedIO
    from clikit.ui.components import Table
    from clikit.ui.rectangle import Rectangle

    io = BufferedIO()
    io.set_terminal_dimensions(Rectangle(60, 40))
    t = Table()
    t.set_header_row(list(HEADER))
    t.add_rows([list(r) for r in ROWS])
    t.render(io)
    return io.fetch_output()


def run_style_case(order, custom):
    """in the child: create the styles in `order`, customise order[custom[0]] by custom[1] (if any), then
    render with every other style: (1) the object created before the customisation, (2) a new object from the
    factory.  Returns {name: {"held": [...], "new": [...]}}"""
    from clikit.ui.style import TableStyle

    def work():
        held = {}
        for nm in order:
            held[nm] = _make(nm)
        if custom is not None:
            _customise(held[order[custom[0]]], custom[1])
        out = {}
        for nm in order:
            obj = held[nm]
            if nm.startswith("B."):
                st = TableStyle()
                st.border_style = obj
                obj = st
            out[nm] = {"held": [_render_table(obj, False), _render_table(obj, True)], "new": _render_with(nm)}
        out["__default_table__"] = _default_table()
        return out

    return in_child(work)


def check_style_case(order, custom, refs, default_ref):
    fails = []
    res = run_style_case(order, custom)
    if "exc" in res:
        return [("styles|raises", "creating %r / customising %r raised %s" % (order, custom, res["exc"]))]
    res = res["ok"]
    actor = None if custom is None else order[custom[0]]
    for nm in order:
        # the customised object itself is supposed to change; a NEW object from its factory is not
        for how in (("new",) if nm == actor else ("held", "new")):
            if res[nm][how] != refs[nm]:
                if actor is not None and _creation_only_ok(order, nm, how, refs):
                    sig = "styles|customise|%s:%s->%s" % (actor, custom[1], nm)
                    what = "customising a %s style (%s) changes a table rendered with %s %s style object" % (
                        actor, custom[1], "another, earlier created" if how == "held" else "a newly created", nm)
                else:
                    culprits = [o for o in order if o != nm]
                    sig = "styles|create|%s" % nm
                    what = "a table with the %s style (%s object) renders differently when %r were created as well, order %r" % (nm, how, culprits, order)
                fails.append((sig, what + ": line %r instead of %r" % (_first_diff(res[nm][how][0], refs[nm][0]))))
                break
    if res["__default_table__"] != default_ref:
        if actor is not None and _creation_only_ok(order, "__default_table__", None, default_ref):
            sig = "styles|customise|%s:%s->default-table" % (actor, custom[1])
        else:
            sig = "styles|create|default-table"
        fails.append((sig, "Table() without an explicit style renders differently after creating %r%s: line %r instead of %r" % (
            (order, "" if actor is None else " and customising the %s one (%s)" % (actor, custom[1])) + _first_diff(res["__default_table__"], default_ref))))
    return fails


_CREATION_CACHE = {}


def _creation_only_ok(order, nm, how, refs):
    """is style `nm` still right when the same order is created WITHOUT any customisation (to tell apart
    'creating changes it' from 'customising changes it')"""
    key = tuple(order)
    if key not in _CREATION_CACHE:
        _CREATION_CACHE[key] = run_style_case(order, None)
    res = _CREATION_CACHE[key]
    if "exc" in res:
        return False
    if nm == "__default_table__":
        return res["ok"][nm] == refs
    return res["ok"][nm][how] == refs[nm]


def _first_diff(a, b):
    la, lb = a.split("\n"), b.split("\n")
    for x, y in zip(la, lb):
        if x != y:
            return x, y
    return (la[len(lb):] or [""])[0], (lb[len(la):] or [""])[0]


# ------------------------------------------------------------------------------------------ (c) components
def _io(ansi=False, width=80, verbosity=0, utf8=True):
    from clikit.formatter import AnsiFormatter
    from clikit.io import BufferedIO
    from clikit.ui.rectangle import Rectangle

    io = BufferedIO(formatter=AnsiFormatter(forced=True) if ansi else None, supports_utf8=utf8)
    io.set_terminal_dimensions(Rectangle(width, 40))
    io.set_verbosity(verbosity)
    return io


def _help_app():
    from clikit import ConsoleApplication
    from clikit.api.args.format import Argument, Option
    from clikit.config import DefaultApplicationConfig

    config = DefaultApplicationConfig("app", "1.0.0")
    config.set_help("The help of {script_name}.\n\nSecond paragraph.")
    with config.command("foo") as c:
        c.set_description("The foo command, described at some length so that the text wraps on narrow terminals")
        c.set_help("Help of {command_name}")
        c.add_alias("fo")
        c.add_argument("x", Argument.REQUIRED, "The x")
        c.add_argument("rest", Argument.MULTI_VALUED, "The rest", ["a"])
        c.add_option("num", "k", Option.REQUIRED_VALUE | Option.INTEGER, "A number", 1)
        with c.sub_command("bar") as s:
            s.set_description("The bar sub-command")
            s.add_option("opt", "o", Option.NO_VALUE, "An option")
        with c.sub_command("dflt") as s:
            s.default()
    return ConsoleApplication(config)


def _raise_chain(depth):
    if depth > 0:
        return _raise_chain(depth - 1)
    try:
        {}["missing <b>key</b>"]
    except KeyError as e:
        raise ValueError("outer failure:\nsecond line with é") from e


def _an_exception(depth=3):
    try:
        _raise_chain(depth)
    except ValueError as e:
        return e


def component_cases():
    """(id, factory() -> (component, inputs dict to compare before/after), render(component, io))"""
    from clikit.ui.components import EmptyLine, LabeledParagraph, NameVersion, Paragraph, Table
    from clikit.ui.components.exception_trace import ExceptionTrace
    from clikit.ui.help import ApplicationHelp, CommandHelp
    from clikit.ui.style import TableStyle
    from clikit.ui.style.alignment import Alignment

    cases = []

    def table_factory(style_name, header, custom):
        def make():
            st = getattr(TableStyle, style_name)()
            if custom:
                st.set_column_alignment(2, Alignment.RIGHT)
            rows = [list(r) for r in ROWS] + [["", "x", "<c1>styled</c1>"]]
            hdr = list(HEADER)
            t = Table(st)
            if header:
                t.set_header_row(hdr)
            t.add_rows(rows)
            return t, {"rows": rows, "header": hdr, "alignments": st.column_alignments}
        return make

    for sn in TABLE_FACTORIES:
        for header in (True, False):
            for custom in (False, True):
                cases.append(("Table[%s,header=%s,aligned=%s]" % (sn, header, custom), table_factory(sn, header, custom), None))

    def app_help():
        app = _help_app()
        return ApplicationHelp(app), {}

    def cmd_help(path):
        def make():
            app = _help_app()
            cmd = app.get_command(path[0])
            for p in path[1:]:
                cmd = cmd.get_sub_command(p)
            return CommandHelp(cmd), {}
        return make

    cases.append(("ApplicationHelp", app_help, None))
    cases.append(("CommandHelp[foo]", cmd_help(["foo"]), None))
    cases.append(("CommandHelp[foo bar]", cmd_help(["foo", "bar"]), None))
    cases.append(("CommandHelp[help]", cmd_help(["help"]), None))
    text = "A <b>paragraph</b> of text that is long enough to be wrapped at least once on a terminal of forty columns, certainly."
    cases.append(("Paragraph", lambda: (Paragraph(text), {}), None))
    cases.append(("LabeledParagraph", lambda: (LabeledParagraph("<c1>--label</c1>", text), {}), None))
    cases.append(("LabeledParagraph[unaligned]", lambda: (LabeledParagraph("label", text, 1, False), {}), None))
    class AlignedParagraphs(object):
        """labeled paragraphs that share one label alignment, rendered the way BlockLayout renders them: the alignment is
        computed, then every paragraph is rendered - at an indentation of its own (the layout object itself is a one-shot
        builder and not a component: it forgets its elements after rendering)"""

        def __init__(self):
            from clikit.ui.alignment import LabelAlignment
            self.alignment = LabelAlignment()
            self.paragraphs = [LabeledParagraph("<c1>--first</c1>", "The first option of the block"),
                               LabeledParagraph("<c1>--second-and-longer</c1>", text)]
            for p in self.paragraphs:
                self.alignment.add(p, 2)
                p.set_alignment(self.alignment)

        def render(self, io, indentation=4):
            self.alignment.align(io, indentation)
            for p in self.paragraphs:
                p.render(io, indentation + 2)

    cases.append(("AlignedParagraphs[indented]", lambda: (AlignedParagraphs(), {}), None))
    cases.append(("EmptyLine", lambda: (EmptyLine(), {}), None))
    cases.append(("NameVersion", lambda: (NameVersion(_help_app().config), {}), None))

    def trace(simple):
        def make():
            e = _an_exception()
            return ExceptionTrace(e), {"args": e.args, "cause_args": e.__cause__.args}
        return make

    cases.append(("ExceptionTrace", trace(False), lambda c, io: c.render(io)))
    cases.append(("ExceptionTrace[simple]", trace(True), lambda c, io: c.render(io, simple=True)))
    return cases


IO_CONFIGS = [(ansi, width, verbosity, utf8) for ansi in (False, True) for width in (40, 80) for verbosity in (0, 1, 2, 4) for utf8 in (True, False)]


def check_component(cid, factory, render, cfg):
    fails = []
    render = render or (lambda c, io: c.render(io))
    comp, inputs = factory()
    before = copy.deepcopy(inputs)
    outs = []
    for _ in range(2):
        io = _io(*cfg)
        try:
            render(comp, io)
        except Exception as e:
            return [("components|%s|raises" % cid.split("[")[0], "%s on io %r raised %r" % (cid, cfg, e))]
        outs.append((io.fetch_output(), io.fetch_error()))
    if outs[0] != outs[1]:
        fails.append(("components|%s|second-render-differs" % cid.split("[")[0], "%s rendered twice on io %r: %r then %r" % (
            cid, cfg, _first_diff(outs[0][0], outs[1][0])[0], _first_diff(outs[0][0], outs[1][0])[1])))
    io = _io(*cfg)
    try:
        render(comp, io)
        render(comp, io)
    except Exception as e:
        return fails + [("components|%s|second-render-on-same-io-raises" % cid.split("[")[0],
                         "%s rendered twice onto one io %r raised %r" % (cid, cfg, e))]
    if io.fetch_output() != outs[0][0] * 2:
        fails.append(("components|%s|second-render-on-same-io-differs" % cid.split("[")[0], "%s rendered twice onto one io %r is not twice the single output" % (cid, cfg)))
    if inputs != before:
        changed = [k for k in inputs if inputs[k] != before[k]]
        fails.append(("components|%s|inputs-changed" % cid.split("[")[0], "%s changed its inputs %r while rendering" % (cid, changed)))
    return fails


def _trace_render(e, verbosity, utf8, ansi):
    from clikit.ui.components.exception_trace import ExceptionTrace

    io = _io(ansi, 80, verbosity, utf8)
    ExceptionTrace(e).render(io)
    return io.fetch_output()


_TRACE_REFS = {}


def check_trace_orders(e, verbosity, ansi, order, use_cache=True):
    """order: sequence of utf8 flags; every render must equal the pristine (forked, nothing rendered before)
    render of the same exception on the same kind of I/O"""
    fails = []
    refs = {}
    for u in sorted(set(order)):
        key = (id(e), verbosity, ansi, u)
        if not use_cache or key not in _TRACE_REFS:
            r = in_child(lambda u=u: _trace_render(e, verbosity, u, ansi))
            if "exc" in r:
                return [("trace|raises", "rendering the trace (verbosity %d, utf8=%s) raised %s" % (verbosity, u, r["exc"]))]
            _TRACE_REFS[key] = r["ok"]
        refs[u] = _TRACE_REFS[key]
    got = in_child(lambda: [_trace_render(e, verbosity, u, ansi) for u in order])
    if "exc" in got:
        return [("trace|raises", "rendering the trace in order %r raised %s" % (order, got["exc"]))]
    for i, u in enumerate(order):
        if got["ok"][i] != refs[u]:
            prev = order[:i]
            cls = "same-io-kind" if all(p == u for p in prev) else "utf8-%s-after-%s" % ("on" if u else "off", "on" if not u else "off")
            fails.append(("trace|%s|%s" % ("debug-snippets" if verbosity == 4 else "verbosity-%d" % verbosity, cls),
                          "trace at verbosity %d rendered on a utf8=%s I/O after renders on utf8=%r differs from a first render: line %r instead of %r" % (
                              (verbosity, u, list(prev)) + _first_diff(got["ok"][i], refs[u]))))
            break
    return fails


# ------------------------------------------------------------------------------------------ driver
def _nontrivial_history(lines):
    return len(lines) >= 2 and any(line_class(l) == "help" or _fresh_fails(l) for l in lines)


def bounded(ctx):
    rng = random.Random(ctx.seed * 104729 + 17)
    quick = ctx.quick

    # The checks that compare with "pristine" forked references run FIRST: a forked child inherits whatever the
    # parent has already put into the class-level caches / singletons of the real code, so the parent must not
    # have created a style or rendered a trace before them.
    # ------------------------------------------------------------ (b) styles
    n_seven = 0 if quick else 400
    ctx.check("style_orders", ("all 24 construction orders of TableStyle.ascii/solid/borderless/compact x {no customisation, customise the k-th "
                               "created one by %r}%s; one forked child per case, references from children that create a single style; tables "
                               "rendered plain and ANSI at width 60 with the held objects and with new objects from the factories") % (
        CUSTOM_KINDS, "" if quick else " + %d seeded orders of all 7 factories (BorderStyle.none/ascii/solid included) with one customisation" % n_seven))
    fail = _Failer(ctx, per_sig=2)
    refs = {}
    for nm in TABLE_FACTORIES + BORDER_FACTORIES:
        r = style_reference(nm)
        if "exc" in r:
            raise ChildError("reference render for %s failed: %s" % (nm, r["exc"]))
        refs[nm] = r["ok"]
    dref = in_child(_default_table)
    if "exc" in dref:
        raise ChildError("reference render of Table() failed: %s" % dref["exc"])
    dref = dref["ok"]
    budget = 14 if quick else 200
    t0 = time.time()
    complete = True

    def style_cases():
        for order in itertools.permutations(TABLE_FACTORIES):
            yield list(order), None
            for k in range(4):
                for kind in (CUSTOM_KINDS if (not quick or k in (0, 3)) else CUSTOM_KINDS[:2]):
                    yield list(order), [k, kind]
        for _ in range(n_seven):
            order = TABLE_FACTORIES + BORDER_FACTORIES
            rng.shuffle(order)
            k = rng.randrange(7)
            kind = "border-chars" if order[k].startswith("B.") else rng.choice(CUSTOM_KINDS)
            yield list(order), [k, kind]

    for order, custom in style_cases():
        if time.time() - t0 > budget or ctx.out_of_time():
            complete = False
            break
        ctx.case([order, custom], nontrivial=True)
        for sig, what in check_style_case(order, custom, refs, dref):
            fail(sig, what, {"order": order, "custom": custom})
    ctx.done(exhaustive=complete and quick, note="" if complete else "stopped by the time budget")

    orders = [o for n in (2, 3) for o in itertools.product((True, False), repeat=n)]
    ctx.check("trace_io_orders", "one chained exception (recursion depth 3) x verbosity {0,1,2,4} x ANSI/plain x all %d sequences (length 2-3) of UTF-8-capable / "
                                 "ASCII-only I/Os, each sequence in a forked child, compared with forked first renders (class-level snippet cache)" % len(orders))
    fail = _Failer(ctx)
    e = _an_exception()
    for verbosity in (0, 1, 2, 4):
        for ansi in (False, True):
            for order in orders:
                ctx.case([verbosity, ansi, list(order)], nontrivial=len(set(order)) > 1)
                for sig, what in check_trace_orders(e, verbosity, ansi, list(order)):
                    fail(sig, what, {"verbosity": verbosity, "ansi": ansi, "order": list(order)})
    ctx.done(exhaustive=True)

    # ------------------------------------------------------------ (a) histories
    max_len = 4 if quick else 6
    n_sampled = 250 if quick else 6000
    ctx.check("histories", ("one application vs fresh applications, run by run (status, stdout, stderr, handler calls): all %d ordered pairs "
                            "of the %d-line alphabet%s, the two D19 scenarios, and %d seeded sequences of length 3..%d") % (
        len(LINES) ** 2, len(LINES), "" if quick else " and all %d triples" % len(LINES) ** 3, n_sampled, max_len))
    fail = _Failer(ctx)
    budget = 20 if quick else 600
    t0 = time.time()
    complete = True

    def histories():
        yield ("foo --num=abc -h", "foo x y z")
        yield ("help lax", "lax a extra --bogus")
        for p in itertools.product(LINES, repeat=2):
            yield p
        for _ in range(n_sampled):
            yield tuple(rng.choice(LINES) for _ in range(rng.randint(3, max_len)))
        if not quick:  # last, so that a run cut by the time budget still has the long samples
            for p in itertools.product(LINES, repeat=3):
                yield p

    for lines in histories():
        if time.time() - t0 > budget or ctx.out_of_time():
            complete = False
            break
        ctx.case(list(lines), nontrivial=_nontrivial_history(lines))
        for sig, what in check_history(lines):
            fail(sig, what, {"lines": list(lines)})
    ctx.done(exhaustive=False, note="" if complete else "stopped by the time budget")

    ctx.check("rawargs_reuse", "each of the %d lines: the same StringArgs object handed to run() twice (fresh application each time): tokens unchanged, same result" % len(LINES))
    fail = _Failer(ctx)
    for line in LINES:
        ctx.case([line], nontrivial=True)
        for sig, what in check_rawargs_reuse(line):
            fail(sig, what, {"line": line})
    ctx.done(exhaustive=True)

    # ------------------------------------------------------------ (c) components
    cases = component_cases()
    ctx.check("render_twice", "%d component instances (Table x 4 styles x header x alignment, ApplicationHelp, CommandHelp x 3, Paragraph, LabeledParagraph x 2, "
                              "EmptyLine, NameVersion, ExceptionTrace full and simple) x %d I/O configurations (ANSI/plain x width 40/80 x 4 verbosities x UTF-8 on/off): "
                              "two renders on fresh I/Os equal, two renders onto one I/O = twice the output, inputs unchanged" % (len(cases), len(IO_CONFIGS)))
    fail = _Failer(ctx)
    for cid, factory, render in cases:
        for cfg in IO_CONFIGS:
            ctx.case([cid, list(cfg)], nontrivial=cid != "EmptyLine")
            for sig, what in check_component(cid, factory, render, cfg):
                fail(sig, what, {"component": cid, "io": list(cfg)})
    ctx.done(exhaustive=True)


def replay_bounded(check_id, failure):
    w = failure.get("witness") or {}
    sig = failure["signature"]
    if check_id.endswith(".histories"):
        got = check_history(tuple(w["lines"]))
    elif check_id.endswith(".rawargs_reuse"):
        got = check_rawargs_reuse(w["line"])
    elif check_id.endswith(".style_orders"):
        refs = {}
        for nm in TABLE_FACTORIES + BORDER_FACTORIES:
            refs[nm] = style_reference(nm)["ok"]
        got = check_style_case(w["order"], w["custom"], refs, in_child(_default_table)["ok"])
    elif check_id.endswith(".render_twice"):
        hit = [c for c in component_cases() if c[0] == w["component"]]
        got = check_component(hit[0][0], hit[0][1], hit[0][2], tuple(w["io"])) if hit else []
    elif check_id.endswith(".trace_io_orders"):
        got = check_trace_orders(_an_exception(), w["verbosity"], w["ansi"], w["order"], use_cache=False)
    else:
        return {"fails": False, "detail": "unknown check %s" % check_id}
    hit = [g for g in got if g[0] == sig]
    return {"fails": bool(hit), "detail": hit[0][1] if hit else "no longer fails (other failures of this case: %r)" % [g[0] for g in got]}
