"""C18 -- see DESIGN.md section 5.  Deductive targets are added below the bounded import."""
PROP = "C18"
LEVEL = "other"
EXPLANATION = 'bounded stand-in: exhaustive answer-script trees on real questions under read/write budgets'
from pyvc.contracts import REG as R
from . import question_contracts as qc
R.opaque_hook = qc.opaque_question
TARGETS = [qc.VA]
LEMMAS = []
try:
    from .C18_bounded import bounded, BOUNDED_RULE  # noqa: F401
    try:
        from .C18_bounded import replay_bounded  # noqa: F401
    except ImportError:
        pass
except ImportError:
    pass
