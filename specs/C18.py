"""C18 -- see DESIGN.md section 5.  Deductive targets are added below the bounded import."""
PROP = "C18"
LEVEL = 'proof'
EXPLANATION = ('Deductive: the retry loop of Question._validate_attempts is verified with an opaque interviewer/validator model and ghost counters: every invalid entry consumes exactly one attempt and prints exactly one error (the last error is raised, not printed), a limited question fails after exactly the configured number of entries, and the loop terminates -- its measure is the number of lines left on the input, so a question with unlimited attempts gives up at end of input; Question.ask on a non-interactive input returns the default itself and asks, validates and prints nothing, on an interactive one it interviews at least once; SelectChoiceValidator.validate returns only a member of the choices for a typed string or integer and, when multi-select, a list all of whose elements are choices, or raises ValueError (two nested loops, membership invariant by value); the two getters the validator reads (ChoiceQuestion.supports_multiple_choices, error_message) are verified to return the stored fields.  Bounded: exhaustive answer-script trees on real choice / confirmation questions under read and write budgets (membership, index/value interchange, multi-select, non-interactive).')
LEVEL_NOTE = ('assumes: the interviewer consumes exactly one input line per call or aborts with RuntimeError when none is left; validators are arbitrary; which member the validator picks (value before index, ambiguity, the splitting of a multi-select answer) and the confirmation normaliser are bounded only')
from pyvc.contracts import REG as R
from . import question_contracts as qc
R.opaque_hook = qc.opaque_question
from . import choice_contracts as cc
TARGETS = [qc.VA, qc.M_Q + ":Question.ask"] + cc.TARGETS
LEMMAS = []
try:
    from .C18_bounded import bounded, BOUNDED_RULE  # noqa: F401
    try:
        from .C18_bounded import replay_bounded  # noqa: F401
    except ImportError:
        pass
except ImportError:
    pass
