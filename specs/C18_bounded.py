# -*- coding: utf-8 -*-
"""C18 bounded tier: questions return only valid answers, count attempts exactly and terminate.

Everything runs on a BufferedIO (StringInputStream input, PlainFormatter) with `Question._has_stty_available`
patched to return False, so the line-reading path is taken deterministically.  The input stream's `read_line`
is wrapped: it counts the reads, records how much had been written to the error output when each read happened
(this is how the errors printed between two prompts are told apart from the prompts, without knowing what a
prompt looks like) and raises `_ReadBudgetExceeded` (a BaseException) when the question keeps reading after the
end of the input -- an exhausted budget is the witness of "asks for ever".

Oracle, written from the property statement and DESIGN.md section 5 "C18" (no clikit code involved):

  entry semantics (choice questions)
    the typed line is trimmed; an empty line stands for the default (no default: invalid);
    single-select: the entry is resolved *by value, then by index*:
        equal to exactly one choice -> that choice; equal to several (duplicates) -> invalid (ambiguous);
        otherwise the canonical decimal text of i with 0 <= i < n -> choices[i];
        negative, out of range, anything else -> invalid;
    multi-select: the line is split at commas, every item trimmed and resolved as above; an empty item or any
        invalid item makes the line invalid; the answer is the list of resolved items in input order;
    entries on which the property is silent ("+1", "01", "1_0", blanks inside an item that is not a choice)
        are *unspecified*: never used in the dialogue scripts, only in `odd_entries`, where the question may
        reject them or return members of the choices.
  dialogue semantics
    the first valid entry is returned and nothing after it is read; every invalid entry costs one attempt and
    produces exactly one error: printed (one line on the error output) when another attempt follows, raised
    when it was the last attempt; with a limit of N the question raises after exactly N entries, N-1 errors
    printed, and the raised error is the one of the N-th entry; when the input ends first the question gives up
    (raises; returning what an empty entry would give is tolerated) after a bounded number of further reads.
  confirmation
    True exactly for (trimmed, non-empty) answers matching the pattern at their start (`re.match`), the default
    for an empty answer; nothing but the bools True / False.
  non-interactive input
    `ask` returns the default object itself, reads nothing, writes nothing to either output.
"""
import re

BOUNDED_RULE = (
    "dialogues: a case is (choice list, single/multi, default, attempt limit, script of typed lines, last line "
    "newline-terminated or cut by end of input); scripts are enumerated as a tree: a script is extended only while the "
    "model says the dialogue is still going on (all entries so far invalid, attempts left), so no case has unread "
    "garbage after its end; the answer alphabet is built per choice list (up to 17 entries: empty, blank, valid "
    "indices plain / padded, unique name, duplicated name, other-case name, negative, out of range, alnum junk, "
    "punctuation junk, comma lists: indices, name+index, malformed, spaced); non-trivial = the script has at least "
    "one non-empty entry and the question has at least 2 choices.  interchange: a case is (choice list, mode, index "
    "or index list); non-trivial always.  odd_entries / confirmation / non_interactive: a case is the tuple shown in "
    "its key; non-trivial = non-empty answer (confirmation), always otherwise."
)

_PER_SIG = 3


class _ReadBudgetExceeded(BaseException):
    pass


class _Recorder(object):
    def __init__(self, ctx):
        self.ctx = ctx
        self.counts = {}

    def fail(self, sig, what, witness):
        n = self.counts.get(sig, 0)
        self.counts[sig] = n + 1
        if n < _PER_SIG:
            self.ctx.fail(sig, what, witness)

    def note(self):
        return ("failing cases per signature: %r" % (self.counts,)) if self.counts else ""


class _NoStty(object):
    """context manager: Question._has_stty_available -> False"""

    def __enter__(self):
        from clikit.ui.components.question import Question

        self.cls = Question
        self.had = "_has_stty_available" in Question.__dict__
        self.old = Question.__dict__.get("_has_stty_available")
        Question._has_stty_available = lambda self_: False
        return self

    def __exit__(self, *a):
        if self.had:
            setattr(self.cls, "_has_stty_available", self.old)
        else:
            delattr(self.cls, "_has_stty_available")
        return False


# =============================================================================== domain
CHOICE_LISTS = (
    ("single-entry", ["a"]),
    ("plain-3", ["a", "b", "c"]),
    ("heroes", ["Superman", "Batman", "Spiderman"]),
    ("numeric-collide", ["1", "0", "x"]),  # "0" is a value (of entry 1) and an index text
    ("numeric-shift", ["2", "5", "7", "x"]),  # "2" is the value of entry 0 and the index of "7"
    ("duplicate", ["a", "b", "a"]),
    ("all-duplicates", ["dup", "dup"]),
    ("spaced", ["foo bar", "foobar", "baz"]),  # a spaced entry next to its blank-less twin
    ("spaced-2", ["foo bar", "baz qux"]),
    ("case", ["Foo", "foo", "FOO", "fOo"]),
    ("five", ["a", "b", "c", "d", "e"]),
    ("negative-looking", ["-1", "a"]),
    ("punctuated", ["node.js", "c++", "GPL (v3)"]),  # values outside [a-zA-Z0-9_-]: still typed by value
)
ATTEMPTS = (None, 1, 2, 3)


def defaults_for(choices, multi):
    n = len(choices)
    if multi:
        out = [None, "0"]
        if n > 1:
            out.append("0,%d" % (n - 1))
        return out
    out = [None, 0]
    if n > 1:
        out.append(str(n - 1))
    return out


def answers_for(choices):
    """adversarial answer alphabet of one choice list: [(class label, typed text)] without duplicates"""
    n = len(choices)
    out = []

    def add(label, text):
        if text not in [t for _l, t in out]:
            out.append((label, text))

    add("empty", "")
    add("blank", "  ")
    add("index-first", "0")
    add("index-last", str(n - 1))
    add("index-padded", "  %d  " % (n - 1))
    uniq = [c for c in choices if choices.count(c) == 1]
    if uniq:
        add("name" + _name_class(uniq[0]), uniq[0])
        add("name" + _name_class(uniq[-1]), uniq[-1])
    dups = [c for c in choices if choices.count(c) > 1]
    if dups:
        add("name-duplicated", dups[0])
    add("name-other-case", choices[0].swapcase() if choices[0].swapcase() != choices[0] else choices[0] + "X")
    add("negative", "-1")
    add("negative-2", "-%d" % n)
    add("out-of-range", str(n))
    add("junk-alnum", "zz9")
    add("junk-punct", "?!")
    add("list-indices", "0,%d" % (n - 1))
    add("list-name-index", "%s,0" % (uniq[0] if uniq else "0"))
    add("list-malformed", "0,,%d" % (n - 1))
    add("list-trailing-comma", "0,")
    add("list-spaced", " 0 , %d " % (n - 1))
    if dups:
        # an ambiguous entry stays ambiguous as one item of a list
        add("list-duplicated-name", "%s,%s" % (dups[0], uniq[0] if uniq else "0"))
        add("list-index-duplicated-name", "0,%s" % dups[0])
    return out


def _name_class(name):
    if " " in name:
        return "-with-space"
    if re.match(r"^-?[0-9]+$", name):
        return "-numeric"
    return ""


# =============================================================================== model
_CANON_NONNEG = re.compile(r"^(?:0|[1-9][0-9]*)$")
_CANON_NEG = re.compile(r"^-[1-9][0-9]*$")


def resolve_item(choices, tok):
    """-> ('valid', choice) | ('invalid', why) | ('unspec', why)"""
    c = choices.count(tok)
    if c > 1:
        return ("invalid", "ambiguous")
    if c == 1:
        return ("valid", tok)
    if _CANON_NONNEG.match(tok):
        i = int(tok)
        if i < len(choices):
            return ("valid", choices[i])
        return ("invalid", "out-of-range")
    if _CANON_NEG.match(tok):
        return ("invalid", "negative")
    try:
        int(tok)
        return ("unspec", "odd-numeral")
    except ValueError:
        pass
    return ("invalid", "not-a-choice")


def classify_line(choices, multi, default, line):
    """the model's verdict on one typed line"""
    s = line.strip()
    if s == "":
        if default is None:
            return ("invalid", "empty-no-default")
        s = str(default).strip()
    if not multi:
        return resolve_item(choices, s)
    items = [t.strip() for t in s.split(",")]
    values = []
    unspec = None
    for t in items:
        if t == "":
            return ("invalid", "empty-item")
        v = resolve_item(choices, t)
        if v[0] == "invalid":
            if re.search(r"\s", t):
                unspec = unspec or "blank-inside-item"
                continue
            return v
        if v[0] == "unspec":
            unspec = unspec or v[1]
            continue
        values.append(v[1])
    if unspec:
        return ("unspec", unspec)
    return ("valid", values)


def model_dialogue(choices, multi, default, attempts, lines):
    """-> dict(end='returns'|'fails'|'eof', consumed, value, verdicts) ; None when a line is unspecified"""
    verdicts = []
    for i, line in enumerate(lines):
        if attempts is not None and i == attempts:
            return {"end": "fails", "consumed": i, "verdicts": verdicts}
        v = classify_line(choices, multi, default, line)
        if v[0] == "unspec":
            return None
        verdicts.append(v)
        if v[0] == "valid":
            return {"end": "returns", "consumed": i + 1, "value": v[1], "verdicts": verdicts}
    if attempts is not None and len(lines) == attempts:
        return {"end": "fails", "consumed": len(lines), "verdicts": verdicts}
    return {"end": "eof", "consumed": len(lines), "verdicts": verdicts}


# =============================================================================== running the real question
class _Run(object):
    pass


def run_question(make_question, input_text, budget, interactive=True):
    """asks the question built by make_question() on a fresh BufferedIO(input_text)"""
    from clikit.io import BufferedIO

    io = BufferedIO(input_text)
    io.set_interactive(interactive)
    stream = io.input.stream
    real_read_line = stream.read_line
    real_read = stream.read
    r = _Run()
    r.reads = []  # what each read_line returned (decoded)
    r.marks = []  # length of the error output when each read_line was issued
    r.char_reads = 0

    def read_line(length=None):
        if len(r.reads) >= budget:
            raise _ReadBudgetExceeded()
        r.marks.append(len(io.fetch_error()))
        data = real_read_line(length=length)
        r.reads.append(data.decode("utf-8") if isinstance(data, bytes) else data)
        return data

    def read(length):
        r.char_reads += 1
        if r.char_reads > 4 * budget + 16:
            raise _ReadBudgetExceeded()
        return real_read(length)

    stream.read_line = read_line
    stream.read = read
    # second line of defence: loops that never reach the stream (non-interactive input) or never read at all
    inp = io.input
    in_read_line, in_read = inp.read_line, inp.read
    r.input_calls = 0
    r.writes = 0

    def guarded_in_read_line(length=None, default=None):
        r.input_calls += 1
        if r.input_calls > budget + 2:
            raise _ReadBudgetExceeded()
        return in_read_line(length=length, default=default)

    def guarded_in_read(length, default=None):
        r.input_calls += 1
        if r.input_calls > 4 * budget + 16:
            raise _ReadBudgetExceeded()
        return in_read(length, default=default)

    inp.read_line = guarded_in_read_line
    inp.read = guarded_in_read
    err_stream = io.error_output.stream
    real_write = err_stream.write

    def guarded_write(string):
        r.writes += 1
        if r.writes > 40 * budget + 200:
            raise _ReadBudgetExceeded()
        return real_write(string)

    err_stream.write = guarded_write
    q = make_question()
    r.question = q
    try:
        r.result = q.ask(io)
        r.outcome = "returned"
    except _ReadBudgetExceeded:
        r.outcome = "budget"
        r.result = None
    except Exception as e:  # the property says: the question *fails* (raises its last error) / gives up
        r.outcome = "raised"
        r.result = e
    r.err = io.fetch_error()
    r.out = io.fetch_output()
    return r


def make_choice(choices, multi, default, attempts):
    def build():
        from clikit.ui.components import ChoiceQuestion

        q = ChoiceQuestion("Pick one", list(choices), default)
        q.set_multi_select(multi)
        q.set_max_attempts(attempts)
        return q

    return build


def script_text(lines, last_nl):
    if not lines:
        return ""
    return "\n".join(lines) + ("\n" if last_nl else "")


def error_segments(run):
    """-> (prompt, [text printed between read k and read k+1 minus the repeated prompt], tail) or None if the
    error output is not prompt (error prompt)* tail"""
    if not run.marks:
        return ("", [], run.err)
    prompt = run.err[: run.marks[0]]
    segs = []
    for k in range(1, len(run.marks)):
        seg = run.err[run.marks[k - 1]: run.marks[k]]
        if prompt and not seg.endswith(prompt):
            return None
        segs.append(seg[: len(seg) - len(prompt)] if prompt else seg)
    return (prompt, segs, run.err[run.marks[-1]:])


def is_member_result(choices, multi, value):
    if multi:
        return isinstance(value, list) and len(value) > 0 and all(v in choices for v in value)
    return (not isinstance(value, (list, tuple))) and value in choices


def line_class(label, line, multi):
    """class of a typed line used in signatures: the alphabet label, overridden by the feature that matters"""
    if multi and any(re.search(r"\S\s+\S", item) for item in line.split(",")):
        return "item-with-inner-blank"
    return label


def dialogue_case(choices, multi, default, attempts, lines, last_nl, labels=None):
    """-> (list of (signature, what), skipped) ; labels: class label of every line (for signatures)"""
    model = model_dialogue(choices, multi, default, attempts, lines)
    if model is None:
        return [], True
    mode = "multi" if multi else "single"
    labels = [line_class(l, t, multi) for l, t in zip(labels or ["entry"] * len(lines), lines)]
    budget = len(lines) + (attempts if attempts is not None else 1) + 3
    run = run_question(make_choice(choices, multi, default, attempts), script_text(lines, last_nl), budget)
    fails = []
    lim = "unlimited-attempts" if attempts is None else "limited-attempts"

    # --- reads: the typed lines in order, then only end-of-input reads
    typed = []
    eof_reads = 0
    for d in run.reads:
        if d == "":
            eof_reads += 1
        elif eof_reads:
            fails.append(("reads|data-after-end-of-input", "read %r after an empty read" % (d,)))
        else:
            typed.append(d)
    if run.char_reads:
        fails.append(("reads|character-reads", "the question read single characters (%d reads): stty path taken?" % run.char_reads))

    # --- termination
    if run.outcome == "budget":
        fails.append(("termination|eof|%s" % lim,
                      "still reading after %d reads on an input of %d lines (attempts=%r): asks for ever at end of input"
                      % (len(run.reads), len(lines), attempts)))
        return fails, False

    # --- membership, whatever the model says
    if run.outcome == "returned" and not is_member_result(choices, multi, run.result):
        fails.append(("membership|%s" % mode, "returned %r which is not %s of %r" % (
            run.result, "a non-empty list of members" if multi else "a member", choices)))

    # --- per-line verdicts of the code, derived from the reads: every typed line but the last was rejected
    n_typed = len(typed)
    code_verdicts = ["invalid"] * max(0, n_typed - 1)
    if n_typed:
        if run.outcome == "returned" and eof_reads == 0:
            code_verdicts.append("valid")
        else:
            code_verdicts.append("invalid")
    for k in range(min(len(code_verdicts), len(model["verdicts"]))):
        mv = model["verdicts"][k]
        if mv[0] != code_verdicts[k]:
            if mv[0] == "valid":
                fails.append(("entry|%s|%s|rejected-but-valid" % (mode, labels[k]),
                              "entry %r (line %d) was rejected; by value, then by index it denotes %r (choices %r, default %r)"
                              % (lines[k], k, mv[1], choices, default)))
            else:
                fails.append(("entry|%s|%s|accepted-but-invalid" % (mode, labels[k]),
                              "entry %r (line %d) was accepted (result %r); it is invalid: %s (choices %r, default %r)"
                              % (lines[k], k, run.result, mv[1], choices, default)))
            return fails, False

    # --- end of the dialogue
    if model["end"] == "returns":
        if run.outcome != "returned" or n_typed != model["consumed"] or eof_reads:
            fails.append(("dialogue|%s|valid-entry-does-not-end-it" % mode,
                          "expected %r after %d lines; got %s %r after reading %r" % (
                              model["value"], model["consumed"], run.outcome, run.result, run.reads)))
        elif run.result != model["value"]:
            fails.append(("entry|%s|%s|wrong-value" % (mode, labels[model["consumed"] - 1]),
                          "entry %r returned %r, by value then by index it denotes %r (choices %r, default %r)"
                          % (lines[model["consumed"] - 1], run.result, model["value"], choices, default)))
    elif model["end"] == "fails":
        if run.outcome != "raised" or len(run.reads) != model["consumed"]:
            more = "more" if len(run.reads) > model["consumed"] else "fewer"
            if run.outcome == "raised" or len(run.reads) != model["consumed"]:
                sig = "attempts|fails-after-%s-entries-than-the-limit" % more
            else:
                sig = "attempts|no-failure-at-the-limit"
            fails.append((sig, "limit %d, %d invalid entries: %s %r after %d reads %r" % (
                attempts, model["consumed"], run.outcome, run.result, len(run.reads), run.reads)))
        else:
            last = lines[model["consumed"] - 1].strip()
            others = [l.strip() for l in lines[: model["consumed"] - 1]]
            why = model["verdicts"][model["consumed"] - 1][1]
            if why in ("not-a-choice", "out-of-range", "negative") and re.match(r"^[A-Za-z0-9-]{2,}$", last) \
                    and not multi and all(last not in o for o in others) and last not in str(run.result):
                fails.append(("attempts|raised-error-is-not-the-last",
                              "raised %r, the last invalid entry was %r (script %r)" % (run.result, last, lines)))
    else:  # the input ends while the dialogue is still going on
        tolerated_return = (run.outcome == "returned" and default is not None)
        if tolerated_return:
            dv = classify_line(choices, multi, default, "")
            tolerated_return = dv[0] == "valid" and run.result == dv[1]
        if run.outcome != "raised" and not tolerated_return:
            fails.append(("termination|eof|returns-a-value", "at end of input the question returned %r (script %r)" % (run.result, lines)))
        if n_typed != model["consumed"]:
            fails.append(("dialogue|%s|lines-consumed" % mode, "typed lines read: %r of %r" % (typed, lines)))
        allowed = max(1, (attempts - n_typed) if attempts is not None else 1)
        if eof_reads > allowed:
            fails.append(("termination|eof|%s|too-many-reads" % lim,
                          "%d reads after the end of the input with %r attempts left" % (eof_reads, allowed)))

    # --- errors: one per rejected entry that is followed by another attempt; none after the last read
    segs = error_segments(run)
    if segs is None:
        fails.append(("errors|prompt-not-repeated", "error output is not prompt (error prompt)*: %r" % (run.err,)))
    else:
        _prompt, between, tail = segs
        for k, e in enumerate(between):
            if k >= n_typed:
                break  # reads after the end of the input: the property does not say what is printed
            if not (e.endswith("\n") and e.count("\n") == 1 and e.strip()):
                cls = "no-error" if not e.strip() else "several-lines"
                fails.append(("errors|%s-for-a-rejected-entry" % cls,
                              "after rejected entry %r (line %d) the error output got %r" % (lines[k] if k < len(lines) else None, k, e)))
                break
        if tail != "" and run.outcome != "budget":
            fails.append(("errors|output-after-the-last-read", "error output after the last read: %r (outcome %s)" % (tail, run.outcome)))
    if run.out != "":
        fails.append(("errors|standard-output-used", "the dialogue wrote %r to the standard output" % (run.out,)))
    return fails, False


# =============================================================================== checks
def enumerate_scripts(choices, multi, default, attempts, max_len):
    """tree enumeration (model only): yields (lines, labels, last_nl, model) for every script of <= max_len lines that the
    model does not end before its last line; yields (None, ...) markers for skipped (unspecified) scripts"""
    alphabet = answers_for(choices)
    stack = [((), ())]
    while stack:
        lines, labels = stack.pop()
        going_on = True
        if lines:
            model = model_dialogue(choices, multi, default, attempts, list(lines))
            if model is None:
                yield (None, None, None)
                continue
            yield (lines, labels, True)
            if lines[-1] != "":  # an empty last line without newline is no line at all
                yield (lines, labels, False)
            going_on = model["end"] == "eof"
        if going_on and len(lines) < max_len:
            for label, text in reversed(alphabet):
                stack.append((lines + (text,), labels + (label,)))


def dialogue_configs():
    for lname, choices in CHOICE_LISTS:
        for multi in (False, True):
            for default in defaults_for(choices, multi):
                for attempts in ATTEMPTS:
                    yield (lname, choices, multi, default, attempts)


def _dialogue_block(args):
    """all scripts of one configuration on the real code -> ([(sig, what, witness)] capped per signature, counts)"""
    (lname, choices, multi, default, attempts), max_len = args
    out, per, counts = [], {}, {}
    for lines, labels, last_nl in enumerate_scripts(choices, multi, default, attempts, max_len):
        if lines is None:
            continue
        fails, _sk = dialogue_case(choices, multi, default, attempts, list(lines), last_nl, list(labels))
        for sig, what in fails:
            counts[sig] = counts.get(sig, 0) + 1
            if per.get(sig, 0) < _PER_SIG:
                per[sig] = per.get(sig, 0) + 1
                out.append((sig, what, {"check": "dialogues", "list": lname, "choices": choices, "multi": multi,
                                        "default": default, "attempts": attempts, "lines": list(lines),
                                        "last_nl": last_nl, "labels": list(labels)}))
    return out, counts


def _bounded_dialogues(ctx, rec):
    import multiprocessing as mp
    import os

    max_len = 2 if ctx.quick else 4
    ctx.check("dialogues",
              "%d choice lists (1-5 entries: plain, numeric-looking colliding with index texts, duplicated, spaced, "
              "case-differing, negative-looking) x single/multi x defaults {none, first index, last index | index list} x "
              "attempt limits {unlimited,1,2,3} x every script of <= %d lines over the per-list answer alphabet (<= 19 "
              "answers) that the model does not end earlier x last line newline-terminated or cut by end of input; read "
              "budget = lines + attempts(1 if unlimited) + 3" % (len(CHOICE_LISTS), max_len))
    configs = list(dialogue_configs())
    jobs = [(c, max_len) for c in configs]
    pool = None
    if ctx.quick:
        results = (_dialogue_block(j) for j in jobs)
    else:
        pool = mp.get_context("fork").Pool(max(1, min(12, (os.cpu_count() or 2) - 1)))
        results = pool.imap(_dialogue_block, jobs)
    complete = True
    skipped_unspec = 0
    totals = {}
    try:
        for (cfg, _m), (fails, counts) in zip(jobs, results):
            lname, choices, multi, default, attempts = cfg
            for lines, _labels, last_nl in enumerate_scripts(choices, multi, default, attempts, max_len):
                if lines is None:
                    skipped_unspec += 1
                    continue
                ctx.case([lname, multi, default, attempts, list(lines), last_nl],
                         nontrivial=len(choices) > 1 and any(l.strip() for l in lines))
            for k, v in counts.items():
                totals[k] = totals.get(k, 0) + v
            for sig, what, witness in fails:
                rec.fail(sig, what, witness)
            if ctx.out_of_time():
                complete = False
                break
    finally:
        if pool is not None:
            pool.terminate()
            pool.join()
    note = ("failing cases per signature: %r" % (totals,)) if totals else ""
    if skipped_unspec:
        note = ("%d scripts skipped (contain an entry the property is silent on); " % skipped_unspec) + note
    if not complete:
        note = "stopped at the deadline; " + note
    ctx.done(exhaustive=complete, note=note)


def interchange_case(choices, multi, indices):
    """typing the indices and typing the values they denote must give the same answer"""
    by_index = ",".join(str(i) for i in indices)
    by_name = ",".join(choices[i] for i in indices)
    mixed = ",".join((str(i) if k % 2 else choices[i]) for k, i in enumerate(indices))
    want = [choices[i] for i in indices] if multi else choices[indices[0]]
    mode = "multi" if multi else "single"
    cls = "plain-name"
    if any(" " in choices[i] for i in indices):
        cls = "item-with-inner-blank" if multi else "name-with-space"
    elif any(re.match(r"^-?[0-9]+$", choices[i]) for i in indices):
        cls = "numeric-name"
    fails = []
    for how, text in (("index", by_index), ("name", by_name), ("mixed", mixed), ("padded-name", "  " + by_name + "  ")):
        run = run_question(make_choice(choices, multi, None, 1), text + "\n", 5)
        if run.outcome == "budget":
            fails.append(("termination|single-entry", "entry %r: read budget exhausted" % (text,)))
        elif run.outcome == "raised":
            fails.append(("entry|%s|%s|interchange-rejected" % (mode, cls),
                          "typed by %s: entry %r rejected (%r); the indices %r denote %r in %r" % (how, text, run.result, indices, want, choices)))
        elif run.result != want:
            fails.append(("entry|%s|%s|interchange-differs" % (mode, cls),
                          "typed by %s: entry %r gave %r; the indices %r denote %r in %r" % (how, text, run.result, indices, want, choices)))
    return fails


def _bounded_interchange(ctx, rec):
    ctx.check("interchange",
              "for each of the %d choice lists and each index i whose text is not itself a choice and whose value is not "
              "duplicated: entries 'i', 'choices[i]', padded name (single and multi-select) and, in multi-select, every "
              "ordered pair (i, j) of such indices typed as indices, as names and mixed: all must return the denoted "
              "choice(s); one attempt" % len(CHOICE_LISTS))
    for lname, choices in CHOICE_LISTS:
        ok = [i for i in range(len(choices)) if str(i) not in choices and choices.count(choices[i]) == 1
              and "," not in choices[i]]
        for multi in (False, True):
            tuples = [(i,) for i in ok]
            if multi:
                tuples += [(i, j) for i in ok for j in ok]
            for idx in tuples:
                ctx.case([lname, multi, list(idx)])
                for sig, what in interchange_case(choices, multi, idx):
                    rec.fail(sig, what, {"check": "interchange", "choices": choices, "multi": multi, "indices": list(idx)})
    ctx.done(exhaustive=True, note=rec.note())


ODD_ENTRIES = ("+1", "01", "-0", "1_0", "0_1", u"１", "1.0", "1e0", "0x1", " 1 0 ", "1 ,0", "a b", "1;0", "1\t", "٠")


def odd_case(choices, multi, entry):
    run = run_question(make_choice(choices, multi, None, 1), entry + "\n", 5)
    mode = "multi" if multi else "single"
    if run.outcome == "budget":
        return [("termination|single-entry", "entry %r: read budget exhausted" % (entry,))]
    if run.outcome == "returned" and not is_member_result(choices, multi, run.result):
        return [("membership|%s" % mode, "entry %r returned %r, not from %r" % (entry, run.result, choices))]
    if len(run.reads) != 1:
        return [("attempts|one-attempt-reads-%d-lines" % len(run.reads), "entry %r with one attempt: reads %r" % (entry, run.reads))]
    return []


def _bounded_odd(ctx, rec):
    ctx.check("odd_entries",
              "%d entries the property does not classify (signed / zero-padded / underscore / non-ASCII digits, floats, hex, "
              "blanks inside an item, other separators) x %d choice lists x single/multi, one attempt: the question either "
              "fails or returns member(s) of the choices, after exactly one read" % (len(ODD_ENTRIES), len(CHOICE_LISTS)))
    for lname, choices in CHOICE_LISTS:
        for multi in (False, True):
            for e in ODD_ENTRIES:
                ctx.case([lname, multi, e])
                for sig, what in odd_case(choices, multi, e):
                    rec.fail(sig, what, {"check": "odd_entries", "choices": choices, "multi": multi, "entry": e})
    ctx.done(exhaustive=True, note=rec.note())


PATTERNS = ("(?i)^y", "^(y|j)", "(?i)^(yes|oui)$", "^[1tT]", "o")
CONFIRM_ANSWERS = ("", " ", "y", "Y", "yes", "YES", "no", "n", "N", "yep", "ny", "j", "oui", "OUI", "ouii", "1", "0",
                   "true", "maybe", " y ", "\ty", "yes please", "no!", u"ÿ")


def confirmation_case(pattern, default, answer, last_nl):
    def build():
        from clikit.ui.components import ConfirmationQuestion

        return ConfirmationQuestion("Sure", default, pattern)

    text = answer + ("\n" if last_nl else "")
    run = run_question(build, text, 4)
    s = answer.strip()
    fails = []
    if text == "":
        # nothing to read at all: the question gives up
        if run.outcome == "budget":
            return [("termination|eof|confirmation", "keeps reading an empty input")]
        if run.outcome == "returned" and run.result is not default:
            return [("termination|eof|returns-a-value", "empty input: returned %r" % (run.result,))]
        return []
    want = default if s == "" else (re.match(pattern, s) is not None)
    if run.outcome != "returned":
        return [("confirmation|does-not-answer", "answer %r: %s %r" % (answer, run.outcome, run.result))]
    if run.result is not want:
        cls = "empty-answer" if s == "" else ("matching-answer" if want else "non-matching-answer")
        fails.append(("confirmation|%s|default-%s" % (cls, default),
                      "pattern %r default %r answer %r -> %r, expected %r" % (pattern, default, answer, run.result, want)))
    if len(run.reads) != 1:
        fails.append(("confirmation|reads", "read %r for one answer" % (run.reads,)))
    return fails


def _bounded_confirmation(ctx, rec):
    ctx.check("confirmation",
              "%d patterns x default in {True, False} x %d answers (empty, blank, matching / non-matching in both cases, "
              "padded, prefix / infix matches, non-ASCII) x newline-terminated or cut by end of input: result is the bool "
              "`re.match(pattern, trimmed answer) is not None`, the default on an empty answer; an empty input makes it give "
              "up" % (len(PATTERNS), len(CONFIRM_ANSWERS)))
    for p in PATTERNS:
        for d in (True, False):
            for a in CONFIRM_ANSWERS:
                for nl in (True, False):
                    ctx.case([p, d, a, nl], nontrivial=bool(a.strip()))
                    for sig, what in confirmation_case(p, d, a, nl):
                        rec.fail(sig, what, {"check": "confirmation", "pattern": p, "default": d, "answer": a, "last_nl": nl})
    ctx.done(exhaustive=True, note=rec.note())


def _question_builders():
    """(label, default object, builder) for the non-interactive check"""
    out = []

    def plain(default):
        def build():
            from clikit.ui.components import Question

            return Question("What", default)
        return build

    def confirm(default):
        def build():
            from clikit.ui.components import ConfirmationQuestion

            return ConfirmationQuestion("Sure", default)
        return build

    for d in (None, "dflt", "", 0, 17):
        out.append(("Question", d, plain(d)))
    for d in (True, False):
        out.append(("ConfirmationQuestion", d, confirm(d)))
    for lname, choices in CHOICE_LISTS[:4]:
        for multi in (False, True):
            for d in defaults_for(choices, multi):
                for att in ATTEMPTS:
                    out.append(("ChoiceQuestion[%s,%s,attempts=%r]" % (lname, "multi" if multi else "single", att), d,
                                make_choice(choices, multi, d, att)))
    return out


def non_interactive_case(idx, input_text):
    label, default, build = _question_builders()[idx]
    run = run_question(build, input_text, 3, interactive=False)
    fails = []
    kind = label.split("[")[0]
    if run.outcome != "returned":
        return [("non_interactive|%s|does-not-return" % kind, "%s: %s %r" % (label, run.outcome, run.result))]
    if run.result is not default and run.result != default:
        fails.append(("non_interactive|%s|not-the-default" % kind, "%s returned %r, default is %r" % (label, run.result, default)))
    if run.reads or run.char_reads:
        fails.append(("non_interactive|%s|reads" % kind, "%s read %r" % (label, run.reads)))
    if run.err != "" or run.out != "":
        fails.append(("non_interactive|%s|writes" % kind, "%s wrote %r / %r" % (label, run.out, run.err)))
    return fails


def _bounded_non_interactive(ctx, rec):
    builders = _question_builders()
    inputs = ("", "0\n", "yes\nno\n")
    ctx.check("non_interactive",
              "%d questions (Question x 5 defaults, ConfirmationQuestion x 2, ChoiceQuestion over 4 lists x single/multi x "
              "defaults x attempt limits) x %d pending inputs, input set non-interactive: ask returns the default, no read "
              "on the stream, nothing on either output" % (len(builders), len(inputs)))
    for i in range(len(builders)):
        for text in inputs:
            ctx.case([builders[i][0], repr(builders[i][1]), text])
            for sig, what in non_interactive_case(i, text):
                rec.fail(sig, what, {"check": "non_interactive", "builder": i, "label": builders[i][0], "input": text})
    ctx.done(exhaustive=True, note=rec.note())

# =============================================================================== one question object asked more than once
AGAIN_LISTS = ("plain-3", "numeric-collide", "duplicate")
AGAIN_FIRST = ((), ("zz",), ("zz", "zz"), ("zz", "zz", "zz"), ("1",), ("zz", "1"), ("",), ("-1",))
AGAIN_SECOND = (("1",), ("zz", "1"), ("zz",), (), ("0",), ("zz", "zz", "0"))


def _again_builders():
    out = []
    lists = dict(CHOICE_LISTS)
    for lname in AGAIN_LISTS:
        for multi in (False, True):
            for att in (None, 1, 2):
                out.append(("ChoiceQuestion[%s,%s,attempts=%r]" % (lname, "multi" if multi else "single", att),
                            make_choice(lists[lname], multi, None, att)))

    def validated(att):
        def build():
            from clikit.ui.components import Question

            q = Question("A number")
            q.set_validator(int)
            q.set_max_attempts(att)
            return q
        return build

    def confirm():
        from clikit.ui.components import ConfirmationQuestion

        return ConfirmationQuestion("Sure", True)

    for att in (None, 1, 2):
        out.append(("Question[validator=int,attempts=%r]" % (att,), validated(att)))
    out.append(("ConfirmationQuestion", confirm))
    return out


def _observed(run):
    res = run.result
    if run.outcome == "raised":
        res = "%s: %s" % (type(res).__name__, res)
    return {"outcome": run.outcome, "result": repr(res), "reads": list(run.reads), "error_output": run.err, "output": run.out}


def asked_again_case(idx, first, first_nl, second, second_nl):
    """the SAME question object asked on a second input, after a first dialogue that succeeded, failed or ran out of input:
    the second dialogue is that of a freshly built question on that input"""
    label, build = _again_builders()[idx]
    q = build()
    budget = len(first) + len(second) + 6
    r1 = run_question(lambda: q, script_text(list(first), first_nl), budget)
    r2 = run_question(lambda: q, script_text(list(second), second_nl), budget)
    want = run_question(build, script_text(list(second), second_nl), budget)
    got, exp = _observed(r2), _observed(want)
    kind = label.split("[")[0]
    diff = [k for k in ("outcome", "result", "reads", "error_output", "output") if got[k] != exp[k]]
    if diff:
        after = {"returned": "after-an-answered-ask", "raised": "after-a-failed-ask", "budget": "after-a-runaway-ask"}[r1.outcome]
        return [("asked_again|%s|%s|%s-differs" % (kind, after, diff[0]),
                 "%s asked %r (%s) and then %r: the second ask differs from a fresh question in %s: %r, fresh %r" % (
                     label, list(first), r1.outcome, list(second), diff, {k: got[k] for k in diff}, {k: exp[k] for k in diff}))]
    return []


def appended_input_case(idx, first, second, clear_first=False):
    """ONE I/O: a first question reads all of `first` (its last line is a valid answer), more input is appended to the same
    input stream, a second question of the same kind reads it: it sees exactly the appended lines"""
    from clikit.io import BufferedIO

    label, build = _again_builders()[idx]
    io = BufferedIO(script_text(list(first), True))
    io.set_interactive(True)
    try:
        build().ask(io)
        io.fetch_error()
        io.clear_error()
        if clear_first:
            io.clear_input()  # what was typed so far is dropped; the appended lines are all there is
        io.append_input(script_text(list(second), True))
        q2 = build()
        try:
            got = ("returned", repr(q2.ask(io)))
        except Exception as e:
            got = ("raised", "%s: %s" % (type(e).__name__, e))
        got_err = io.fetch_error()
    except Exception as e:
        return [("appended_input|harness-or-stream-raises", "%s: %r" % (label, e))]
    io2 = BufferedIO(script_text(list(second), True))
    io2.set_interactive(True)
    q3 = build()
    try:
        want = ("returned", repr(q3.ask(io2)))
    except Exception as e:
        want = ("raised", "%s: %s" % (type(e).__name__, e))
    want_err = io2.fetch_error()
    kind = label.split("[")[0]
    if got != want or got_err != want_err:
        return [("appended_input|%s|second-question-differs" % kind,
                 "%s: after a question that read %r, input %r appended to the same stream: the next question gives %r / %r, on a "
                 "fresh I/O with that input %r / %r" % (label, list(first), list(second), got, got_err[-80:], want, want_err[-80:]))]
    return []


def _bounded_asked_again(ctx, rec):
    builders = _again_builders()
    ctx.check("asked_again",
              "%d questions (ChoiceQuestion over %d lists x single/multi x attempts {unlimited,1,2}; Question with an int "
              "validator x 3 limits; ConfirmationQuestion) x %d first scripts (answered, failed, ended by end of input) x %d "
              "second scripts x final newline on/off: the second ask of one question object reads, prints and returns what a "
              "fresh question does on that input (every invalid entry prints ONE error - none carried over from the ask before)"
              % (len(builders), len(AGAIN_LISTS), len(AGAIN_FIRST), len(AGAIN_SECOND)))
    for i in range(len(builders)):
        for first in AGAIN_FIRST:
            for second in AGAIN_SECOND:
                for nl in (True, False):
                    ctx.case([builders[i][0], list(first), list(second), nl])
                    for sig, what in asked_again_case(i, first, nl, second, nl):
                        rec.fail(sig, what, {"check": "asked_again", "builder": i, "label": builders[i][0], "first": list(first),
                                             "second": list(second), "nl": nl})
    # input supplied in portions on one I/O (the first portion ends with a valid answer and is read completely)
    for i in range(len(builders)):
        if "attempts=1" in builders[i][0]:
            continue
        for first in (("1",), ("zz", "1")):
            if len(first) > 1 and builders[i][0].startswith("ConfirmationQuestion"):
                continue  # a confirmation reads one line whatever it says
            for second in AGAIN_SECOND:
                ctx.case([builders[i][0], "appended", list(first), list(second)])
                for clr in (False, True):
                    for sig, what in appended_input_case(i, first, second, clr):
                        rec.fail(sig + ("|after-clear_input" if clr else ""), what,
                                 {"check": "appended_input", "builder": i, "label": builders[i][0], "first": list(first),
                                  "second": list(second), "clear": clr})
    ctx.done(exhaustive=True, note=rec.note())


def bounded(ctx):
    with _NoStty():
        _bounded_dialogues(ctx, _Recorder(ctx))
        _bounded_interchange(ctx, _Recorder(ctx))
        _bounded_odd(ctx, _Recorder(ctx))
        _bounded_confirmation(ctx, _Recorder(ctx))
        _bounded_non_interactive(ctx, _Recorder(ctx))
        _bounded_asked_again(ctx, _Recorder(ctx))


def replay_bounded(check_id, failure):
    w = failure.get("witness") or {}
    sig = failure.get("signature", "")
    kind = w.get("check")
    with _NoStty():
        if kind == "dialogues":
            fails, _ = dialogue_case(w["choices"], w["multi"], w["default"], w["attempts"], w["lines"], w["last_nl"], w.get("labels"))
        elif kind == "interchange":
            fails = interchange_case(w["choices"], w["multi"], tuple(w["indices"]))
        elif kind == "odd_entries":
            fails = odd_case(w["choices"], w["multi"], w["entry"])
        elif kind == "confirmation":
            fails = confirmation_case(w["pattern"], w["default"], w["answer"], w["last_nl"])
        elif kind == "non_interactive":
            fails = non_interactive_case(w["builder"], w["input"])
        elif kind == "appended_input":
            fails = [(f[0] + ("|after-clear_input" if w.get("clear") else ""), f[1])
                     for f in appended_input_case(w["builder"], tuple(w["first"]), tuple(w["second"]), bool(w.get("clear")))]
        elif kind == "asked_again":
            fails = asked_again_case(w["builder"], tuple(w["first"]), w["nl"], tuple(w["second"]), w["nl"])
        else:
            return {"fails": False, "detail": "no replayable witness"}
    same = [f for f in fails if f[0] == sig]
    if same:
        return {"fails": True, "detail": same[0][1]}
    if fails:
        return {"fails": True, "detail": "fails with another signature: %s: %s" % fails[0]}
    return {"fails": False, "detail": "witness satisfies the property on this tree"}
