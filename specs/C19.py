"""C19 -- see DESIGN.md section 5.  Deductive targets are added below the bounded import."""
PROP = "C19"
from . import progress_contracts as pc
LEVEL = 'other'
EXPLANATION = ('Deductive (sequential reduction, no schedule is enumerated): every frame reaches the stream in exactly ONE write (so frames of two threads cannot mix at write granularity); in manual mode a redraw happens only when the interval has elapsed and re-arms the timer, hence redraws are at least `interval` apart; every start() arms the timer one interval after the moment of THAT start, however often the indicator was used before; current_value is total on every value of the shared position counter (no intermediate state of advance() makes a frame unbuildable).  Bounded: manual call sequences under a substituted clock, auto() lifecycle with real threads (thread dead afterwards, end message last), atomicity witness replayed without threads, and auto() under a deterministic scheduler over all interleavings up to a preemption bound (deadlocks and lost stop signals are violations).  Level `other`: single-write frames, the manual throttle and finish() (stop, join, then the end frame) are proved; the interleaving clauses of auto() are decided by the bounded scheduler exploration only.')
LEVEL_NOTE = ('assumes: single stream writes are atomic (the granularity the property names); the spinner thread only calls advance(); _display() = placeholder expansion (re.sub, external) + _overwrite; lifecycle (set/join on every exit) is bounded only')
try:
    from .C19_bounded import bounded, BOUNDED_RULE  # noqa: F401
    try:
        from .C19_bounded import replay_bounded  # noqa: F401
    except ImportError:
        pass
except ImportError:
    pass
TARGETS = [pc.PI + m for m in ("start", "advance", "current_value", "_overwrite", "finish")]
LEMMAS = []

# what this property says about text on the stream rests on the write path of Output / SectionOutput / IO (the text reaches
# the stream iff the gate allows it): those contracts (C10) are re-verified as part of this property
from . import C10 as _c10  # noqa: E402
TARGETS += [t for t in _c10.TARGETS if t not in TARGETS]
