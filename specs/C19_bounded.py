"""C19 bounded tier: the progress indicator, manual mode and automatic (threaded) mode.

Four groups of checks on the real ProgressIndicator:

manual     call sequences start / advance / set_message / finish under a virtual clock (the module
           global `time` of progress_indicator.py is replaced by a shim): every frame on the stream
           is the format with one of the indicator values and the current message, a redraw caused
           by advance() comes no earlier than `interval` ms after the previous such redraw, and the
           emulated terminal line shows exactly the latest frame.
auto_threads  auto() with the real `threading` module (sleeps shortened 100x) and bodies that
           return / work / change the message / raise Exception / KeyboardInterrupt / SystemExit:
           afterwards no spinner thread is alive, nothing is written any more, the body's exception
           comes out unchanged and on a normal exit the end message is the last frame shown.
           A smoke test of the life cycle: the OS picks the interleaving.
atomic     the D22 witness without threads: a stream wrapper re-enters the indicator (as the other
           thread would) between two consecutive stream writes of one call; afterwards, and after
           every single write, the terminal line must be empty or exactly one frame.
auto_schedules  auto() under a deterministic scheduler: `threading` and `time` of the module are
           replaced by shims, spinner and caller are real threads of which exactly one runs at a
           time; every stream write, sleep, Event.set, Thread.start and join is a scheduling point;
           all schedules with at most P preemptions are enumerated (complete for the stated bodies).
"""
import re
import threading as _real_threading
import time as _real_time

from .term_emu import Term, strip_sgr

BOUNDED_RULE = (
    "manual: all valid call sequences up to length L over {start(m), advance, set_message(m1), set_message(m2), finish(m), finish(m, reset)} "
    "(start only when stopped, the others only when started) with clock advances cycling through {0,10,50,100,200,2000} ms, for "
    "ANSI/plain x default/explicit/custom format x verbosity; plus all sequences of (clock advance, advance|set_message) after a start; plus seeded "
    "random sequences up to length 40. Non-trivial: at least one advance() and two frames. "
    "auto_threads: each body kind repeated N times with real threads. "
    "atomic: every (outer call in {advance, set_message}, index of the write after which the other party runs, inner call in {set_message, advance}). "
    "auto_schedules: body kinds x all schedules with <= 4 preemptions (quick) / all schedules (thorough), virtual clock, spinner sleep 100 ms; "
    "distinct by (body, decision vector), non-trivial when the schedule contains at least one preemption."
)

BASE = 1600000000.0
# (the last one is short - a shorter frame after a longer one - and looks like the placeholders of the frame format: the
#  message is text, whatever it looks like)
MSGS = ["Starting", "Working on a much longer task name", "<info>Done</info>", "x {indicator} {message}"]
_TAG = re.compile(r"</?(?:info|comment|b)>")
ERASE = "\r\x1b[2K"


def vis(m):
    return _TAG.sub("", m)


class _Hang(BaseException):
    pass


class _Clock(object):
    def __init__(self):
        self.ms = 0

    def time(self):
        return BASE + self.ms / 1000.0

    def sleep(self, s):
        self.ms += int(round(s * 1000))


def _stream_class():
    from clikit.api.io.output_stream import OutputStream

    class RecStream(OutputStream):
        """records every write; `hook(stream, index)` runs after a write has been recorded"""

        def __init__(self):
            self.writes = []
            self.hook = None

        def write(self, string):
            self.writes.append(string)
            if self.hook is not None:
                self.hook(self, len(self.writes) - 1)

        def text(self):
            return "".join(self.writes)

        def flush(self):
            pass

        def supports_ansi(self):
            return False

        def supports_utf8(self):
            return True

        def close(self):
            pass

        def is_closed(self):
            return False

    return RecStream


def _output(ansi, verbosity=0):
    from clikit.api.io.output import Output
    from clikit.formatter import AnsiFormatter, PlainFormatter

    stream = _stream_class()()
    out = Output(stream, AnsiFormatter(forced=True) if ansi else PlainFormatter())
    out.set_verbosity(verbosity)
    return out, stream


def expected_format(fmt, ansi, verbosity):
    from clikit.ui.components import ProgressIndicator as PI

    if fmt is not None:
        return fmt
    if verbosity >= 1:
        return PI.VERY_VERBOSE if ansi else PI.VERBOSE_NO_ANSI
    return PI.NORMAL if ansi else PI.NORMAL_NO_ANSI


def frame_regex(fmt, values, messages):
    """regex of a frame: the format with one of the values and one of the (visible) messages"""
    out = []
    for part in re.split(r"(\{[a-z\-_]+(?::[^}]+)?\})", fmt):
        if part.startswith("{indicator"):
            out.append("(?:%s)" % "|".join(re.escape(v) for v in values))
        elif part.startswith("{message"):
            out.append("(?:%s)" % "|".join(re.escape(vis(m)) for m in messages))
        elif part.startswith("{elapsed"):
            out.append(r"[<0-9a-z ]+")
        else:
            out.append(re.escape(part))
    return re.compile("^" + "".join(out) + "$")


class Problem(Exception):
    def __init__(self, sig, what):
        Exception.__init__(self, what)
        self.sig, self.what = sig, what


VALUES2 = ["a", "b", "c"]
CUSTOM = "[{indicator}] {message}"


# ----------------------------------------------------------------------------- manual mode
def run_manual(cfg, seq, clock):
    """cfg: ansi, fmt, interval, values, verbosity; seq: [dt, op, args...]; returns Problem or None, stats"""
    from clikit.ui.components import ProgressIndicator

    clock.ms = 0
    ansi = cfg["ansi"]
    out, stream = _output(ansi, cfg["verbosity"])
    fmt = {"none": None, "normal": ProgressIndicator.NORMAL, "custom": CUSTOM}[cfg["fmt"]]
    values = cfg["values"]
    ind = ProgressIndicator(out, fmt, cfg["interval"], values)
    efmt = expected_format(fmt, ansi, cfg["verbosity"])
    evalues = values or ["-", "\\", "|", "/"]
    message = None
    last_adv_ms = None
    seen = 0
    nframes = 0
    nadv = 0
    for item in seq:
        clock.ms += item[0]
        name = item[1]
        try:
            if name == "start":
                ind.start(MSGS[item[2]])
                message = MSGS[item[2]]
                # every start arms the throttle: the first redraw by advance() is at least an interval after the start frame
                last_adv_ms = clock.ms
            elif name == "advance":
                ind.advance()
                nadv += 1
            elif name == "msg":
                ind.set_message(MSGS[item[2]])
                message = MSGS[item[2]]
            elif name == "finish":
                ind.finish(MSGS[item[2]], reset_indicator=bool(item[3]))
                message = MSGS[item[2]]
            else:
                raise AssertionError(item)
        except Exception as e:
            return Problem("manual|raises", "%s raised %r" % (name, e)), (nframes, nadv)
        text = stream.text()
        delta = text[seen:]
        seen = len(text)
        # cut the frames
        if ansi:
            pieces = delta.split(ERASE)
            if pieces[0] != "":
                return Problem("manual|frame-without-erase", "%s wrote %r which does not start with CR, erase-line" % (name, delta[:60])), (nframes, nadv)
            frames = pieces[1:]
            trailer = ""
            if name == "finish" and frames:
                if not frames[-1].endswith("\n"):
                    return Problem("manual|finish-without-newline", "finish wrote %r" % delta[-40:]), (nframes, nadv)
                frames[-1] = frames[-1][:-1]
        else:
            if delta and not delta.endswith("\n"):
                return Problem("manual|plain-frame-without-newline", "%s wrote %r" % (name, delta[:60])), (nframes, nadv)
            if "\x1b" in delta or "\r" in delta:
                return Problem("manual|plain-control-code", "%s wrote control characters on a plain output: %r" % (name, delta[:60])), (nframes, nadv)
            frames = delta.split("\n")[:-1]
            if name == "finish" and frames:
                if frames[-1] != "":
                    return Problem("manual|finish-without-newline", "finish wrote %r" % delta[-40:]), (nframes, nadv)
                frames = frames[:-1]
        frames = [strip_sgr(f) for f in frames]
        rx = frame_regex(efmt, evalues, [message])
        for f in frames:
            if "\x1b" in f or "\n" in f or "\r" in f or not rx.match(f):
                return Problem("manual|frame-shape", "frame %r is not the format %r with an indicator value and the current message %r" % (f, efmt, vis(message))), (nframes, nadv)
        nframes += len(frames)
        expect = {"start": 1, "msg": 1, "finish": 1}.get(name)
        if expect is not None and len(frames) != expect:
            return Problem("manual|frame-count", "%s wrote %d frames" % (name, len(frames))), (nframes, nadv)
        if name == "advance":
            if len(frames) > 1:
                return Problem("manual|frame-count", "advance wrote %d frames" % len(frames)), (nframes, nadv)
            if frames:
                if last_adv_ms is not None and clock.ms - last_adv_ms < cfg["interval"]:
                    return Problem("manual|throttle", "advance redrew %d ms after the previous advance redraw (or the start), interval %d ms" % (
                        clock.ms - last_adv_ms, cfg["interval"])), (nframes, nadv)
                last_adv_ms = clock.ms
        # terminal
        if ansi and frames:
            term = Term(1000).feed(text)
            if term.unknown:
                return Problem("manual|unexpected-control", "control sequence outside the terminal model %r" % term.unknown[:3]), (nframes, nadv)
            rows = term.rows()
            if not rows or rows[-1] != frames[-1].rstrip(" "):
                return Problem("manual|terminal-line", "terminal shows %r, the latest frame is %r" % (rows[-1:], frames[-1])), (nframes, nadv)
    return None, (nframes, nadv)


def _manual_sequences(max_len):
    """valid sequences as op tuples (without clock advances)"""
    started_ops = [("advance",), ("msg", 1), ("msg", 2), ("finish", 2, 0), ("finish", 3, 1)]

    def rec(prefix, started):
        if prefix:
            yield prefix
        if len(prefix) == max_len:
            return
        if not started:
            for s in rec(prefix + [("start", 0)], True):
                yield s
        else:
            for op in started_ops:
                for s in rec(prefix + [op], op[0] != "finish"):
                    yield s

    return rec([], False)


# ----------------------------------------------------------------------------- auto() with real threads
def run_auto_threads(kind, timeout=15.0):
    """returns Problem or None; the scenario runs in a helper thread so that a spinner that never stops
    (join() blocking for ever) is reported instead of hanging the checker"""
    box = {}

    def work():
        try:
            box["result"] = _auto_threads_scenario(kind)
        except BaseException as e:  # harness error: re-raised in the caller
            box["error"] = e

    t = _real_threading.Thread(target=work)
    t.daemon = True
    t.start()
    t.join(timeout)
    if t.is_alive():
        return Problem("auto|hang|" + kind, "auto() with body %r did not come back within %.0f s" % (kind, timeout))
    if "error" in box:
        raise box["error"]
    return box["result"]


def _auto_threads_scenario(kind):
    import clikit.ui.components.progress_indicator as pim
    from clikit.ui.components import ProgressIndicator

    class FastTime(object):
        time = staticmethod(_real_time.time)

        @staticmethod
        def sleep(s):
            _real_time.sleep(s / 100.0)

    saved = pim.time
    pim.time = FastTime
    out, stream = _output(True)
    ind = ProgressIndicator(out, None, 2)
    before = set(_real_threading.enumerate())
    raised = None
    marker = {"Exception": ValueError("boom"), "KeyboardInterrupt": KeyboardInterrupt("stop"), "SystemExit": SystemExit(3)}
    try:
        try:
            with ind.auto("Starting", "<info>Done</info>"):
                if kind == "work":
                    _real_time.sleep(0.008)
                elif kind == "message":
                    _real_time.sleep(0.003)
                    ind.set_message("Halfway")
                    _real_time.sleep(0.003)
                elif kind in marker:
                    _real_time.sleep(0.003)
                    raise marker[kind]
                elif kind == "Exception-at-once":
                    raise marker["Exception"]
        except BaseException as e:  # the body's own exception is expected back
            raised = e
        alive = [t for t in _real_threading.enumerate() if t not in before and t.is_alive()]
        n1 = len(stream.writes)
        _real_time.sleep(0.006)
        n2 = len(stream.writes)
        if alive:
            return Problem("auto|spinner-alive-after|" + kind, "after leaving auto() (%s) the spinner thread is still alive" % kind)
        if n2 != n1:
            return Problem("auto|writes-after-exit|" + kind, "the stream received %d writes after auto() was left" % (n2 - n1))
        want = marker.get(kind.split("-")[0])
        if want is not None and raised is not want:
            return Problem("auto|exception-changed|" + kind, "the body raised %r, auto() let out %r" % (want, raised))
        if want is None:
            if raised is not None:
                return Problem("auto|raises|" + kind, "auto() raised %r" % (raised,))
            text = stream.text()
            rows = Term(1000).feed(text).rows()
            if not text.endswith("\n") or not rows or rows[-1] != " - Done":
                return Problem("auto|end-message-not-last|" + kind, "after a normal exit the terminal shows %r (stream tail %r)" % (rows[-1:], text[-30:]))
        return None
    finally:
        # never leave a spinner behind in the checker process
        ev, th = getattr(ind, "_auto_running", None), getattr(ind, "_auto_thread", None)
        if ev is not None:
            ev.set()
        if th is not None and th.is_alive():
            th.join(2)
        pim.time = saved


# ----------------------------------------------------------------------------- D22 witness: re-entry between two writes
def run_atomic(outer, inner, at, clock):
    """outer/inner in {"advance", "msg"}; the inner call runs right after the `at`-th write (0-based) of the outer call.
    returns (Problem or None, number of writes of the outer call)"""
    from clikit.ui.components import ProgressIndicator

    clock.ms = 0
    out, stream = _output(True)
    ind = ProgressIndicator(out, None, 100)
    ind.start(MSGS[1])
    clock.ms += 150
    rx = frame_regex(ProgressIndicator.NORMAL, ["-", "\\", "|", "/"], MSGS + ["Other"])
    n0 = len(stream.writes)
    state = {"fired": False, "bad": None}

    def check(s):
        term = Term(1000).feed(s.text())
        line = term.current_line()
        if line != "" and not rx.match(line) and state["bad"] is None:
            state["bad"] = "after write #%d the terminal line is %r: neither empty nor one frame" % (len(s.writes) - n0, line)

    class _Excluded(BaseException):
        """the other party's call would have to wait for a lock the interrupted call holds: no such interleaving"""

    class _Lock(object):
        # a lock of the component, as seen by a re-entry simulated in ONE thread: the inner call stands for another
        # thread, so a held lock means "the other party waits here" -- the re-entry is excluded (and not a deadlock)
        def __init__(self):
            self.held = 0

        def acquire(self, blocking=True, timeout=-1):
            if self.held and state.get("inside"):
                raise _Excluded()
            self.held += 1
            return True

        def release(self):
            self.held -= 1

        def locked(self):
            return self.held > 0

        __enter__ = acquire

        def __exit__(self, *a):
            self.release()

    # locks created by the constructor are real ones: swap every lock-like attribute of the indicator for the stand-in
    for name, val in list(vars(ind).items()):
        if hasattr(val, "acquire") and hasattr(val, "release"):
            setattr(ind, name, _Lock())

    def hook(s, index):
        check(s)
        if not state["fired"] and index - n0 == at:
            state["fired"] = True
            state["inside"] = True
            try:
                if inner == "msg":
                    ind.set_message("Other")
                else:
                    ind.advance()
            except _Excluded:
                pass
            finally:
                state["inside"] = False

    stream.hook = hook
    try:
        if outer == "advance":
            ind.advance()
        else:
            ind.set_message(MSGS[3])
    except Exception as e:
        return Problem("atomic|raises", "%s raised %r" % (outer, e)), 0
    finally:
        stream.hook = None
    total = len(stream.writes) - n0
    if state["bad"]:
        return Problem("frame-not-atomic", "%s interrupted after its write #%d by %s: %s" % (outer, at + 1, inner, state["bad"])), total
    return None, total


# ----------------------------------------------------------------------------- deterministic scheduler
class Sched(object):
    """Two real threads (0 = caller, 1 = spinner), one running at a time.  `choices` is the list of
    decisions to take at the points where both are runnable (0 = stay, 1 = switch); beyond the list: 0."""

    def __init__(self, choices, max_points=4000):
        self.cv = _real_threading.Condition()
        self.current = 0
        self.done = {0: False}
        self.wake = {}
        self.joining = {}
        self.lockwait = {}         # thread -> the (shim) lock it is waiting for
        self.timed_join = {}       # thread -> (thread joined with a timeout, virtual deadline in ms)
        self.ms = 0
        self.choices = list(choices)
        self.trace = []            # (options, chosen, preemptive)
        self.points = 0
        self.max_points = max_points
        self.hung = False
        self.errors = []

    # -- runnable
    def _blocked(self, t):
        if self.done.get(t):
            return True
        if t in self.wake and self.wake[t] > self.ms:
            return True
        if t in self.joining and not self.done.get(self.joining[t], True):
            return True
        tj = self.timed_join.get(t)
        if tj is not None and not self.done.get(tj[0], True) and tj[1] > self.ms:
            return True
        lk = self.lockwait.get(t)
        if lk is not None and lk.owner is not None and (lk.owner != t or not lk.reentrant):
            return True
        return False

    def _pick(self, me):
        """called with the lock held by the running thread `me`; returns the next thread to run"""
        self.points += 1
        if self.points > self.max_points:
            self.hung = True
            raise _Hang("more than %d scheduling points" % self.max_points)
        while True:
            runnable = [t for t in sorted(self.done) if not self._blocked(t)]
            if runnable:
                break
            sleepers = [self.wake[t] for t in self.done if not self.done[t] and t in self.wake and self.wake[t] > self.ms]
            sleepers += [d for t, (_j, d) in self.timed_join.items() if not self.done.get(t) and d > self.ms]
            if not sleepers:
                self.hung = True
                raise _Hang("deadlock: no runnable thread")
            self.ms = min(sleepers)
        if len(runnable) == 1:
            return runnable[0]
        me_ok = me in runnable
        options = ([me] if me_ok else []) + [t for t in runnable if t != me]
        k = len(self.trace)
        c = self.choices[k] if k < len(self.choices) else 0
        self.trace.append((len(options), c, me_ok and c != 0))
        return options[c]

    def point(self, me):
        with self.cv:
            nxt = self._pick(me)
            if nxt != me:
                self.current = nxt
                self.cv.notify_all()
                self._wait_turn(me)
            self.wake.pop(me, None)
            self.joining.pop(me, None)

    def _wait_turn(self, me):
        t0 = _real_time.time()
        while self.current != me:
            self.cv.wait(0.5)
            if self.hung or _real_time.time() - t0 > 20:
                self.hung = True
                raise _Hang("thread %d never got the turn back" % me)

    def sleep(self, me, seconds):
        self.wake[me] = self.ms + int(round(seconds * 1000))
        self.point(me)

    def finish_thread(self, me):
        with self.cv:
            self.done[me] = True
            others = [t for t in self.done if not self.done[t]]
            if others:
                try:
                    nxt = self._pick(me)
                except _Hang:
                    nxt = others[0]
                self.current = nxt
                self.cv.notify_all()


def _sched_shims(sched, ids):
    """the `threading` and `time` stand-ins for the module under test"""
    me = lambda: ids.get(_real_threading.current_thread(), 0)  # noqa: E731

    class Event(object):
        def __init__(self):
            self._flag = False

        def is_set(self):
            return self._flag

        isSet = is_set

        def set(self):
            sched.point(me())
            self._flag = True

        def clear(self):
            self._flag = False

        def wait(self, timeout=None):
            while not self._flag:
                sched.sleep(me(), 0.01)
            return True

    class Thread(object):
        def __init__(self, group=None, target=None, name=None, args=(), kwargs=None, daemon=None):
            self._target, self._args, self._kwargs = target, args, kwargs or {}
            self.tid = None
            self.joined = False
            self.daemon = daemon
            self.name = name or "spinner"

        def _run(self):
            try:
                with sched.cv:
                    sched._wait_turn(self.tid)
                self._target(*self._args, **self._kwargs)
            except _Hang:
                pass
            except BaseException as e:  # an error inside the spinner thread
                sched.errors.append(e)
            finally:
                sched.finish_thread(self.tid)

        def start(self):
            self.tid = max(sched.done) + 1
            sched.done[self.tid] = False
            real = _real_threading.Thread(target=self._run)
            real.daemon = True
            ids[real] = self.tid
            self.real = real
            real.start()
            sched.point(me())

        def join(self, timeout=None):
            if timeout is None:
                sched.joining[me()] = self.tid
                sched.point(me())
            else:
                # a join that gives up after `timeout` seconds of (virtual) time
                sched.timed_join[me()] = (self.tid, sched.ms + int(round(max(0.0, timeout) * 1000)))
                try:
                    sched.point(me())
                finally:
                    sched.timed_join.pop(me(), None)
            if sched.done.get(self.tid):
                self.joined = True

        def is_alive(self):
            return self.tid is not None and not sched.done.get(self.tid)

        isAlive = is_alive

    class ThreadingShim(object):
        pass

    ThreadingShim.Event = Event
    ThreadingShim.Thread = Thread
    ThreadingShim.current_thread = staticmethod(_real_threading.current_thread)
    class Lock(object):
        """a lock the scheduler knows about: a thread that waits for it is not runnable, acquiring is a scheduling
        point, and when every live thread waits (for a lock, a join) the run is reported as a deadlock"""
        reentrant = False

        def __init__(self):
            self.owner = None
            self.count = 0

        def acquire(self, blocking=True, timeout=-1):
            t = me()
            sched.point(t)
            while self.owner is not None and not (self.reentrant and self.owner == t):
                if not blocking:
                    return False
                sched.lockwait[t] = self
                try:
                    sched.point(t)
                finally:
                    sched.lockwait.pop(t, None)
            self.owner = t
            self.count += 1
            return True

        def release(self):
            if self.owner is None:
                raise RuntimeError("release unlocked lock")
            self.count -= 1
            if self.count == 0:
                self.owner = None

        def locked(self):
            return self.owner is not None

        __enter__ = acquire

        def __exit__(self, *a):
            self.release()

    class RLock(Lock):
        reentrant = True

    ThreadingShim.Lock = Lock
    ThreadingShim.RLock = RLock

    class TimeShim(object):
        @staticmethod
        def time():
            return BASE + sched.ms / 1000.0

        @staticmethod
        def sleep(s):
            sched.sleep(me(), s)

    return ThreadingShim, TimeShim, Thread


BODIES = ["return", "message-at-once", "sleep200-message", "sleep100-Exception", "sleep100-KeyboardInterrupt", "sleep100-message-sleep100",
          "return@10", "sleep200-message@10", "sleep100-Exception@1000"]
BODIES_THOROUGH = BODIES + ["sleep100-message-message", "sleep100-message-sleep100-message-sleep100", "sleep300-message-Exception"]


def run_schedule(body, choices):
    """one run of auto() under the scheduler; returns (Problem or None, trace)
    (a body name may carry a redraw interval: "<body>@<ms>", default 100 ms)"""
    interval = 100
    if "@" in body:
        body, _, iv = body.partition("@")
        interval = int(iv)
    import clikit.ui.components.progress_indicator as pim
    from clikit.ui.components import ProgressIndicator

    sched = Sched(choices)
    ids = {}
    tshim, timeshim, ThreadCls = _sched_shims(sched, ids)
    saved = (pim.threading, pim.time)
    pim.threading, pim.time = tshim, timeshim
    out, stream = _output(True)
    ind = ProgressIndicator(out, None, interval)
    msgs = ["Starting", "Halfway", "<info>Done</info>"]
    rx = frame_regex(ProgressIndicator.NORMAL, ["-", "\\", "|", "/"], msgs)
    state = {"bad": None, "term": Term(1000)}

    def hook(s, index):
        # the write has happened; look at the terminal, then let the scheduler decide who goes on
        state["term"].feed(s.writes[index])
        line = state["term"].current_line()
        if line != "" and not rx.match(line) and state["bad"] is None:
            state["bad"] = "after write #%d (%r) the terminal line is %r: neither empty nor one frame" % (index + 1, s.writes[index][:30], line)
        sched.point(ids.get(_real_threading.current_thread(), 0))

    stream.hook = hook
    raised = None
    want = None
    prob = None
    try:
        try:
            with ind.auto(msgs[0], msgs[2]):
                if body == "message-at-once":
                    ind.set_message(msgs[1])
                elif body == "sleep200-message":
                    sched.sleep(0, 0.2)
                    ind.set_message(msgs[1])
                elif body == "sleep100-Exception":
                    sched.sleep(0, 0.1)
                    want = ValueError("boom")
                    raise want
                elif body == "sleep100-KeyboardInterrupt":
                    sched.sleep(0, 0.1)
                    want = KeyboardInterrupt("stop")
                    raise want
                elif body == "sleep100-message-sleep100":
                    sched.sleep(0, 0.1)
                    ind.set_message(msgs[1])
                    sched.sleep(0, 0.1)
                elif body == "sleep100-message-message":
                    sched.sleep(0, 0.1)
                    ind.set_message(msgs[1])
                    ind.set_message(msgs[0])
                elif body == "sleep100-message-sleep100-message-sleep100":
                    sched.sleep(0, 0.1)
                    ind.set_message(msgs[1])
                    sched.sleep(0, 0.1)
                    ind.set_message(msgs[0])
                    sched.sleep(0, 0.1)
                elif body == "sleep300-message-Exception":
                    sched.sleep(0, 0.3)
                    ind.set_message(msgs[1])
                    want = ValueError("boom")
                    raise want
                elif body != "return":
                    raise AssertionError(body)
        except _Hang as h:
            prob = Problem("schedule|hang", "auto() did not terminate under the schedule: %s" % h)
        except BaseException as e:  # the body's own exception is expected back
            raised = e
        if prob is None:
            spinner = getattr(ind, "_auto_thread", None)
            n_after = len(stream.writes)
            if isinstance(spinner, ThreadCls) and spinner.is_alive():
                prob = Problem("schedule|spinner-alive-after", "after leaving auto() (%s) the spinner has not terminated" % body)
            elif isinstance(spinner, ThreadCls) and not spinner.joined:
                prob = Problem("schedule|spinner-not-joined", "after leaving auto() (%s) the spinner was not joined" % body)
            elif raised is not want:
                prob = Problem("schedule|exception-changed", "the body raised %r, auto() let out %r" % (want, raised))
            elif sched.errors:
                prob = Problem("schedule|spinner-raises", "the spinner thread died with %r" % (sched.errors[0],))
            elif state["bad"]:
                prob = Problem("frame-not-atomic", state["bad"])
            elif want is None:
                text = stream.text()
                rows = state["term"].rows()
                if not text.endswith("\n") or not rows or rows[-1] != " - Done":
                    prob = Problem("schedule|end-message-not-last", "after a normal exit the terminal shows %r (stream tail %r)" % (rows[-1:], text[-30:]))
    finally:
        # let a surviving spinner run to its end so that no thread is left behind
        stream.hook = None
        ev = getattr(ind, "_auto_running", None)
        if ev is not None and hasattr(ev, "_flag"):
            ev._flag = True
        sched.max_points += 200
        try:
            if not sched.hung:
                for t in list(sched.done):
                    if t != 0 and not sched.done[t]:
                        sched.joining[0] = t
                        sched.point(0)
        except _Hang:
            pass
        sched.hung = True  # releases any thread still waiting for its turn
        with sched.cv:
            sched.cv.notify_all()
        pim.threading, pim.time = saved
    return prob, sched.trace


def schedules(body, bound, limit=None):
    """depth-first enumeration of all schedules of one body with at most `bound` preemptions"""
    choices = []
    n = 0
    while True:
        prob, trace = run_schedule(body, choices)
        n += 1
        yield choices, prob, trace
        if limit is not None and n >= limit:
            return
        # next schedule: flip the last decision that can still be flipped within the bound
        i = len(trace) - 1
        nxt = None
        while i >= 0:
            options, chosen, _ = trace[i]
            if chosen + 1 < options:
                used = sum(1 for (_, _, p) in trace[:i] if p)
                # flipping decision i from "stay" to "switch" is a preemption iff the running thread was runnable;
                # option lists start with the running thread exactly in that case, which is when chosen == 0 means stay
                if used + 1 <= bound:
                    nxt = [c for (_, c, _) in trace[:i]] + [chosen + 1]
                    break
            i -= 1
        if nxt is None:
            return
        choices = nxt


# ----------------------------------------------------------------------------- driver
class _Failures(object):
    def __init__(self, ctx, per=3):
        self.ctx, self.per, self.count = ctx, per, {}

    def add(self, sig, what, witness):
        k = self.count.get(sig, 0)
        self.count[sig] = k + 1
        if k < self.per:
            self.ctx.fail(sig, what, witness)

    def note(self):
        return "; ".join("%s x%d" % kv for kv in sorted(self.count.items()))


DTS = [0, 10, 50, 100, 200, 2000]


def _mcfg(ansi=True, fmt="none", interval=100, values=None, verbosity=0):
    return {"ansi": ansi, "fmt": fmt, "interval": interval, "values": values, "verbosity": verbosity}


def bounded(ctx):
    import itertools

    import clikit.ui.components.progress_indicator as pim

    quick = ctx.quick
    clock = _Clock()
    saved_time = pim.time
    pim.time = clock
    try:
        # ---- manual mode
        L = 5 if quick else 7
        cfgs = [_mcfg(), _mcfg(ansi=False), _mcfg(fmt="custom", values=VALUES2, interval=50), _mcfg(verbosity=1), _mcfg(ansi=False, verbosity=2), _mcfg(fmt="normal", interval=1000)]
        ctx.check("manual_ops", "all valid call sequences up to length %d over start/advance/set_message(2)/finish(2), clock advances cycling through %s ms, "
                                "for %d configurations (ANSI/plain x default/explicit/custom format x verbosity x interval 50/100/1000)" % (L, DTS, len(cfgs)))
        fails = _Failures(ctx)
        for ci, cfg in enumerate(cfgs):
            for ops in _manual_sequences(L):
                seq = [[DTS[(k + ci + len(ops)) % len(DTS)]] + list(op) for k, op in enumerate(ops)]
                prob, (nframes, nadv) = run_manual(cfg, seq, clock)
                ctx.case([cfg, seq], nontrivial=nadv >= 1 and nframes >= 2, sample="%s %s" % (cfg["fmt"], " ".join("+%d:%s" % (s[0], s[1]) for s in seq)))
                if prob is not None:
                    fails.add(prob.sig, prob.what, {"manual": True, "cfg": cfg, "seq": seq})
        ctx.done(exhaustive=True, note=fails.note())

        Lt = 4 if quick else 5
        ctx.check("manual_timing", "start, then all sequences up to length %d of (clock advance in %s ms, advance | set_message), interval 100 ms, ANSI" % (Lt, DTS))
        fails = _Failures(ctx)
        alphabet = [(dt, op) for dt in DTS for op in (("advance",), ("msg", 1))]
        cfg = _mcfg()
        complete = True
        for n in range(1, Lt + 1):
            for combo in itertools.product(alphabet, repeat=n):
                seq = [[0, "start", 0]] + [[dt] + list(op) for dt, op in combo]
                prob, (nframes, nadv) = run_manual(cfg, seq, clock)
                ctx.case(seq, nontrivial=nadv >= 1 and nframes >= 2, sample=" ".join("+%d:%s" % (s[0], s[1]) for s in seq))
                if prob is not None:
                    fails.add(prob.sig, prob.what, {"manual": True, "cfg": cfg, "seq": seq})
            if ctx.out_of_time():
                complete = False
                break
        ctx.done(exhaustive=complete, note=fails.note())

        nrand = 300 if quick else 10000
        ctx.check("manual_random", "%d seeded valid sequences of length 2..40 with random configuration (ANSI/plain, format, interval in {1,50,100,1000}, values, verbosity) and clock advances" % nrand)
        fails = _Failures(ctx)
        rng = ctx.rng
        for _ in range(nrand):
            cfg = _mcfg(rng.random() < 0.7, rng.choice(["none", "normal", "custom"]), rng.choice([1, 50, 100, 1000]), rng.choice([None, VALUES2]), rng.choice([0, 0, 1, 2]))
            seq, started = [], False
            for _k in range(rng.randint(2, 40)):
                dt = rng.choice(DTS + [99, 101, 1])
                if not started:
                    seq.append([dt, "start", rng.randrange(4)])
                    started = True
                else:
                    r = rng.random()
                    if r < 0.6:
                        seq.append([dt, "advance"])
                    elif r < 0.85:
                        seq.append([dt, "msg", rng.randrange(4)])
                    else:
                        seq.append([dt, "finish", rng.randrange(4), rng.randrange(2)])
                        started = False
            prob, (nframes, nadv) = run_manual(cfg, seq, clock)
            ctx.case([cfg, seq], nontrivial=nadv >= 1 and nframes >= 2, sample="%s %d calls" % (cfg["fmt"], len(seq)))
            if prob is not None:
                fails.add(prob.sig, prob.what, {"manual": True, "cfg": cfg, "seq": seq})
        ctx.done(exhaustive=False, note=fails.note())

        # ---- atomicity witness (no threads)
        ctx.check("atomic", "re-entry of the other party after the k-th stream write of one call: outer in {advance, set_message} x inner in {set_message, advance} x every k")
        fails = _Failures(ctx)
        for outer in ("advance", "msg"):
            for inner in ("msg", "advance"):
                at = 0
                while True:
                    prob, total = run_atomic(outer, inner, at, clock)
                    ctx.case([outer, inner, at], nontrivial=True, sample="%s interrupted after write %d by %s" % (outer, at + 1, inner))
                    if prob is not None:
                        fails.add(prob.sig, prob.what, {"atomic": True, "outer": outer, "inner": inner, "at": at})
                    at += 1
                    if at >= total or at > 8:
                        break
        ctx.done(exhaustive=True, note=fails.note())
    finally:
        pim.time = saved_time

    # ---- auto() under the deterministic scheduler
    bound = 4 if quick else 99
    bodies = BODIES if quick else BODIES_THOROUGH
    ctx.check("auto_schedules", "auto() under a deterministic scheduler (scheduling points: stream writes, sleeps, Event.set, Thread.start, join; virtual clock, "
                                "spinner sleep 100 ms, interval 100 ms): bodies %s x %s" % (
                                    bodies, "all schedules with at most 4 preemptions" if quick else "all schedules (no preemption bound)"))
    fails = _Failures(ctx)
    complete = True
    total = 0
    for body in bodies:
        for choices, prob, trace in schedules(body, bound):
            total += 1
            ctx.case([body, choices], nontrivial=any(p for (_, _, p) in trace), sample="%s %s" % (body, "".join(str(c) for c in choices)))
            if prob is not None:
                fails.add(prob.sig, prob.what, {"schedule": True, "body": body, "choices": list(choices)})
            if ctx.out_of_time():
                complete = False
                break
    ctx.done(exhaustive=complete, note=fails.note())

    # (the real-thread check comes last: a spinner it cannot stop must not disturb the scheduler runs)
    # ---- auto() with the real threading module
    reps = 4 if quick else 40
    kinds = ["return", "work", "message", "Exception", "Exception-at-once", "KeyboardInterrupt", "SystemExit"]
    ctx.check("auto_threads", "auto() with real threads (spinner sleep shortened to 1 ms, interval 2 ms), bodies %s, %d repetitions each; the OS chooses the interleaving" % (kinds, reps))
    fails = _Failures(ctx)
    hung = False
    for kind in kinds:
        for r in range(reps):
            if hung:
                break
            prob = run_auto_threads(kind, 5.0)
            ctx.case([kind, r], nontrivial=kind != "return", sample=kind)
            if prob is not None:
                fails.add(prob.sig, prob.what, {"auto_threads": True, "kind": kind})
                hung = prob.sig.startswith("auto|hang")  # threads are left behind: stop here
    ctx.done(exhaustive=False, note=fails.note() + ("; stopped after a hang" if hung else ""))


def replay_bounded(check_id, failure):
    import clikit.ui.components.progress_indicator as pim

    w = failure.get("witness") or {}
    prob = None
    if w.get("manual") or w.get("atomic"):
        clock = _Clock()
        saved = pim.time
        pim.time = clock
        try:
            if w.get("manual"):
                prob, _ = run_manual(w["cfg"], w["seq"], clock)
            else:
                prob, _ = run_atomic(w["outer"], w["inner"], w["at"], clock)
        finally:
            pim.time = saved
    elif w.get("auto_threads"):
        for _ in range(5):
            prob = prob or run_auto_threads(w["kind"])
    elif w.get("schedule"):
        prob, _ = run_schedule(w["body"], w["choices"])
    return {"fails": prob is not None, "detail": "" if prob is None else "%s: %s" % (prob.sig, prob.what)}
