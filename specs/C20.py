"""C20 -- see DESIGN.md section 5.  Deductive targets are added below the bounded import."""
PROP = "C20"
LEVEL = "other"
EXPLANATION = 'bounded stand-in: generated source files / source-less code x messages x verbosity x UTF-8; highlighter corpus'
from . import trace_contracts as tcx
TARGETS = [tcx.H + "line_numbers", tcx.H + "code_snippet"]
LEMMAS = []
try:
    from .C20_bounded import bounded as _bounded_main, BOUNDED_RULE  # noqa: F401
    from .C20_extra import bounded_extra as _bounded_extra

    def bounded(ctx):
        _bounded_extra(ctx)
        _bounded_main(ctx)
    try:
        from .C20_bounded import replay_bounded  # noqa: F401
    except ImportError:
        pass
except ImportError:
    pass
